"""C12 — every helper name typeshare introduces into a file is defined or imported there.

Exhaustive over trigger x position x depth: one trigger type (`()`, u8/u16/u32/U53, OffsetDateTime, a generic
parameter, a mapped `Vec<u8>`, ...) under every chain of wrappers (Vec, Option, HashMap value, HashMap key, array,
slice, generic argument, Box) up to the tier's depth, at every position (struct field, defaulted field, tuple payload,
alias target, struct-variant field, defaulted struct-variant field), alone and in pairs, six languages, single- and
multi-file.  Model and implementation are compared byte for byte (`l2.requests`); the oracle is the property
evaluated on the IMPLEMENTATION's text: the helper names a file uses vs the ones it defines or imports.

`mapped_builtin_part`: the same programs under configurations whose `type_mappings` keys are built-in / special Rust types
(primitives, `()`, `OffsetDateTime`, containers spelled the way the type prints, user types), alone and in tables shared by
all six languages, the trigger type occurring only in a mapped spelling / only elsewhere / in both.

`helper_file_names_part`: the binary in folder mode (`-d`), where the *names of crates* and the *files already in the output
folder* meet the names of the helper files a back end writes next to the modules (found by probing every back end; today Swift's
`Codable.swift`).  The per-language oracle, applied to the files the run leaves on disk.
"""
import ast, builtins, itertools, multiprocessing, os, random, re
from common import *
from syn_gen import *
from gen import Gen
import l2

NEEDS = ("runner", "cli")
TRUSTED = [
    "binding semantics (Lean): C12L.Swift.unitIn / fieldUnit / itemUnit, C12L.Scala.unsignedIn / formatted / definesUnsigned, "
    "C12L.Go.timeIn / usesJson, C12L.TypeScript.fieldNeeds / clauseFor, C12L.Kotlin.declUses / provided, "
    "C12L.Python.typeNeeds / fieldSafe / structSafe / enumSafe / itemSafe / fnsNeeds / Provides "
    "(which helper names a rendered declaration mentions, and what the header / footer of a file defines)",
    "the python extractors of tools/c12.py (one per language: names used vs defined/imported in the generated text; "
    "Python through CPython's ast with a module/function scope analysis)",
    "helper_file_names_part: tools/c12.py `module_file` / `pascal_ascii` / `crate_of` (which file of the output folder is the module "
    "of which crate - mirror of cli/src/parse.rs output_file_name and CrateName::find_crate_name on ASCII names); the files a run "
    "leaves in build/scratch are read back as UTF-8 with replacement",
]

# ----------------------------------------------------------------------------- the input space

WRAPPERS = ["Vec", "Option", "Map", "MapKey", "Array", "Slice", "Wrap", "Box"]
LEAVES = ["()", "u8", "u16", "u32", "U53", "OffsetDateTime", "T", "Vec<u8>", "String"]
PY_ONLY_LEAVES = ["Stamp"]           # a simple type the Python configuration maps to `datetime`
POSITIONS = ["field", "field_default", "payload", "alias", "variant_field", "variant_field_default", "field_foreign",
             "variant_field_foreign"]
UNSIGNED = {"u8", "u16", "u32", "U53"}

CFG = {
    "typescript": {"type_mappings": {"Vec<u8>": "Uint8Array"}},
    "kotlin": {"package": "com.example"},
    "swift": {},
    "scala": {"package": "com.example"},
    "go": {"package": "proto", "type_mappings": {"Vec<u8>": "[]byte"}},
    "python": {"type_mappings": {"Vec<u8>": "bytes", "Stamp": "datetime"}},
}


def leaf_syn(leaf):
    if leaf == "()":
        return ("tuple", [])
    if leaf == "Vec<u8>":
        return t_path("Vec", [t_path("u8")])
    return t_path(leaf)


def leaf_tree(leaf):
    """the RustType the parser makes of the leaf"""
    if leaf == "()":
        return ("prim", "()")
    if leaf == "Vec<u8>":
        return ("vec", ("prim", "u8"))
    if leaf in ("T", "Stamp"):
        return ("simple", leaf)
    return ("prim", leaf)


def wrap_syn(w, t):
    if w == "Vec":
        return t_path("Vec", [t])
    if w == "Option":
        return t_path("Option", [t])
    if w == "Map":
        return t_path("HashMap", [t_path("String"), t])
    if w == "MapKey":
        return t_path("HashMap", [t, t_path("String")])
    if w == "Array":
        return ("array", t, 2)
    if w == "Slice":
        return ("ref", ("slice", t), False)
    if w == "Wrap":
        return t_path("Wrap", [t])
    if w == "Box":
        return t_path("Box", [t])
    raise ValueError(w)


def wrap_tree(w, t):
    return {"Vec": ("vec", t), "Option": ("option", t), "Map": ("map", ("prim", "String"), t),
            "MapKey": ("map", t, ("prim", "String")), "Array": ("array", t),
            "Slice": ("slice", t), "Wrap": ("generic", "Wrap", [t]), "Box": t}[w]


def build(chain, leaf):
    s, t = leaf_syn(leaf), leaf_tree(leaf)
    for w in reversed(chain):
        s, t = wrap_syn(w, s), wrap_tree(w, t)
    return s, t


def type_id(t):
    """`RustType::id` / `SpecialRustType::id`"""
    if t[0] in ("prim", "simple", "generic"):
        return t[1]
    return {"vec": "Vec", "option": "Option", "map": "HashMap", "array": "[]", "slice": "&[]"}[t[0]]


def display(t):
    """`impl Display for RustType / SpecialRustType`: the string a special type is looked up by in `type_mappings`"""
    k = t[0]
    if k in ("prim", "simple"):
        return t[1]
    if k == "generic":
        return t[1] + ("<%s>" % ", ".join(display(x) for x in t[2]) if t[2] else "")
    if k == "vec":
        return "Vec<%s>" % display(t[1])
    if k == "array":
        return "[%s]" % display(t[1])
    if k == "slice":
        return "&[%s]" % display(t[1])
    if k == "map":
        return "HashMap<%s,%s>" % (display(t[1]), display(t[2]))
    if k == "option":
        return "Option<%s>" % type_id(t[1])
    raise ValueError(t)


def mapping_key(t):
    """the `type_mappings` key that addresses the node: a generic type is looked up by its name, everything else by its spelling"""
    return t[1] if t[0] == "generic" else display(t)


def spine(chain, leaf):
    """the nodes of an entry's type tree that contain its trigger, outermost first (`Box<X>` is `X`)"""
    out = [build(chain[i:], leaf)[1] for i in range(len(chain) + 1) if i == len(chain) or chain[i] != "Box"]
    if leaf == "Vec<u8>":
        out.append(("prim", "u8"))
    return out


TS_ATTR = m_path("typeshare")
TAG_ATTR = m_list("serde", [m_nv("tag", lit_s("type")), m_nv("content", lit_s("content"))])
DEFAULT_ATTR = m_list("serde", [m_path("default")])


def foreign_override(lang):
    """a per-field type override addressed to a back end other than the one that is generating: it must change nothing"""
    other = "swift" if lang == "kotlin" else "kotlin"
    return m_list("typeshare", [m_list(other, [m_nv("type", lit_s("Ov"))])])


def make_items(entries, tag="", lang=None, names=None):
    """entries: list of (position, chain, leaf).  Fields of the same kind share one struct / one enum variant.
    Returns (items, description) where the description lists what the parser will see."""
    gens = ["T"] if any(leaf == "T" for _, _, leaf in entries) else []
    g = [("ty", x) for x in gens]
    items, desc = [], {"generic_items": [], "fields": [], "aliases": [], "payloads": [], "wrap": False}
    sfields, vfields, payloads, aliases = [], [], [], []
    for n, (pos, chain, leaf) in enumerate(entries):
        syn, tree = build(chain, leaf)
        if "Wrap" in chain:
            desc["wrap"] = True
        if pos.endswith("_foreign"):
            # same as the plain position, the field only carries an override for another language
            pos = pos[:-len("_foreign")]
            fa = [foreign_override(lang)]
            if pos == "field":
                sfields.append(field(fa, "f%d" % n, syn))
            else:
                vfields.append(field(fa, "f%d" % n, syn))
            desc["fields"].append((tree, False, gens))
            continue
        if pos in ("field", "field_default"):
            sfields.append(field([DEFAULT_ATTR] if pos.endswith("default") else [], names[n] if names else "f%d" % n, syn))
            desc["fields"].append((tree, pos.endswith("default"), gens))
        elif pos in ("variant_field", "variant_field_default"):
            vfields.append(field([DEFAULT_ATTR] if pos.endswith("default") else [], names[n] if names else "f%d" % n, syn))
            desc["fields"].append((tree, pos.endswith("default"), gens))
        elif pos == "payload":
            payloads.append((syn, tree))
            desc["payloads"].append(tree)
        elif pos == "alias":
            aliases.append((syn, tree))
            desc["aliases"].append((tree, gens))
    for i, (syn, tree) in enumerate(aliases):
        items.append({"kind": "alias", "attrs": [TS_ATTR], "ident": "Al%s%d" % (tag, i), "generics": g, "ty": syn})
    if sfields:
        items.append({"kind": "struct", "attrs": [TS_ATTR], "ident": "St" + tag, "generics": g, "fields": ("named", sfields)})
        if gens:
            desc["generic_items"].append("struct")
    if vfields or payloads:
        variants = []
        if vfields:
            variants.append({"attrs": [], "ident": "Sv", "fields": ("named", vfields)})
        for i, (syn, tree) in enumerate(payloads):
            variants.append({"attrs": [], "ident": "Tv%d" % i, "fields": ("unnamed", [field([], None, syn)])})
        variants.append({"attrs": [], "ident": "Un", "fields": ("unit",)})
        items.append({"kind": "enum", "attrs": [TS_ATTR, TAG_ATTR], "ident": "En" + tag, "generics": g, "variants": variants})
        if gens:
            desc["generic_items"].append("enum")
    if desc["wrap"]:
        items.append({"kind": "struct", "attrs": [TS_ATTR], "ident": "Wrap", "generics": [("ty", "T")],
                      "fields": ("named", [field([], "inner", t_path("T"))])})
        desc["generic_items"].append("struct")
    return items, desc


NEUTRAL = {"attrs": [], "items": [{"kind": "struct", "attrs": [TS_ATTR], "ident": "Plain", "generics": [],
                                   "fields": ("named", [field([], "name", t_path("String"))])}]}


# a second crate that needs helpers of its own (an unsigned integer, the unit type, a generic parameter): each module of a folder run
# must define / import what *it* uses, whatever an earlier module of the run already wrote
NEEDY = {"attrs": [], "items": [{"kind": "struct", "attrs": [TS_ATTR], "ident": "Needy", "generics": [("ty", "T")],
                                 "fields": ("named", [field([], "count", t_path("u32")), field([], "small", t_path("Vec", [t_path("u16")])),
                                                      field([], "nothing", ("tuple", [])), field([], "t", t_path("T"))])}]}


def make_case(entries, lang, multi, trigger_first=True, cfg=None, needy=False, names=None):
    items, desc = make_items(entries, lang=lang, names=names)
    f = {"attrs": [], "items": items}
    cfg = dict(CFG[lang] if cfg is None else cfg)
    if not multi:
        files = [{"crate": "", "file_name": "out", "path": "src/lib.rs", "file": f}]
        trig = ""
    else:
        a, b = ("alpha", "beta") if trigger_first else ("beta", "alpha")
        files = [{"crate": a, "file_name": a + ".out", "path": a + "/src/lib.rs", "file": f},
                 {"crate": b, "file_name": b + ".out", "path": b + "/src/lib.rs", "file": NEEDY if needy else NEUTRAL}]
        trig = a
    return dict(entries=entries, lang=lang, multi=multi, files=files, desc=desc, cfg=cfg, trigger_crate=trig,
                trigger_first=trigger_first, needy=needy)


# ----------------------------------------------------------------------------- the oracle (implementation text)

SWIFT_DEF = re.compile(r"public struct CodableVoid\b")
SCALA_NAMES = ["UByte", "UShort", "UInt", "ULong"]
PY_BUILTINS = set(dir(builtins))


def strip_line_comments(text, marker):
    return "\n".join(l for l in text.split("\n") if not l.lstrip().startswith(marker))


def oracle_swift(text, outputs):
    body = strip_line_comments(text, "///")
    uses = [m for m in re.finditer(r"\bCodableVoid\b", body)
            if not body[max(0, m.start() - 14):m.start()].endswith("public struct ")]
    if not uses:
        return set()
    shared = outputs.get("<post>/Codable.swift", "")
    if SWIFT_DEF.search(text) or SWIFT_DEF.search(shared):
        return set()
    return {"CodableVoid"}


def oracle_scala(text, outputs):
    missing = set()
    body = strip_line_comments(text, "//")
    for n in SCALA_NAMES:
        defined = re.search(r"^type %s = " % n, body, re.M) is not None
        used = any(not l.startswith("type %s = " % n) and re.search(r"\b%s\b" % n, l) for l in body.split("\n"))
        if used and not defined:
            missing.add(n)
    return missing


def oracle_go(text, outputs):
    m = re.search(r"^import \(\n(.*?)^\)\n", text, re.M | re.S)
    if m:
        imports = set(re.findall(r'"([^"]+)"', m.group(1)))
        rest = text[:m.start()] + text[m.end():]
    else:
        m1 = re.search(r'^import "([^"]+)"\n', text, re.M)
        imports = {m1.group(1)} if m1 else set()
        rest = text[:m1.start()] + text[m1.end():] if m1 else text
    rest = strip_line_comments(rest, "//")
    # back-quoted struct tags cannot contain package references that matter here
    rest = re.sub(r"`[^`\n]*`", "", rest)
    missing = set()
    for pkg, path in (("time", "time"), ("json", "encoding/json")):
        if re.search(r"(?<![\w.])%s\.[A-Z]" % pkg, rest) and path not in imports:
            missing.add(path)
    return missing


def oracle_typescript(text, outputs):
    missing = set()
    for ty in ("Date", "Uint8Array"):
        used = re.search(r"^\t(readonly )?[^\s:]+\??: %s( \| null)?;$" % ty, text, re.M)
        if not used:
            continue
        if "export const ReviverFunc = " not in text or "export const ReplacerFunc = " not in text:
            missing.add("ReviverFunc/ReplacerFunc")
        elif ("value instanceof %s" % ty) not in text or ("new %s(value)" % ty) not in text:
            missing.add("clause for " + ty)
    return missing


def oracle_kotlin(text, outputs):
    missing = set()
    body = strip_line_comments(text, "///")
    for name in ("Serializable", "SerialName"):
        if re.search(r"@%s\b" % name, body) and ("import kotlinx.serialization.%s\n" % name) not in text:
            missing.add(name)
    return missing


class PyScope(ast.NodeVisitor):
    """names loaded anywhere in the module that are not builtins, not bound at module level and not local to the
    function that loads them"""

    def __init__(self, tree):
        self.module = set()
        for node in tree.body:
            self.bind(node, self.module)
        self.undefined = set()
        self.locals = [set()]
        self.visit(tree)

    def bind(self, node, into):
        if isinstance(node, (ast.Import, ast.ImportFrom)):
            for a in node.names:
                into.add((a.asname or a.name).split(".")[0])
        elif isinstance(node, (ast.ClassDef, ast.FunctionDef)):
            into.add(node.name)
        elif isinstance(node, ast.Assign):
            for t in node.targets:
                for n in ast.walk(t):
                    if isinstance(n, ast.Name) and isinstance(n.ctx, ast.Store):
                        into.add(n.id)
        elif isinstance(node, ast.AnnAssign) and isinstance(node.target, ast.Name):
            into.add(node.target.id)

    def visit_FunctionDef(self, node):
        loc = {a.arg for a in node.args.args + node.args.kwonlyargs}
        for n in ast.walk(node):
            if isinstance(n, ast.Name) and isinstance(n.ctx, ast.Store):
                loc.add(n.id)
            if isinstance(n, ast.ExceptHandler) and n.name:
                loc.add(n.name)
        self.locals.append(loc)
        self.generic_visit(node)
        self.locals.pop()

    def visit_ClassDef(self, node):
        loc = set()
        for b in node.body:
            self.bind(b, loc)
        self.locals.append(loc)
        self.generic_visit(node)
        self.locals.pop()

    def visit_Name(self, node):
        if isinstance(node.ctx, ast.Load):
            if node.id in PY_BUILTINS or node.id in self.module or any(node.id in l for l in self.locals):
                return
            self.undefined.add(node.id)


def oracle_python(text, outputs):
    try:
        tree = ast.parse(text)
    except SyntaxError as e:
        return {"<syntax error: %s>" % e.msg}
    return PyScope(tree).undefined


ORACLES = {"swift": oracle_swift, "scala": oracle_scala, "go": oracle_go, "typescript": oracle_typescript,
           "kotlin": oracle_kotlin, "python": oracle_python}


# ----------------------------------------------------------------------------- the Known classes (mirror of the Lean predicates)

def all_types(desc):
    return [t for t, _, _ in desc["fields"]] + desc["payloads"] + [t for t, _ in desc["aliases"]]


def py_type(t, maps):
    """the python type string of a tree when it is one of the custom-translated ones, else None; second component:
    was it registered by format_special_type (a mapped special type)"""
    if t == ("vec", ("prim", "u8")) and maps.get("Vec<u8>") in ("bytes", "datetime"):
        return maps["Vec<u8>"], True
    if t == ("prim", "OffsetDateTime"):
        if "OffsetDateTime" in maps:
            return (maps["OffsetDateTime"], True) if maps["OffsetDateTime"] in ("bytes", "datetime") else (None, False)
        return "datetime", False
    if t[0] == "simple" and maps.get(t[1]) in ("bytes", "datetime"):
        return maps[t[1]], False
    return None, False


def py_special_registrations(t, maps, acc):
    """custom types registered while formatting (mapped special types, at any depth)"""
    if t == ("vec", ("prim", "u8")) and maps.get("Vec<u8>") in ("bytes", "datetime"):
        acc.add(maps["Vec<u8>"])
        return
    if t[0] == "prim" and maps.get(t[1]) in ("bytes", "datetime"):
        acc.add(maps[t[1]])
        return
    if t[0] == "generic":
        for x in t[2]:
            py_special_registrations(x, maps, acc)
    elif t[0] == "map":
        py_special_registrations(t[1], maps, acc)
        py_special_registrations(t[2], maps, acc)
    elif t[0] in ("vec", "option", "array", "slice"):
        py_special_registrations(t[1], maps, acc)


def py_datetime_imported(t, maps):
    """does formatting the tree import `datetime` (an unmapped OffsetDateTime at any depth that the printer reaches: a
    special type whose printed spelling is a mapping key, and a generic type whose name is one, are replaced before
    anything below them is formatted)"""
    if t[0] == "simple":
        return False
    if t[0] == "generic":
        return t[1] not in maps and any(py_datetime_imported(x, maps) for x in t[2])
    if display(t) in maps:
        return False
    if t[0] == "prim":
        return t[1] == "OffsetDateTime"
    if t[0] == "map":
        return py_datetime_imported(t[1], maps) or py_datetime_imported(t[2], maps)
    if t[0] in ("vec", "option", "array", "slice"):
        return py_datetime_imported(t[1], maps)
    return False


def known_python(case):
    """Python has no known class any more: py-alias-typevar (f8d1040), py-default-custom-fns (0d6268d) and
    py-mapped-datetime-import (bfc37c3) are repaired and TsV.C12.C12_python is a full theorem.  (The simulation of the
    printer state above is kept for `replay`-time diagnostics of a returned defect.)"""
    return []


def returned_python(case):
    """which repaired Python class an undefined name on this input would belong to (for the message of a violation)"""
    d, maps = case["desc"], case["cfg"].get("type_mappings", {})
    out = []
    registered = set()
    for t in all_types(d):
        py_special_registrations(t, maps, registered)
    for t, dflt, _ in d["fields"]:
        ty, _ = py_type(t, maps)
        if ty and not dflt:
            registered.add(ty)
    if any(dflt and py_type(t, maps)[0] and py_type(t, maps)[0] not in registered for t, dflt, _ in d["fields"]):
        out.append("py-default-custom-fns (fix 0d6268d)")
    if ("datetime" in registered or any(py_type(t, maps)[0] == "datetime" for t, _, _ in d["fields"])) \
            and not any(py_datetime_imported(t, maps) for t in all_types(d)):
        out.append("py-mapped-datetime-import (fix bfc37c3)")
    return out


def known_classes(case):
    lang = case["lang"]
    # Scala: none any more (C12_scala is a full theorem since the unsigned-integer scan became recursive)
    if lang == "python":
        return known_python(case)
    if lang == "kotlin":
        # a file of type aliases only carries no annotation
        d = case["desc"]
        annotated = bool(d["fields"] or d["payloads"] or d["wrap"] or case["multi"])    # the neutral crate has a struct
        return ["kotlin-empty-package"] if not case["cfg"].get("package") and annotated else []
    return []


def explained(case, names, classes):
    """are all the undefined names the oracle found accounted for by the known classes of the case"""
    return bool(classes)


def item_names(case):
    """the names of the user's own items (an undefined one is C10's / C11's business)"""
    return {it["ident"] for f in case["files"] for it in f["file"]["items"]} | set(case.get("user_names", ()))


def user_only(case, names):
    """undefined names that are the user's own (a type-mapping target used only where the mapping put it)"""
    if case["lang"] == "python" and "datetime" in names:
        maps = case["cfg"].get("type_mappings", {})
        if "datetime" in maps.values() and not any(py_datetime_imported(t, maps) for t in all_types(case["desc"])):
            # typeshare's own use of `datetime` is the text of the two translation functions - and the translation of an
            # unmapped OffsetDateTime, at any depth and in any position: then the name is typeshare's, not the user's
            return {"datetime"}
    return set()


# ----------------------------------------------------------------------------- running

class Recorder:
    """what a worker process would have told the Check object; replayed on it by the parent"""

    def __init__(self, open_ids):
        self.events, self.open, self.known_hit, self.n_samples = [], set(open_ids), {}, 0
        self.rng = random.Random(0)
        self.notes = self

    def append(self, note):
        self.events.append(("note", note))

    def saw(self, key, nontrivial=True):
        self.events.append(("saw", key, nontrivial))

    def count(self, key, n=1):
        self.events.append(("count", key, n))

    def known(self, kid, witness):
        if kid in self.open:
            if kid not in self.known_hit:
                self.known_hit[kid] = witness
                self.events.append(("known", kid, witness))
            return True
        return False

    def violation(self, what, case, impl=None, model=None, failing_input=True, broken=None):
        self.events.append(("violation", dict(what=what, case=case, impl=impl, model=model, failing_input=failing_input,
                                              broken=broken)))

    @property
    def samples(self):
        return [None] * self.n_samples

    def sample(self, x, limit=6):
        self.n_samples += 1
        self.events.append(("sample", x))


def replay_events(check, events):
    for e in events:
        if e[0] == "saw":
            check.saw(e[1], e[2])
        elif e[0] == "count":
            check.count(e[1], e[2])
        elif e[0] == "known":
            check.known(e[1], e[2])
        elif e[0] == "violation":
            # at most 50 of each kind are kept: a flood of broken-correspondence reports must not crowd out a failing input
            weak = not e[1].get("failing_input", True)
            if sum(1 for v in check.violations if (not v["failing_input_found"]) == weak) < 50:
                check.violation(**e[1])
        elif e[0] == "note":
            if len(check.notes) < 50:
                check.notes.append(e[1])
        elif e[0] == "sample":
            check.sample(e[1])


def evaluate(check, cases, label):
    g = Gen(check.rng)
    reqs = [l2.requests(c["lang"], c["cfg"], c["files"], g, c["multi"]) for c in cases]
    names = set()
    for c in cases:
        if c["lang"] == "python":
            for f in c["files"]:
                names |= l2.names_of(f["file"])
    mans = [l2.norm(a) for a in model([r[0] for r in reqs], names=names or None)]
    rans = [l2.norm(a) for a in runner([r[1] for r in reqs])]
    for c, (mreq, rreq, texts), ma, ra in zip(cases, reqs, mans, rans):
        lang = c["lang"]
        key = (label, lang, c["multi"], c["trigger_first"], c.get("needy", False), tuple(c["entries"]), json.dumps(c["cfg"], sort_keys=True))
        trig = any(leaf != "String" for _, _, leaf in c["entries"])
        check.saw(key, nontrivial=trig)
        check.count("%s %s %s" % (lang, "multi" if c["multi"] else "single", label))
        if c.get("mapped"):
            check.count("%s mapped built-in keys: %s, trigger %s" % (lang, c["mapped"]["mode"], c["mapped"]["class"]))
        src = "\n// ---- next file ----\n".join(texts)
        replay = {"lang": lang, "config": c["cfg"], "multi_file": c["multi"], "source": src, "request": rreq,
                  "entries": c["entries"]}
        agree = (ma == ra)
        if "ok" not in ra:
            # rejected by the back end (e.g. OffsetDateTime in Kotlin / Swift / Scala): nothing is generated
            check.count("%s rejected" % lang)
            if not agree:
                check.violation("%s: model and implementation disagree on a rejected input" % lang, case=replay,
                                impl=ra, model=ma, failing_input=False,
                                broken="correspondence L2 generate (theorems TsV.C12.*)")
            continue
        outputs = ra["ok"]
        classes = known_classes(c)
        problems = {}
        for crate, text in outputs.items():
            if crate.startswith("<post>/"):
                continue
            names_ = ORACLES[lang](text, outputs) - item_names(c)
            if not re.search(r"^def parse_rfc3339", text, re.M):
                # without the translation functions, `datetime` can only be where the user's mapping put it
                names_ -= user_only(c, names_)
            if names_:
                problems[crate] = sorted(names_)
        if problems:
            flat = set().union(*[set(v) for v in problems.values()])
            if classes and explained(c, flat, classes):
                ok_known = all(check.known(k, {"lang": lang, "source": src, "config": c["cfg"], "multi_file": c["multi"],
                                               "undefined": problems}) for k in classes if k in relevant(classes, flat, lang))
                check.count("known " + "+".join(classes))
                if ok_known:
                    continue
            back = returned_python(c) if lang == "python" else []
            about = ""
            if c.get("mapped"):
                about = (" - with [%s.type_mappings] %s (keys that are built-in / special Rust types or user types; the "
                         "helper-triggering types of the program occur %s)" % (
                             lang, json.dumps(c["cfg"].get("type_mappings", {}), sort_keys=True),
                             {"only mapped": "only inside types spelled like a key", "only elsewhere": "only outside the mapped types",
                              "both": "both inside and outside the mapped types", "no trigger": "nowhere"}[c["mapped"]["class"]]))
            check.violation("%s output uses helper names that it neither defines nor imports: %s%s%s" % (
                lang, problems, " - the repaired finding %s has returned" % " / ".join(back) if back else "", about),
                            case=replay, impl=ra, model=ma, failing_input=True)
            continue
        if classes:
            # inside a known class, yet the implementation's text is fine: the extractor / the mirror of Known disagree
            # with the theorems' exact characterisation, or the defect was repaired
            if agree:
                check.violation("%s: the input lies in %s but the implementation's output defines everything it uses, and "
                                "the model agrees with it" % (lang, classes), case=replay, impl=ra, model=ma,
                                failing_input=False, broken="exactness of TsV.C12.Known_kotlin (C12_kotlin_exact)")
            else:
                check.notes.append("%s: known class %s no longer fails (repaired upstream?)" % (lang, classes))
            continue
        if not agree:
            d = None
            for k in ra["ok"]:
                d = d or l2.text_diff(ma.get("ok", {}).get(k, "") if isinstance(ma.get("ok"), dict) else "", ra["ok"][k])
            check.violation("%s: generated text differs from the model (oracle passes on the implementation's text): %s"
                            % (lang, d or "%s vs %s" % (str(ma)[:200], str(ra)[:200])), case=replay, impl=ra, model=ma,
                            failing_input=False, broken="correspondence L2 generate_types (theorems TsV.C12.C12_partial, "
                            "C12_swift, C12_go, C12_typescript, C12_scala, C12_python, C12_kotlin_partial)")
        if len(check.samples) < 6 and trig and c["multi"] and lang in ("swift", "python"):
            check.sample({"lang": lang, "source": src, "outputs": {k: v[-400:] for k, v in outputs.items()}})


def replay(check, case):
    """./check C12 --replay FILE: the stored request against the current tree (implementation, oracle)"""
    c = case["case"]
    if c.get("kind") == "helper-file-names":
        return replay_folder(c)
    ra = l2.norm(runner([c["request"]])[0])
    print("source:\n" + c["source"])
    if "ok" not in ra:
        print("implementation:", ra)
        return 0
    bad = 0
    for crate, text in ra["ok"].items():
        print("---- [%s]\n%s" % (crate, text))
        if not crate.startswith("<post>/"):
            names = ORACLES[c["lang"]](text, ra["ok"])
            print("undefined helper names:", sorted(names))
            bad |= bool(names)
    return 1 if bad else 0


def replay_folder(c):
    """a case of `helper_file_names_part`: the stored crates, pre-existing object and runs against the current binary"""
    build_cli()
    lang = c["lang"]
    helpers = dict.fromkeys(KNOWN_HELPER_FILES.get(lang, []))
    helpers.update(probe_helper_files(lang))
    for path, text in c["sources"].items():
        print("---- ws/%s\n%s" % (path, text))
    print("before the first run, `%s` in the output folder: %s" % (c["pre_existing"].get("file"), c["pre_existing"]["state"]))
    bad = 0
    for n, r in enumerate(folder_run(lang, c["sources"], c["pre_existing"], c["runs"], c["output_folder_named"])):
        print("==== run %d: (cd %s && %s)   typeshare.toml: %r   exit %s" % (n + 1, r["cwd"], r["command"], r["toml"], r["rc"]))
        shared = {"<post>/" + hf: r["folder"].get(hf) or "" for hf in helpers}
        for fn, text in r["folder"].items():
            print("---- [%s]\n%s" % (fn, text))
            if text is not None and fn.endswith("." + EXT[lang]) and r["rc"] == 0:
                names = ORACLES[lang](text, shared)
                print("undefined helper names:", sorted(names))
                bad |= bool(names)
    return 1 if bad else 0


def relevant(classes, names, lang):
    """the known classes that actually account for one of the undefined names"""
    return classes


def chains(maxlen):
    for n in range(maxlen + 1):
        yield from itertools.product(WRAPPERS, repeat=n)


WITNESSES = [
    ("kotlin-empty-package", "kotlin", [("field", (), "u8")], {"package": ""}),
]


# the witnesses of the repaired findings scala-unsigned-scan-depth (37c1b68), py-alias-typevar (f8d1040),
# py-default-custom-fns (0d6268d) and py-mapped-datetime-import (bfc37c3): now ordinary inputs that must pass the oracle
# (and on which model and implementation must agree); a failure is reported as a VIOLATION with the input ("has returned")
REGRESSIONS = [
    ("scala", [("field", ("Vec", "Vec"), "u8")]),
    ("scala", [("field", ("Array",), "u16")]),
    ("scala", [("alias", ("Slice",), "u16")]),
    ("scala", [("payload", ("Option", "Vec"), "u32")]),
    ("scala", [("variant_field", ("Map", "Vec"), "u8")]),
    ("scala", [("field", ("Wrap", "Vec"), "u8")]),
    ("python", [("alias", ("Vec",), "T")]),
    ("python", [("alias", ("Map", "Option"), "T")]),
    ("python", [("field_default", (), "OffsetDateTime")]),
    ("python", [("variant_field_default", (), "OffsetDateTime")]),
    ("python", [("field_default", (), "Stamp")]),
    ("python", [("field", (), "Stamp")]),
    ("python", [("variant_field", (), "Stamp")]),
    ("python", [("field", (), "Stamp"), ("field_default", (), "Vec<u8>")]),
]


RESERVED_NAMES = ["from", "global", "import", "is", "lambda", "not", "or", "pass", "with", "and", "del", "def", "class", "raise",
                  "object", "val", "var", "func", "package", "interface", "function", "new", "this"]


def language_cases(lang, thorough, depth, mdepth):
    """the batches of one language: (label, cases)"""
    leaves = LEAVES + (PY_ONLY_LEAVES if lang == "python" else [])
    cases = []
    for ch in chains(depth):
        for leaf in leaves:
            for pos in POSITIONS:
                cases.append(make_case([(pos, ch, leaf)], lang, False))
                if len(ch) <= mdepth:
                    # both generation orders: the crate with the trigger before and after the neutral crate
                    cases.append(make_case([(pos, ch, leaf)], lang, True, trigger_first=True))
                    cases.append(make_case([(pos, ch, leaf)], lang, True, trigger_first=False))
                    if len(ch) <= 1:
                        cases.append(make_case([(pos, ch, leaf)], lang, True, trigger_first=True, needy=True))
                        cases.append(make_case([(pos, ch, leaf)], lang, True, trigger_first=False, needy=True))
    yield "alone", cases
    # together: pairs
    small = [(ch, leaf) for ch in [(), ("Vec",), ("Vec", "Vec")] for leaf in leaves]
    cases = []
    for (c1, l1), (c2, l2_) in itertools.product(small, small):
        for p2 in (("field", "field_default") if thorough or (len(c1) + len(c2)) % 2 == 0 else ("field",)):
            if l1 == "String" and l2_ == "String":
                continue
            cases.append(make_case([("field", c1, l1), (p2, c2, l2_)], lang, False))
    # mixed positions together: an alias, a payload and a struct-variant field in one file
    for (c1, l1), (c2, l2_) in itertools.product(small[::2], small[1::2]):
        cases.append(make_case([("alias", c1, l1), ("payload", c2, l2_), ("variant_field_default", c1, l2_)], lang,
                               len(cases) % 3 == 0, trigger_first=len(cases) % 2 == 0))
    yield "together", cases
    # field *names* that alone force a decoration (round 15): identifiers that are legal in Rust and reserved in a target language,
    # one per file, with no other field that would bring the helper in
    yield "reserved-names", [make_case([(pos, ch, leaf)], lang, m, names=[nm])
                             for nm in RESERVED_NAMES for ch in [(), ("Vec",)] for leaf in ["String", "u8"]
                             for pos in ("field", "variant_field") for m in (False, True)]
    if lang == "kotlin":
        yield "no-package", [make_case([(pos, ch, leaf)], lang, m, cfg={"package": ""})
                             for ch in chains(1) for leaf in ["u8", "String", "()"] for pos in POSITIONS for m in (False, True)]


# ----------------------------------------------------------------------------- built-in types as type-mapping keys

# replacement texts per language: none of them spells a helper name of its language, except the ones the back end itself
# treats as custom-translated (TypeScript Uint8Array / Date, Python bytes / datetime) - there typeshare owes the helper
MAP_TARGETS = {
    "typescript": ["Uint8Array", "Date", "Mapped", "string"],
    "kotlin": ["ByteArray", "Mapped", "Long"],
    "swift": ["Data", "Mapped", "Int64"],
    "scala": ["ByteString", "Mapped", "Long"],
    "go": ["[]byte", "Mapped", "int64"],
    "python": ["bytes", "datetime", "int", "str"],
}
# keys of a shared table that address nothing the trigger sits in (other built-in types, spelled as they print)
BYSTANDER_KEYS = ["i32", "bool", "f64", "char", "I54", "i8", "f32", "String", "Other", "Vec<i32>", "Vec<String>", "Option<bool>",
                  "Option<Vec>", "HashMap<String,i32>", "[bool]", "&[i32]", "Vec<Vec<i8>>"]
MAPPED_LEAVES = LEAVES + PY_ONLY_LEAVES      # here `Stamp` is a user type for every language (mapped or not by the table drawn)


def mapped_class(entries, keys):
    """where the helper-triggering types of a program sit relative to the mapping keys (read off the Rust spelling alone,
    whatever the back end makes of the key): only inside mapped types / only elsewhere / both"""
    hit = [any(mapping_key(n) in keys for n in spine(ch, leaf)) for _, ch, leaf in entries if leaf != "String"]
    if not hit:
        return "no trigger"
    return "only mapped" if all(hit) else "both" if any(hit) else "only elsewhere"


def mapped_builtin_cases(lang, seed, thorough):
    """the cases of `mapped_builtin_part` for one language.  The random stream does not depend on the language: all six
    languages see the same programs with the same key sets (a table shared between the languages' sections), only the
    replacement texts are the language's own."""
    rng = random.Random("C12 mapped built-in keys %d" % seed)
    targets = MAP_TARGETS[lang]

    def table(keys):
        return {k: targets[rng.randrange(60) % len(targets)] for k in keys}

    def case(entries, keys, mode):
        layout = rng.randrange(10)              # drawn for every case so that the stream stays the same for all languages
        multi, first, needy = layout >= 7, layout % 2 == 0, layout == 9
        cfg = {k: v for k, v in CFG[lang].items() if k != "type_mappings"}
        cfg["type_mappings"] = table(keys)
        c = make_case(entries, lang, multi, trigger_first=first, cfg=cfg, needy=needy and multi)
        c["mapped"] = {"mode": mode, "class": mapped_class(entries, set(keys))}
        c["user_names"] = ["Stamp"]         # a type of the user's that is not annotated: not typeshare's to define
        return c

    def entry(leaf=None):
        return (rng.choice(POSITIONS), tuple(rng.choice(WRAPPERS) for _ in range(rng.choice([0, 0, 1, 1, 2, 2, 3]))),
                leaf or rng.choice(MAPPED_LEAVES))

    cases = []
    # alone: one trigger, one key - every node of the trigger's type tree in turn (the leaf itself, each container around it)
    for ch in chains(3 if thorough else 2):
        for leaf in MAPPED_LEAVES:
            nodes = spine(ch, leaf)
            for node in nodes:
                for _ in range(2 if thorough else 1):
                    cases.append(case([(rng.choice(POSITIONS), ch, leaf)], [mapping_key(node)], "one key"))
    # tables: several entries, several keys
    for i in range(40000 if thorough else 3000):
        mode = ["table, every trigger mapped", "table, some triggers mapped", "table, bystander keys only",
                "table, same trigger mapped and unmapped"][i % 4]
        entries = [entry() for _ in range(rng.choice([1, 2, 2, 3]))]
        keys = rng.sample(BYSTANDER_KEYS, rng.choice([0, 1, 1, 2]))
        if mode == "table, every trigger mapped":
            keys += [mapping_key(rng.choice(spine(ch, leaf))) for _, ch, leaf in entries]
        elif mode == "table, some triggers mapped":
            some = rng.sample(entries, rng.randrange(1, len(entries) + 1))
            keys += [mapping_key(rng.choice(spine(ch, leaf))) for _, ch, leaf in some]
        elif mode == "table, bystander keys only":
            # spellings of types that do not occur: what another program of the same project uses
            other = [entry() for _ in range(2)]
            keys += [mapping_key(rng.choice(spine(ch, leaf))) for _, ch, leaf in other]
            here = {mapping_key(n) for _, ch, leaf in entries if leaf != "String" for n in spine(ch, leaf)}
            keys = [k for k in keys if k not in here] or ["i32"]
        else:
            # the first trigger twice: once below a container that is a key, once bare or below other containers
            pos, ch, leaf = entries[0]
            if not ch:
                ch = (rng.choice(WRAPPERS[:6]),)
                entries[0] = (pos, ch, leaf)
            outer = [n for n in spine(ch, leaf) if n[0] not in ("prim", "simple")] or spine(ch, leaf)
            keys.append(mapping_key(rng.choice(outer)))
            entries.append((rng.choice(POSITIONS), rng.choice([(), (), ("Option",), ("Vec", "Vec"), ("Map",), ("Wrap",)]), leaf))
        cases.append(case(entries, sorted(set(keys)), mode))
    return cases


def mapped_builtin_part(check, lang, seed, thorough):
    """Dimension: the keys of `[<lang>.type_mappings]`.  The other parts only ever map `Vec<u8>` (TypeScript, Go, Python) and
    the user type `Stamp` (Python); here the keys are *built-in / special* Rust types spelled the way `Display` prints them -
    primitives (`u8` `u16` `u32` `U53` `String` `bool` ...), `()`, `OffsetDateTime`, containers at any depth (`Vec<u8>`,
    `Vec<Vec<u16>>`, `Option<Vec>`, `HashMap<String,u32>`, `[u8]`, `&[u16]`), a generic parameter, the user types `Stamp` and
    `Wrap` - for every language, whether or not its printer honours such a key (TypeScript, Go and Python look a special type up
    before they print it; Kotlin, Swift and Scala print built-in types without consulting the table and honour only user /
    generic type names).  One key alone: every node of the trigger's type tree (chains of <= 2 wrappers, 3 thorough) in turn.
    Tables (the same keys for all six languages, replacement texts per language): 1-3 entries at random positions with
    keys for every trigger / for some / for none (spellings that occur nowhere plus other built-in types) / for one of two
    occurrences of the same trigger; single- and multi-file (neutral and needy second crate).
    Demand: exactly C12's - the helper names the IMPLEMENTATION's text uses are defined or imported in it (per-language
    oracle, unchanged); nothing is demanded about which keys a back end honours.  Model and implementation are compared
    byte for byte as everywhere else in this file."""
    cases = mapped_builtin_cases(lang, seed, thorough)
    for i in range(0, len(cases), 20000):
        evaluate(check, cases[i:i + 20000], "mapped-builtin")


# ----------------------------------------------------------------------------- helper files on disk (the binary, folder mode)

# helper files the back ends are known to write next to the modules of a folder run; `probe_helper_files` adds whatever a back end
# is *seen* to write besides the modules of the crates (so a back end that gains such a file is covered without touching this table)
KNOWN_HELPER_FILES = {"swift": ["Codable.swift"]}
# the settings `lang_args` passes on the command line, as the in-process back ends / the model take them
DISK_CFG = {"typescript": {}, "kotlin": {"package": "com.example"}, "swift": {}, "scala": {"package": "com.example"},
            "go": {"package": "proto"}, "python": {}}
# for back ends without a helper file: crate names made of the vocabulary the back end itself brings into a module
HELPER_WORDS = {"typescript": ["ReviverFunc", "Date"], "kotlin": ["Serializable", "kotlinx"], "swift": ["CodableVoid", "Foundation"],
                "scala": ["UByte", "package"], "go": ["time", "json"], "python": ["typing", "datetime", "pydantic", "enum"]}
HELPER_MENTION = {"typescript": "ReviverFunc", "kotlin": "Serializable", "swift": "CodableVoid", "scala": "UByte", "go": "time.Time",
                  "python": "BaseModel"}
# programs that make a back end use a helper name (what each language accepts in folder mode)
DISK_TRIGGERS = {
    "swift": [[("field", (), "()")], [("payload", ("Vec",), "()")], [("alias", ("Option",), "()")], [("variant_field", ("Map",), "()")],
              [("field_default", ("Vec", "Option"), "()")], [("field", (), "u32"), ("payload", (), "()")]],
    "scala": [[("field", (), "u8")], [("payload", ("Vec",), "u32")], [("alias", ("Option",), "U53")], [("variant_field", ("Map",), "u16")]],
    "go": [[("field", (), "OffsetDateTime")], [("variant_field", ("Option",), "OffsetDateTime")], [("field", ("Vec",), "u8")]],
    "typescript": [[("field", (), "OffsetDateTime")], [("field_default", (), "OffsetDateTime")], [("field", ("Vec",), "u8")]],
    "kotlin": [[("field", (), "u8")], [("payload", ("Vec",), "()")], [("alias", ("Option",), "String")]],
    "python": [[("field", (), "OffsetDateTime")], [("alias", ("Vec",), "T")], [("field_default", (), "OffsetDateTime")],
               [("payload", ("Map",), "u32")], [("variant_field", ("Option",), "T")]],
}
SWIFT_SETTINGS = [{}, {"codablevoid_constraints": ["Equatable"]},
                  {"codablevoid_constraints": ["Sendable", "Hashable"], "default_decorators": ["Sendable"]},
                  {"default_decorators": ["Equatable", "Hashable"]}]
HAND_WRITTEN = {
    "swift": "import Foundation\n\n// written by hand, not generated\npublic extension JSONDecoder {\n    static let shared = JSONDecoder()\n}\n",
    "typescript": "// written by hand, not generated\nexport const VERSION = 1;\n",
    "kotlin": "package com.example\n\n// written by hand, not generated\nconst val VERSION = 1\n",
    "scala": "package com.example\n\n// written by hand, not generated\nobject Version { val v = 1 }\n",
    "go": "package proto\n\n// written by hand, not generated\nconst Version = 1\n",
    "python": "# written by hand, not generated\nVERSION = 1\n",
}
OUTDIR_AS = ["absolute", "relative", "dot-slash-trailing", "dotdot", "nested-new"]


def pascal_ascii(name):
    """`RenameExt::to_pascal_case` on an ASCII name"""
    lower = not any(c.islower() for c in name)
    out, cap = "", True
    for ch in name:
        if ch == "_":
            cap = True
        elif cap:
            out, cap = out + ch.upper(), False
        else:
            out += ch.lower() if lower else ch
    return out


def crate_of(dirname):
    """`CrateName::find_crate_name`: the directory above `src`, dashes replaced"""
    return dirname.replace("-", "_")


def module_file(lang, crate):
    """cli/src/parse.rs `output_file_name`"""
    return "%s.%s" % (pascal_ascii(crate) if lang == "swift" else crate, EXT[lang])


def neutral_items(i):
    return [{"kind": "struct", "attrs": [TS_ATTR], "ident": "Plain%d" % i, "generics": [],
             "fields": ("named", [field([], "name", t_path("String"))])}]


def disk_files(lang, crates):
    """crates: [(directory name, entries or None for a crate that needs no helper)] -> the `files` of `l2.requests`"""
    out = []
    for i, (d, entries) in enumerate(crates):
        items = make_items(entries, tag="C%d" % i, lang=lang)[0] if entries else neutral_items(i)
        out.append({"crate": crate_of(d), "file_name": module_file(lang, crate_of(d)), "path": d + "/src/lib.rs",
                    "file": {"attrs": [], "items": items}, "dir": d})
    return out


def settings_toml(lang, settings):
    if not settings:
        return None
    return "[%s]\n%s" % (lang, "".join("%s = [%s]\n" % (k, ", ".join(json.dumps(x) for x in v)) for k, v in sorted(settings.items())))


def read_folder(path):
    """{file name: text, or None for a directory / an unreadable object} of the output folder"""
    out = {}
    if not os.path.isdir(path):
        return out
    for fn in sorted(os.listdir(path)):
        p = os.path.join(path, fn)
        try:
            out[fn] = None if os.path.isdir(p) else open(p, "rb").read().decode("utf-8", "replace")
        except OSError:
            out[fn] = None
    return out


def place_pre(sc, folder, pre):
    """put the pre-existing object of a case into the output folder.  `pre`: dict(state, file, kind, content)"""
    kind = pre["kind"]
    if kind == "no-folder":
        return
    os.makedirs(folder, exist_ok=True)
    target = os.path.join(folder, pre["file"])
    if kind == "empty-folder":
        return
    if kind == "text":
        with open(target, "w", encoding="utf-8", newline="") as f:
            f.write(pre["content"])
    elif kind == "bytes":
        with open(target, "wb") as f:
            f.write(bytes(pre["content"]))
    elif kind == "directory":
        os.makedirs(target)
    elif kind == "symlink":
        elsewhere = sc.write("elsewhere/" + pre["file"], pre["content"])
        os.symlink(elsewhere, target)
    elif kind == "dangling":
        os.makedirs(sc.path("elsewhere"), exist_ok=True)
        os.symlink(sc.path("elsewhere/not-there-" + pre["file"]), target)
    else:
        raise ValueError(kind)


def folder_run(lang, sources, pre, runs, outdir_as):
    """The binary in folder mode.  `sources`: {directory/src/lib.rs: text}; `pre`: what is in the output folder before the first
    run; `runs`: one settings dict per run of the same command into the same folder; `outdir_as`: how the folder is named on the
    command line.  Returns one dict(rc, err, folder, command, cwd, toml) per run."""
    out = []
    with Scratch() as sc:
        for rel, text in sources.items():
            sc.write("ws/" + rel, text)
        folder = sc.path("gen/swift/out") if outdir_as == "nested-new" else sc.path("out")
        place_pre(sc, folder, pre)
        arg, cwd = {"absolute": (folder, sc.path("ws")), "relative": ("out", sc.dir), "dot-slash-trailing": ("./out/", sc.dir),
                    "dotdot": ("../out", sc.path("ws")), "nested-new": (folder, sc.dir)}[outdir_as]
        for settings in runs:
            toml = settings_toml(lang, settings)
            cfg_args = []
            if toml is not None:
                cfg_args = ["-c", sc.write("settings/typeshare.toml", toml)]
            args = ["--lang", lang, "-d", arg] + cfg_args + lang_args(lang) + [sc.path("ws")]
            r = run_cli(args, cwd=cwd)
            out.append(dict(rc=r["rc"], err=(r["err"] or "")[-600:], folder=read_folder(folder), toml=toml,
                            command="typeshare " + " ".join(a.replace(sc.dir, "$T") for a in args), cwd=cwd.replace(sc.dir, "$T")))
    return out


_PROBED = {}
_NOTED = []


def probe_helper_files(lang):
    """which files does the back end write into the output folder besides the modules of the crates?  Probed with a workspace
    whose two crates (neutral names) use every helper of DISK_TRIGGERS; returns {file name: text} (plus the known table)."""
    if lang not in _PROBED:
        crates = [("alpha", [e for es in DISK_TRIGGERS[lang] for e in es if e[2] != "T"]), ("beta", DISK_TRIGGERS[lang][0])]
        files = disk_files(lang, crates)
        srcs = {f["path"]: render_file(f["file"]) for f in files}
        found = {}
        for settings in ([{}] if lang != "swift" else SWIFT_SETTINGS[:2]):
            r = folder_run(lang, srcs, {"kind": "no-folder", "state": "no output folder", "file": ""}, [settings], "absolute")[0]
            for fn, text in r["folder"].items():
                if fn not in {f["file_name"] for f in files}:
                    found.setdefault(fn, text)
        for fn in KNOWN_HELPER_FILES.get(lang, []):
            found.setdefault(fn, None)
        _PROBED[lang] = found
    return _PROBED[lang]


def colliding_dirs(stem):
    """directory names whose crate's Swift module is `<stem>.swift` (the file name is the pascal-cased crate name)"""
    low = stem[0].lower() + stem[1:]
    return [low, stem, stem.upper(), "_" + low, low + "_", low + "-"]


def near_dirs(stem):
    low = stem[0].lower() + stem[1:]
    return [low + "s", "my_" + low, low[:3] + "_" + low[3:], low + "2", low + "-void", "x" + low]


def pre_states(lang, target, helper_text):
    """the objects a run may find at the path of a helper file (or, for a back end without one, of a module)"""
    hand = HAND_WRITTEN[lang]
    cm = "#" if lang == "python" else "//"
    ref = helper_text if helper_text else hand * 2
    st = [dict(state="no output folder", kind="no-folder"), dict(state="an empty output folder", kind="empty-folder"),
          dict(state="an empty file", kind="text", content=""),
          dict(state="a hand-written file", kind="text", content=hand),
          dict(state="a hand-written file that mentions the helper in a comment", kind="text",
               content=hand + "%s the struct %s itself is generated by typeshare, see the modules\n" % (cm, HELPER_MENTION[lang])),
          dict(state="a hand-written file defining a type whose name begins like the helper's", kind="text",
               content=hand + ("public struct CodableVoidBox: Codable {}\n" if lang == "swift" else "%s %sBox\n" % (cm, HELPER_MENTION[lang]))),
          dict(state="the first half of what an earlier run wrote there", kind="text", content=ref[:len(ref) // 2]),
          dict(state="bytes that are not UTF-8", kind="bytes", content=list(b"\xff\xfe\x00generated? \xc3\x28\n")),
          dict(state="a symbolic link to a hand-written file outside the folder", kind="symlink", content=hand),
          dict(state="a dangling symbolic link", kind="dangling"),
          dict(state="a directory", kind="directory")]
    return [dict(s, file=target) for s in st]


def helper_file_cases(lang, seed, thorough):
    """the cases of `helper_file_names_part` for one language"""
    rng = random.Random("C12 helper file names %s %d" % (lang, seed))
    helpers = probe_helper_files(lang)
    triggers = DISK_TRIGGERS[lang]
    all_settings = SWIFT_SETTINGS if lang == "swift" else [{}]
    if helpers:
        stems = [(hf, hf.rsplit(".", 1)[0]) for hf in sorted(helpers)]
    else:
        stems = [(None, w) for w in (HELPER_WORDS[lang] if thorough else rng.sample(HELPER_WORDS[lang], 1))]
    cases = []

    def case(crates, pre, runs, outdir_as, target, why):
        if pre["kind"] != "no-folder" and outdir_as == "nested-new":
            outdir_as = "absolute"
        cases.append(dict(lang=lang, crates=crates, pre=pre, runs=runs, outdir_as=outdir_as, target=target, why=why))

    def layouts(d, others):
        """the crate with the critical name `d` (None: no such crate) among others: who uses the helper"""
        t = lambda: rng.choice(triggers)
        o1, o2 = others
        if d is None:
            return [("no crate of that name", [(o1, t()), (o2, None)])]
        return [("the helper is used by another crate", [(d, None), (o1, t())]),
                ("the helper is used by the crate of that name", [(d, t()), (o1, None)]),
                ("the helper is used by both", [(d, t()), (o1, t())]),
                ("the crate of that name is the only one", [(d, t())]),
                ("three crates, the helper is used by the two others", [(o1, t()), (d, None), (o2, t())]),
                ("no crate uses a helper", [(d, None), (o1, None)])]

    fresh = dict(state="no output folder", kind="no-folder", file="")
    for hf, stem in stems:
        target = hf or module_file(lang, crate_of(colliding_dirs(stem)[0]))
        colliders = [d for d in colliding_dirs(stem) if hf and module_file(lang, crate_of(d)) == hf] or [colliding_dirs(stem)[0]]
        nears = [d for d in colliding_dirs(stem) + near_dirs(stem) if d not in colliders]
        states = pre_states(lang, target, helpers.get(hf) if hf else None)
        # (a) every spelling of the critical crate name x who uses the helper, into a fresh folder, the command run twice
        for d in colliders + (nears if thorough else nears[:3]):
            for n, (why, crates) in enumerate(layouts(d, rng.choice([("app", "zeta"), ("zeta", "Alpha"), ("Alpha", "app")]))):
                if d in colliders or n < 2 or thorough:
                    s = rng.choice(all_settings)
                    case(crates, fresh, [s, s], OUTDIR_AS[len(cases) % len(OUTDIR_AS)], target, why)
        # two crates whose names differ in spelling only
        if len(colliders) > 1:
            for a, b in ([(colliders[0], colliders[1]), (colliders[1], colliders[4])] if not thorough else itertools.combinations(colliders, 2)):
                if crate_of(a) != crate_of(b):
                    case([(a, None), (b, rng.choice(triggers))], fresh, [{}, {}], "absolute", target, "two crates whose names differ in spelling only")
        # (b) every object at the critical path x (a crate of that name uses / does not use the helper, no crate of that name)
        for pre in states[1:]:
            lay = layouts(colliders[0], ("app", "zeta"))[:2] + layouts(None, ("app", "zeta"))
            for why, crates in (lay if hf or thorough else lay[1:]):
                s = rng.choice(all_settings)
                case(crates, pre, [s, s], rng.choice(OUTDIR_AS[:4]), target, why)
        # (c) what an earlier run under other settings left: every ordered pair of settings, then the second one again
        for s1, s2 in itertools.permutations(all_settings, 2):
            for why, crates in (layouts(colliders[0], ("app", "zeta"))[:3] + layouts(None, ("app", "zeta"))):
                if thorough or rng.random() < 0.5:
                    case(crates, fresh if rng.random() < 0.7 else rng.choice(states[1:9]), [s1, s2, s2], rng.choice(OUTDIR_AS[:4]), target, why)
        # (d) at random: name x layout x object x two or three runs under settings drawn independently
        for _ in range(400 if thorough else (40 if hf else 8)):
            d = rng.choice(colliders * 3 + nears + [None])
            why, crates = rng.choice(layouts(d, rng.choice([("app", "zeta"), ("zeta", "Alpha"), ("Alpha", "app"), ("b-c", "B")])))
            case(crates, rng.choice(states), [rng.choice(all_settings) for _ in range(rng.choice([1, 2, 2, 3]))], rng.choice(OUTDIR_AS),
                 target, why)
    return cases, helpers


def helper_file_names_part(check, seed, thorough, langs=None):
    """Dimension: the *names* that meet in the output folder of a folder run (`typeshare -d`), at the level of the binary - the
    other parts of this file run the back ends in-process, where no output folder exists.  A back end may write helper files next to
    the modules of the crates (every back end is probed for them with a workspace that uses all its helpers; today only Swift's
    `Codable.swift`, which holds `CodableVoid`).  Explored: crate directory names that give the helper file's own name in every
    spelling the file-name rule folds together (`codable` `Codable` `CODABLE` `_codable` `codable_` `codable-`), near misses
    (`codables` `my_codable` `cod_able` ...), two such crates at once; who uses the helper (another crate, that crate, both, that
    crate alone, two others of three); what already sits at the helper file's path (nothing, no folder, an empty file, a
    hand-written file - plain / mentioning the helper in a comment / defining a type named like it -, half of an earlier helper
    file, non-UTF-8 bytes, a symbolic link to a file elsewhere, a dangling link, a directory); what an earlier run of the same
    command under the same or other settings (`codablevoid_constraints`, `default_decorators`) left there - every case runs the
    command two or three times into the same folder; how the folder is named on the command line (absolute, relative, `./out/`,
    `../out`, a nested path that does not exist).  For the five back ends without a helper file the crate names and pre-existing
    files are made of the back end's own vocabulary (`typing`, `datetime`, `time`, `json`, ...).
    Demand: exactly C12's, on the files the run leaves on disk - after every run that exits 0, each module of a crate of the run
    (the per-language oracle of this file, unchanged) uses only helper names defined / imported in that module or defined in the
    shared helper file in the folder.  A run that fails (a directory at the helper's path) is counted, nothing is demanded of it.
    Which of the two contents ends up on disk when a crate's module and the helper file share a path is recorded, not demanded.
    Kept as well: model == in-process back end on the same crates (L2), and the files on disk == the in-process output
    (modules other than one at a helper's path; the helper file) - differences are reported without a failing input."""
    for lang in (langs or LANGS):
        cases, helpers = helper_file_cases(lang, seed, thorough)
        check.count("%s: helper files seen besides the modules: %s" % (lang, sorted(helpers) or "none"))
        g = Gen(check.rng)
        # the in-process answers (model and back end), one per (crates, settings of a run)
        reqs, index = [], {}
        for c in cases:
            c["files"] = disk_files(lang, c["crates"])
            for s in c["runs"]:
                cfg = dict(DISK_CFG[lang], version_header=True, **s)
                key = json.dumps([c["crates"], cfg], sort_keys=True)
                if key not in index:
                    index[key] = len(reqs)
                    reqs.append(l2.requests(lang, cfg, c["files"], g, True))
            c["keys"] = [json.dumps([c["crates"], dict(DISK_CFG[lang], version_header=True, **s)], sort_keys=True) for s in c["runs"]]
        names = set()
        if lang == "python":
            for c in cases:
                for f in c["files"]:
                    names |= l2.names_of(f["file"])
        mans = [l2.norm(a) for a in model([r[0] for r in reqs], names=names or None)]
        rans = [l2.norm(a) for a in runner([r[1] for r in reqs])]
        failing = 0
        for c in cases:
            failing += bool(helper_file_case(check, c, helpers, [(mans[index[k]], rans[index[k]]) for k in c["keys"]]))
            if failing >= 3:
                break           # three failing inputs of one language are enough to read; the rest of its cases is not run


def helper_file_case(check, c, helpers, answers):
    lang = c["lang"]
    files = c["files"]
    srcs = {f["path"]: render_file(f["file"]) for f in files}
    crate_files = {}
    for f in files:
        crate_files.setdefault(f["file_name"], []).append(f["crate"])
    idents = {it["ident"] for f in files for it in f["file"]["items"]}
    pre = c["pre"]
    at_helper = [fn for fn in crate_files if fn in helpers]
    klass = ("a crate's module and the helper file share a path" if at_helper else
             "a crate named after the back end's vocabulary" if not helpers and c["target"] in crate_files else "no crate at the critical path")
    runs = folder_run(lang, srcs, pre, c["runs"], c["outdir_as"])
    placed = None
    if pre["kind"] == "text":
        placed = pre["content"]
    elif pre["kind"] == "bytes":
        placed = bytes(pre["content"]).decode("utf-8", "replace")
    replay = {"kind": "helper-file-names", "lang": lang, "sources": srcs, "pre_existing": pre, "runs": c["runs"],
              "output_folder_named": c["outdir_as"], "crate_directories": [d for d, _ in c["crates"]], "layout": c["why"],
              "commands": [dict(command=r["command"], cwd=r["cwd"], typeshare_toml=r["toml"]) for r in runs]}
    for n, (r, (ma, ra)) in enumerate(zip(runs, answers)):
        key = ("helper-file-names", lang, tuple(d for d, _ in c["crates"]), c["why"], pre["state"], json.dumps(c["runs"][:n + 1], sort_keys=True),
               c["outdir_as"], json.dumps(srcs, sort_keys=True))
        check.saw(key, nontrivial=True)
        check.count("%s -d: %s" % (lang, klass))
        check.count("%s -d: at the critical path before the first run: %s" % (lang, pre["state"]))
        check.count("%s -d: %s" % (lang, c["why"]))
        check.count("%s -d: run %d of the same command into one folder" % (lang, n + 1))
        check.count("%s -d: output folder named %s" % (lang, c["outdir_as"]))
        if n and c["runs"][n] != c["runs"][n - 1]:
            check.count("%s -d: run after a run under other settings" % lang)
        if ma != ra:
            check.violation("%s: model and in-process back end differ on the crates of a folder run (%s)" % (lang, [d for d, _ in c["crates"]]),
                            case=replay, impl=ra, model=ma, failing_input=False,
                            broken="correspondence L2 generate (theorems TsV.C12.*)")
        if r["rc"] != 0:
            check.count("%s -d: the run fails (exit %s), at the critical path: %s" % (lang, r["rc"], pre["state"]))
            if "ok" in ra and pre["kind"] != "directory":
                check.violation("%s -d exits %s (%s) where the in-process back end generates; `%s` held %s before the first run"
                                % (lang, r["rc"], r["err"][-200:], c["target"], pre["state"]), case=replay, impl=r, model=ra,
                                failing_input=False, broken="correspondence L3: the binary in folder mode vs generate_types + post_generation")
            break
        if "ok" not in ra:
            check.count("%s -d: rejected in-process, exit 0" % lang)
            continue
        folder = r["folder"]
        shared = {"<post>/" + hf: folder.get(hf) or "" for hf in helpers}
        problems = {}
        for fn in crate_files:
            text = folder.get(fn)
            if text is None:
                continue
            if n == 0 and fn == pre.get("file") and text == placed and text not in [ra["ok"].get(k) for k in crate_files[fn]]:
                check.count("%s -d: the pre-existing file at a module's path is left as it was" % lang)
                continue
            names_ = ORACLES[lang](text, shared) - idents
            if names_:
                problems[fn] = sorted(names_)
        if problems:
            held = {hf: (folder.get(hf) if hf in folder else "<no such file>") for hf in helpers}
            check.violation(
                "%s -d, run %d of the same command into one folder (crate directories %s - %s; before the first run `%s` was: %s): "
                "modules on disk use helper names that neither they nor the shared helper file define: %s.  Files in the folder: %s; "
                "helper file on disk: %s" % (
                    lang, n + 1, [d for d, _ in c["crates"]], c["why"], c["target"], pre["state"], problems, sorted(folder),
                    {k: (v if v is None or len(v) < 300 else v[:300] + "...") for k, v in held.items()}),
                case=dict(replay, failing_run=n + 1, stderr=r["err"]), impl={"folder_after_run": folder, "rc": r["rc"]}, model=ma,
                failing_input=True)
            return True
        # which content ends up on disk where a module and the helper file share a path (recorded)
        for hf in at_helper:
            want_helper = ra["ok"].get("<post>/" + hf)
            mods = [ra["ok"].get(k) for k in crate_files[hf]]
            got = folder.get(hf)
            if want_helper is None:
                who = "the module (no helper needed)" if got in mods else "something else"
            else:
                who = "the helper (the crate's module is not in the folder)" if got == want_helper else \
                    "the module" if got in mods else "something else"
            check.count("%s -d: module and helper share `%s`; on disk after the run: %s" % (lang, hf, who))
            if want_helper is not None and got == want_helper:
                wit = {"lang": lang, "sources": srcs, "command": r["command"], "folder_after_run": folder}
                if not check.known("swift-helper-file-replaces-module", wit) and not _NOTED:
                    _NOTED.append(hf)
                    check.notes.append("%s -d: the helper file `%s` replaces the module of crate `%s` (its definitions are in no file of the "
                                       "folder): %s" % (lang, hf, crate_files[hf][0], r["command"]))
        # the files on disk are what the back end writes in-process
        for fn, crates in crate_files.items():
            if fn in helpers or len(crates) > 1:
                continue
            if folder.get(fn) != ra["ok"].get(crates[0]):
                check.violation("%s -d: the module `%s` on disk differs from what the back end writes in-process for crate `%s`: %s"
                                % (lang, fn, crates[0], l2.text_diff(ra["ok"].get(crates[0]) or "", folder.get(fn) or "")), case=replay,
                                impl={"folder_after_run": folder}, model=ra, failing_input=False,
                                broken="correspondence L3: the binary in folder mode vs generate_types + post_generation")
                return
        for hf in helpers:
            want = ra["ok"].get("<post>/" + hf)
            if want is not None and folder.get(hf) != want:
                check.violation("%s -d: the helper file `%s` on disk differs from what post_generation writes in-process: %s"
                                % (lang, hf, l2.text_diff(want, folder.get(hf) or "")), case=replay, impl={"folder_after_run": folder},
                                model=ra, failing_input=False,
                                broken="correspondence L3: the binary in folder mode vs generate_types + post_generation")
                return


def helper_file_worker(args):
    thorough, open_ids, seed = args
    rec = Recorder(open_ids)
    helper_file_names_part(rec, seed, thorough)
    return rec.events


def worker(args):
    lang, thorough, depth, mdepth, open_ids, seed = args
    rec = Recorder(open_ids)
    mapped_builtin_part(rec, lang, seed, thorough)
    for label, cases in language_cases(lang, thorough, depth, mdepth):
        for i in range(0, len(cases), 20000):
            evaluate(rec, cases[i:i + 20000], label)
    return rec.events


def run(check):
    depth = 4 if check.thorough else 3
    mdepth = 3 if check.thorough else 2
    check.rule = ("exhaustive: every trigger leaf %s (+ %s for Python) under every chain of <= %d wrappers from %s at every "
                  "position %s, alone; all ordered pairs of (leaf, chain of <= 2 of Vec) in two struct fields, the second "
                  "also defaulted; triples alias + tuple payload + defaulted struct-variant field; six languages; single-file, "
                  "and multi-file (two crates, the trigger crate generated first and second) for chains of <= %d wrappers; "
                  "Kotlin also without a package.  Depth of the type tree = chain + leaf.  non-trivial = the trigger is not "
                  "the neutral leaf `String`.  Plus (mapped_builtin_part, seeded by --seed): the same kinds of program under "
                  "type_mappings tables whose keys are built-in / special Rust types and user types - one key for every node of "
                  "the trigger's type tree (chains of <= %d wrappers), and random tables shared by all six languages with the "
                  "trigger only inside / only outside / inside and outside the mapped types.  Plus (helper_file_names_part, seeded "
                  "by --seed): the binary in folder mode - crate directory names that give a helper file's name (Swift Codable.swift; "
                  "every back end is probed for such files) in every spelling and near misses x who uses the helper x what already "
                  "sits at the helper file's path (nothing / empty / hand-written / truncated / non-UTF-8 / link / directory / the output "
                  "of earlier runs under the same or other settings) x how the folder is named; oracle on the files on disk"
                  % (LEAVES, PY_ONLY_LEAVES, depth, WRAPPERS, POSITIONS, mdepth, 3 if check.thorough else 2))
    # stored witnesses of the known findings, replayed first
    evaluate(check, [make_case(entries, lang, False, cfg=cfg) for _, lang, entries, cfg in WITNESSES], "witness")
    for kid, lang, entries, cfg in WITNESSES:
        if check.known_open(kid) and kid not in check.known_hit:
            check.notes.append("witness of %s no longer fails" % kid)
    evaluate(check, [make_case(entries, lang, False) for lang, entries in REGRESSIONS], "regression")
    with multiprocessing.get_context("fork").Pool(len(LANGS) + 1) as pool:
        # the binary-level part runs beside the six in-process workers
        on_disk = pool.apply_async(helper_file_worker, ((check.thorough, sorted(check.open), check.seed),))
        for events in pool.imap(worker, [(lang, check.thorough, depth, mdepth, sorted(check.open), check.seed) for lang in LANGS]):
            replay_events(check, events)
        replay_events(check, on_disk.get())
    check.exhaustive = True
    check.extra["exhaustive_scope"] = ("%d leaves x %d chains x %d positions x 6 languages (single file; multi-file for chains "
                                       "<= %d)" % (len(LEAVES), sum(1 for _ in chains(depth)), len(POSITIONS), mdepth))
    check.assumptions += [
        "user-written names are outside the property: a `#[typeshare(<lang>(type = \"..\"))]` override or a type-mapping "
        "target that happens to spell a helper name (`CodableVoid`, `time.Time`, `UByte`, `datetime`) is the user's text; "
        "typeshare records no import / flag for it (Go: mapping OffsetDateTime -> time.Time imports nothing) — noted, not a finding",
        "TypeScript: the generated code never *refers* to ReviverFunc/ReplacerFunc; 'uses' is read as 'a field is printed with a "
        "custom-translated type (Date, Uint8Array)'; such types below the top of a field type (Date[]) or in aliases / payloads "
        "are not registered by typeshare and get no clause — by design of the helper, noted",
        "provided-but-unused helpers (Go always imports encoding/json; Python/Go/TypeScript/Swift printer state leaks from one "
        "crate's file into the next in multi-file mode) are not violations of this property",
    ]
