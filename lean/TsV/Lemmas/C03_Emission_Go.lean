import TsV.Lemmas.C03_Emission_Common
/-!
# C03, emission clause — Go
-/
namespace TsV.C03E.Go
open TsV TsV.Lang TsV.Lang.Go TsV.C03E

theorem writeItems_threaded (U : UnicodeOps) (cfg : Cfg) (cs : List Str) : ∀ (its : List RustItem) (st : Imports)
    (body : Str) (st' : Imports), writeItems U cfg cs its st = .ok (body, st') →
    ∃ blocks, Threaded (writeItem U cfg cs) its st blocks st' ∧ body = blocks.flatten
  | [], st, body, st', h => by
    simp [writeItems] at h
    obtain ⟨rfl, rfl⟩ := h
    exact ⟨[], .nil _, rfl⟩
  | it :: its, st, body, st', h => by
    simp only [writeItems] at h
    obtain ⟨⟨a, st1⟩, ha, h⟩ := bindOk h
    obtain ⟨⟨b, st2⟩, hb, h⟩ := bindOk h
    cases h
    obtain ⟨bs, hbs, rfl⟩ := writeItems_threaded U cfg cs its st1 b st2 hb
    exact ⟨a :: bs, .cons ha hbs, by simp⟩

/-- the blocks come after the `package` line and the import block (which lists what the blocks
needed, and what the files before this one needed) -/
theorem generate_blocks (U : UnicodeOps) (cfg : Cfg) (d : ParsedData) (st0 : Imports) (text : Str) (st : Imports)
    (h : generate U cfg d st0 = .ok (text, st)) :
    ∃ items blocks, Pipeline.generateOrder d = some items ∧
      Threaded (writeItem U cfg (typesMappingToStruct items)) items (addImport st0 s%"encoding/json") blocks st ∧
      text = beginFile cfg ++ renderImports st ++ blocks.flatten := by
  unfold generate at h
  cases ho : Pipeline.generateOrder d with
  | none => simp [ho] at h
  | some items =>
    simp only [ho] at h
    obtain ⟨⟨body, st1⟩, hb, h⟩ := bindOk h
    cases h
    obtain ⟨blocks, hth, rfl⟩ := writeItems_threaded U cfg _ items _ body st1 hb
    exact ⟨items, blocks, rfl, hth, rfl⟩

theorem comments_lineStart (n : Nat) (cs : List Str) : LineStart (comments n cs) := by
  unfold comments
  exact lineStart_flatMap _ _ fun c _ => lineStart_append_right _ (by simp [nl])

theorem renderStruct_defines (d : GoStruct) : DefinesHead s%"type " d.name (renderStruct d) := by
  unfold renderStruct
  simp only [List.append_assoc]
  refine definesHead_r _ _ (comments_lineStart _ _) ?_
  split
  · exact nameEnd_cons _ (by simp [delims])
  · exact nameEnd_cons _ (by simp [delims])

theorem structFacts_name (U : UnicodeOps) (cfg : Cfg) (rs : RustStruct) (st st' : Imports) (d : GoStruct)
    (h : structFacts U cfg rs st = .ok (d, st')) : acr U cfg rs.id.renamed = .ok d.name := by
  unfold structFacts at h
  obtain ⟨name, hn, h⟩ := bindOk h
  obtain ⟨⟨fields, st1⟩, _, h⟩ := bindOk h
  cases h
  exact hn

/-- the helper structs of the struct variants: declared under `acr (acr (<Enum><Variant>Inner))` -/
theorem anonStructs_names (U : UnicodeOps) (cfg : Cfg) (e : RustEnum) :
    ∀ (vs : List (Id × List RustField)) (st st' : Imports) (ds : List GoStruct),
      anonStructs U cfg e vs st = .ok (ds, st') →
      Outcome.mapM' (fun (p : Id × List RustField) =>
        (acr U cfg (e.id.original ++ p.1.original ++ s%"Inner")).bind (acr U cfg)) vs = .ok (ds.map (·.name))
  | [], st, st', ds, h => by
    simp [anonStructs] at h
    obtain ⟨rfl, _⟩ := h
    rfl
  | (id, fs) :: vs, st, st', ds, h => by
    simp only [anonStructs] at h
    obtain ⟨sn, hsn, h⟩ := bindOk h
    obtain ⟨⟨d, st1⟩, hd, h⟩ := bindOk h
    obtain ⟨⟨ds', st2⟩, hds, h⟩ := bindOk h
    cases h
    have h1 := structFacts_name U cfg _ _ _ _ hd
    have h2 := anonStructs_names U cfg e vs st1 st2 ds' hds
    simp only [anonName] at hsn
    simp only [anonymousStruct] at h1
    simp only [Outcome.mapM', hsn, Outcome.bind_ok, h1, h2, List.map_cons]

/-- an algebraic enum: the helper structs, then the string type of the tags with its `const` block,
then the enum struct with its methods and constructors -/
theorem renderAlgEnum_splits (E : GoAlgEnum) :
    ∃ c1 c2 : Str, renderAlgEnum E = (E.anonymous.map renderStruct).flatten ++ [c1, c2].flatten ∧
      DefinesHead s%"type " E.keyType c1 ∧ DefinesHead s%"type " E.name c2 := by
  refine ⟨comments 0 E.comments ++ s%"type " ++ E.keyType ++ s%" string\n" ++ s%"const (\n" ++
      (E.variants.flatMap fun v =>
        comments 1 v.comments ++ s%"\t" ++ v.constName ++ s%" " ++ E.keyType ++ s%" = " ++ debugStr v.wire ++ nl) ++
      s%")\n",
    s%"type " ++ E.name ++ s%" struct{ \n" ++
      s%"\t" ++ E.tagField ++ s%" " ++ E.keyType ++ s%" `json:" ++ debugStr E.tagKey ++ s%"`\n" ++
      s%"\t" ++ E.contentField ++ s%" interface{}\n" ++ s%"}\n" ++
      nl ++ renderUnmarshal E ++ nl ++ renderMarshal E ++ nl ++
      E.variants.flatMap (renderAccessor E) ++ nl ++ E.variants.flatMap (renderConstructor E) ++ nl, ?_, ?_, ?_⟩
  · unfold renderAlgEnum
    simp only [List.flatMap_def, List.flatten_cons, List.flatten_nil, List.append_nil, List.append_assoc]
  · simp only [List.append_assoc]
    exact definesHead_r _ _ (comments_lineStart _ _) (nameEnd_cons _ (by simp [delims]))
  · simp only [List.append_assoc]
    exact definesHead_r0 _ (nameEnd_cons _ (by simp [delims]))

/-- **the block of an item splits into exactly the definitions `goDefs` lists** -/
theorem block_defines (U : UnicodeOps) (cfg : Cfg) (cs : List Str) (it : RustItem) (st : Imports) (b : Str)
    (st' : Imports) (h : writeItem U cfg cs it st = .ok (b, st')) :
    ∃ defs, goDefs U cfg it = .ok defs ∧ SplitsInto defs b := by
  cases it with
  | struct s =>
    simp only [writeItem, writeStruct] at h
    obtain ⟨⟨d, st1⟩, hd, h⟩ := bindOk h
    cases h
    have hn := structFacts_name U cfg s st st1 d hd
    exact ⟨[(s%"type ", d.name)], by simp [goDefs, hn], splitsInto_single (renderStruct_defines d)⟩
  | alias a =>
    simp only [writeItem, writeAlias, aliasFacts] at h
    obtain ⟨⟨d, st1⟩, hd, h⟩ := bindOk h
    cases h
    obtain ⟨name, hn, hd⟩ := bindOk hd
    obtain ⟨⟨ty, st2⟩, _, hd⟩ := bindOk hd
    cases hd
    refine ⟨[(s%"type ", name)], by simp [goDefs, hn], splitsInto_single ?_⟩
    simp only [renderAlias, List.append_assoc]
    exact definesHead_r _ _ (comments_lineStart _ _) (nameEnd_cons _ (by simp [delims]))
  | const c =>
    simp only [writeItem, writeConst, constFacts] at h
    obtain ⟨⟨d, st1⟩, hd, h⟩ := bindOk h
    cases h
    obtain ⟨⟨ty, st2⟩, _, hd⟩ := bindOk hd
    cases hd
    refine ⟨_, rfl, splitsInto_single ?_⟩
    simp only [renderValue, List.append_assoc]
    have := definesHead_r (kw := s%"const ") (n := Rename.toPascal U c.id.renamed) []
      (s%" " ++ (ty ++ (s%" = " ++ (Str.natToStr c.expr ++ s%"\n")))) lineStart_nil (nameEnd_cons _ (by simp [delims]))
    simpa using this
  | «enum» e =>
    simp only [writeItem, writeEnum] at h
    cases hk : e.keys with
    | none =>
      simp only [hk] at h
      obtain ⟨⟨anon, st1⟩, ha, h⟩ := bindOk h
      obtain ⟨name, hn, h⟩ := bindOk h
      obtain ⟨consts, _, h⟩ := bindOk h
      cases h
      have hnames := anonStructs_names U cfg e _ _ _ _ ha
      refine ⟨(anon.map (·.name)).map (fun i => (s%"type ", i)) ++ [(s%"type ", name)],
        by simp only [goDefs, structVariantsOf_eq, hnames, Outcome.bind_ok, hn, hk], ?_⟩
      simp only [List.flatMap_def]
      have hp : Paired (fun (d : Str × Str) (c : Str) => DefinesHead d.1 d.2 c)
          ((anon.map (·.name)).map fun i => (s%"type ", i)) (anon.map renderStruct) := by
        rw [List.map_map]
        exact paired_map (fun (d : Str × Str) (c : Str) => DefinesHead d.1 d.2 c) _ _ anon
          (fun d _ => renderStruct_defines d)
      have hu : DefinesHead s%"type " name (renderUnitEnum ⟨e.comments, name, consts⟩) := by
        simp only [renderUnitEnum, List.append_assoc]
        exact definesHead_r _ _ (comments_lineStart _ _) (nameEnd_cons _ (by simp [delims]))
      exact splitsInto_snoc (splitsInto_chunks hp) hu
    | some kc =>
      obtain ⟨tag, content⟩ := kc
      simp only [hk] at h
      obtain ⟨⟨d, st1⟩, hd, h⟩ := bindOk h
      simp only [Outcome.ok.injEq, Prod.mk.injEq] at h
      obtain ⟨rfl, rfl⟩ := h
      unfold algEnumFacts at hd
      obtain ⟨⟨anon, st2⟩, ha, hd⟩ := bindOk hd
      obtain ⟨name, hn, hd⟩ := bindOk hd
      obtain ⟨tagField, _, hd⟩ := bindOk hd
      obtain ⟨short, _, hd⟩ := bindOk hd
      obtain ⟨tagAcr, hta, hd⟩ := bindOk hd
      obtain ⟨⟨variants, st3⟩, _, hd⟩ := bindOk hd
      injection hd with hd
      injection hd with hE hst
      cases hst
      have hnames := anonStructs_names U cfg e _ _ _ _ ha
      have hEa : d.anonymous = anon := by rw [← hE]
      have hEk : d.keyType = name ++ Rename.toPascal U tagAcr ++ s%"s" := by rw [← hE]
      have hEn : d.name = name := by rw [← hE]
      refine ⟨(anon.map (·.name)).map (fun i => (s%"type ", i)) ++
          [(s%"type ", name ++ Rename.toPascal U tagAcr ++ s%"s"), (s%"type ", name)],
        by simp only [goDefs, structVariantsOf_eq, hnames, Outcome.bind_ok, hn, hk, hta], ?_⟩
      have hp : Paired (fun (d : Str × Str) (c : Str) => DefinesHead d.1 d.2 c)
          ((anon.map (·.name)).map fun i => (s%"type ", i)) (anon.map renderStruct) := by
        rw [List.map_map]
        exact paired_map (fun (d : Str × Str) (c : Str) => DefinesHead d.1 d.2 c) _ _ anon
          (fun d _ => renderStruct_defines d)
      obtain ⟨c1, c2, heq, h1, h2⟩ := renderAlgEnum_splits d
      rw [heq, hEa]
      rw [hEk] at h1
      rw [hEn] at h2
      exact splitsInto_append (splitsInto_chunks hp) ⟨[c1, c2], rfl, .cons h1 (.cons h2 .nil)⟩

theorem generateAll_single (E : Ext) (cfg : Cfg) (mf : Bool) (c : Str) (d : ParsedData)
    (imps : Option Pipeline.ScopedCrateTypes) :
    generateAll E cfg mf [(c, d, imps)] = (generate E.U cfg d []).bind fun r => .ok [(c, r.1)] := by
  simp only [generateAll, generateFrom]
  generalize generate E.U cfg d [] = g
  cases g <;> rfl

theorem generateAll_nil (E : Ext) (cfg : Cfg) (mf : Bool) : generateAll E cfg mf [] = .ok [] := rfl

end TsV.C03E.Go
