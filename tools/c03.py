"""C03 — exactly the annotated, non-skipped items, fields and variants are generated (parse level + CLI)."""
from common import *
from syn_gen import *
from gen import Gen
import l1, c13, corpus

NEEDS = ("runner", "cli")
TRUSTED = ["the source -> abstract-AST translator harness/runner/src/ast.rs (runner op `ast`) that feeds the model in the corpus "
           "part; validated against the generator's own s-expressions by tools/asttest.py (textual equality on thousands of "
           "random files)"]


def is_annotated(attrs):
    return any("typeshare" in a[1] for a in attrs if a[0] in ("p", "l", "nv"))


def accepted(attrs, targets):
    cfgs = [a for a in attrs if a[0] == "l" and a[1] == ["cfg"] and a[2]]
    return c13.rule(cfgs, targets)


def skip_marked(attrs):
    for a in attrs:
        if a[0] == "l" and a[1] in (["serde"], ["typeshare"]) and a[2]:
            if any(x[0] == "p" and x[1] == ["skip"] for x in a[3]):
                return True
    return False


def orig(ident):
    return "???" if ident is None else ident.replace("r#", "")


def expected(file, targets):
    """the property's reading of the source: [(kind, name, members or None)] for annotated accepted items, visit order"""
    out = []

    def members(fs):
        return [orig(f["ident"]) for f in fs if not skip_marked(f["attrs"]) and accepted(f["attrs"], targets)]

    def walk(items):
        for it in items:
            k = it["kind"]
            if k in ("mod", "other"):
                walk(it["items"])
                continue
            if k == "use" or not is_annotated(it["attrs"]) or not accepted(it["attrs"], targets):
                continue
            if k == "struct":
                out.append(("struct", it["ident"], members(it["fields"][1]) if it["fields"][0] == "named" else None))
            elif k == "enum":
                vs = [v for v in it["variants"] if not skip_marked(v["attrs"]) and accepted(v["attrs"], targets)]
                out.append(("enum", it["ident"], [(v["ident"], members(v["fields"][1]) if v["fields"][0] == "named" else None) for v in vs]))
            else:
                out.append((k, it["ident"], None))
    if accepted(file["attrs"], targets):
        walk(file["items"])
    return out


def oracle(exp, ans):
    """does the implementation's ParsedData list exactly the expected items and members? returns problem or None"""
    if "panic" in ans or "err" in ans:
        return "parse failed: %s" % ans
    d = ans["ok"]
    if d is None:
        return None if not exp else "annotated items present but the file produced nothing"
    n_items = len(d["structs"]) + len(d["enums"]) + len(d["aliases"]) + len(d["consts"])
    if n_items + len(d["errors"]) != len(exp):
        return "%d items + %d errors for %d annotated items" % (n_items, len(d["errors"]), len(exp))
    by_name = {}
    for k in ("structs", "enums", "aliases", "consts"):
        for it in d[k]:
            by_name.setdefault(it["id"]["o"], []).append((k, it))
    for kind, name, mem in exp:
        cands = by_name.get(name, [])
        if not cands:
            continue        # became an error entry (counted above)
        k, it = cands.pop(0)
        if k == "structs" and mem is not None:
            got = [f["id"]["o"] for f in it["fields"]]
            if got != mem:
                return "struct %s lists fields %s, source has %s" % (name, got, mem)
        if k == "enums" and kind == "enum":
            got = [v["id"]["o"] for v in it["variants"]]
            if got != [v for v, _ in mem]:
                return "enum %s lists variants %s, source has %s" % (name, got, [v for v, _ in mem])
            for v, (vn, vm) in zip(it["variants"], mem):
                if vm is not None and v["kind"] == "struct" and [f["id"]["o"] for f in v["fields"]] != vm:
                    return "variant %s::%s lists fields %s, source has %s" % (name, vn, [f["id"]["o"] for f in v["fields"]], vm)
    return None


def run(check):
    rng = check.rng
    n = 12000 if check.thorough else 2000
    check.rule = ("random files mixing annotated and un-annotated items at module / fn-body depth 0-3, skip markers in both "
                  "spellings (serde/typeshare, merged with other arguments, any attribute order) on ~25% of fields, variants "
                  "and struct-variant fields, cfg(target_os) attributes with 0-2 targets, unsupported constructs at 3% so "
                  "that error entries occur; non-trivial = the file has an annotated item and (a skipped member or a nested "
                  "module or an un-annotated item)")
    cases = []
    for i in range(n):
        g = Gen(rng, p_skip=0.25, p_mod=0.35, p_noise=0.4, p_cfg=0.12, p_unsupported=0.03, p_edge=0.05)
        f = g.file()
        tos = rng.choice([[], [], [], ["ios"], ["android", "macos"]])
        m, r, text = l1.requests(f, g, target_os=tos)
        cases.append(dict(file=f, m=m, r=r, text=text, tos=tos, feats=dict(g.features)))
    mans, rans, diffs = l1.compare([(c["m"], c["r"]) for c in cases])
    bad = None
    for c, ma, ra in zip(cases, mans, rans):
        ft = c["feats"]
        check.saw(c["text"] + "|" + ",".join(c["tos"]), nontrivial=bool(ft.get("skip") or ft.get("nested") or ft.get("noise")))
        for k in ("skip", "nested", "noise", "cfg", "struct", "enum", "alias", "const"):
            if ft.get(k):
                check.count(k, ft[k])
        if "#[typeshare" not in c["text"]:
            continue
        prob = oracle(expected(c["file"], c["tos"]), ra)
        if prob and bad is None:
            bad = (c, prob, ma, ra)
        if len(check.samples) < 3 and ft.get("skip") and ft.get("nested"):
            check.sample({"source": c["text"], "target_os": c["tos"],
                          "items": [[k, [x["id"]["o"] for x in ra["ok"][k]]] for k in ("structs", "enums", "aliases", "consts")] if ra.get("ok") else ra})
    if bad:
        c, prob, ma, ra = bad
        check.violation("the parsed items differ from the annotated, non-skipped source items: " + prob,
                        case={"source": c["text"], "target_os": c["tos"], "request": c["r"]}, impl=ra, model=ma, failing_input=True)
    elif diffs:
        c = cases[diffs[0]]
        check.violation("parser::parse differs from the model: %s" % l1.first_diff(mans[diffs[0]], rans[diffs[0]]),
                        case={"source": c["text"], "request": c["r"]}, impl=rans[diffs[0]], model=mans[diffs[0]],
                        failing_input=False, broken="correspondence L1 parser::parse (theorems TsV.C03.*)")
    # repaired defect (substring pre-filter), replayed: a regression is a violation
    w = runner([{"op": "parse", "src": "# [typeshare]\npub struct S { pub a: u8 }\n", "crate": "", "file_name": "o", "path": "w.rs"}])[0]
    if w.get("ok") is None and "err" not in w:
        if not check.known("prefilter-spelling", {"source": "# [typeshare]\\npub struct S { pub a: u8 }"}):
            check.violation("a file whose annotations are spelled `# [typeshare]` is skipped: its annotated struct is silently omitted",
                            case={"source": "# [typeshare]\npub struct S { pub a: u8 }\n"}, impl=w, failing_input=True)
    cli_part(check, cases)
    if not check.has_failing():
        merged_part(check, cases)
    if not check.has_failing():
        folder_part(check)
    if not check.has_failing():
        quantity_part(check)
    if not check.has_failing():
        same_ident_part(check)
    if not check.has_failing():
        emptied_variants_part(check)
    # the human-written corpus (core/data/tests/*/input.rs, corpus/handwritten/*.rs) and token-level mutants of it: the
    # whole pipeline of the real code against the model fed by the translator, all six languages
    check.rule += ("; corpus part: every snapshot-test input of the repository and every hand-written input (whole and item by "
                   "item), under two configurations per language, plus token-level mutants (type swaps / wraps, added serde and "
                   "typeshare attributes, renames, duplicated fields, reordered / nested items), single-file generation byte "
                   "for byte, and multi-file parse level (imports)")
    corpus.corpus_part(check)
    check.assumptions += ["the emission clause (each back end prints every parsed item and member once) rests on the byte-exact back-end correspondence of C01/C02/C09 and the model's structure (a map over the parsed lists)"]


def cli_part(check, cases):
    """process level: every annotated, generated item name occurs in the output of every language; a file whose
    items all fail is reported, not silently dropped"""
    rng = check.rng
    good = [c for c in cases if "#[typeshare" in c["text"]]
    for idx, c in enumerate(rng.sample(good, min(24 if check.thorough else 12, len(good)))):
        lang = LANGS[idx % len(LANGS)]
        with Scratch() as sc:
            # how the file gets into the scanned tree: written there; a symbolic link to a file kept elsewhere (shared sources);
            # a file in a nested directory next to an empty sibling directory
            layout = ["plain", "symlink", "nested", "two-roots"][idx % 4]
            check.count("cli-layout-" + layout)
            roots = [sc.path("proj")]
            if layout == "two-roots":
                # several input roots whose names are related as texts only (`api` / `api-types`, `v1` / `v10`), the shorter one first
                a, b = [("api", "api-types"), ("core", "core_ext"), ("v1", "v10")][(idx // 4) % 3]
                sc.write("proj/%s/src/neighbour.rs" % a, "#[typeshare]\npub struct PlainNeighbourFile { pub n: u8 }\n")
                sc.write("proj/%s/src/lib.rs" % b, c["text"])
                roots = [sc.path("proj/" + a), sc.path("proj/" + b)]
            elif layout == "symlink":
                sc.write("elsewhere/shared_models.rs", c["text"])
                os.makedirs(sc.path("proj/src"), exist_ok=True)
                os.symlink(sc.path("elsewhere/shared_models.rs"), sc.path("proj/src/lib.rs"))
                sc.write("proj/src/neighbour.rs", "#[typeshare]\npub struct PlainNeighbourFile { pub n: u8 }\n")
            elif layout == "nested":
                sc.write("proj/src/deep/er/models.rs", c["text"])
                os.makedirs(sc.path("proj/src/empty_dir"), exist_ok=True)
            else:
                sc.write("proj/src/lib.rs", c["text"])
            out = sc.path("out." + EXT[lang])
            tos = (["--target-os"] + c["tos"]) if c["tos"] else []
            r = run_cli(["--lang", lang, "-o", out] + lang_args(lang) + roots + tos, cwd=sc.dir)
            check.saw(("cli", lang, c["text"]), nontrivial=True)
            check.count("cli-" + lang)
            exp = expected(c["file"], c["tos"])
            if r["rc"] == 0 and os.path.exists(out):
                text = open(out, encoding="utf-8").read()
                for kind, name, _ in exp:
                    if kind in ("struct", "enum", "alias") and name not in text and not any(
                            a[0] == "l" and a[1] == ["serde"] for it in [] for a in []):
                        # renamed items appear under their new name: accept any rename string of the item
                        it = find_item(c["file"]["items"], name)
                        renames = [x[2][1].strip() for a in it["attrs"] if a[0] == "l" and a[1] == ["serde"] and a[2]
                                   for x in a[3] if x[0] == "nv" and x[1] == ["rename"] and x[2] and x[2][0] == "s"]
                        if not any(rn in text for rn in renames):
                            check.violation("%s output does not mention the annotated %s %s" % (lang, kind, name),
                                            case={"source": c["text"], "lang": lang}, impl={"output": text[-3000:]}, failing_input=True)
            elif r["rc"] == 0 and any(kind in ("struct", "enum", "alias") for kind, _, _ in exp):
                check.violation("%s: the run succeeds (exit 0) but writes no output although the source (%s file) has %d annotated item(s)"
                                % (lang, layout, len(exp)), case={"source": c["text"], "lang": lang, "layout": layout},
                                impl={"rc": r["rc"], "stderr": r["err"][-800:]}, failing_input=True)
            elif r["rc"] not in (0, 1) or r["timed_out"]:
                pass    # crashes are C07's business


def folder_part(check):
    """folder-output mode keeps one result per crate: an annotated item that cannot be generated is reported (non-zero exit, the
    diagnostic names its file) whichever crate holds it - the first, a middle or the last one in name order, next to crates
    without any error, with one or several failing crates -, and without such an item every crate's file lists its items"""
    BADS = [("u64-field", "#[typeshare]\npub struct Bad { pub counter: u64 }\n"),
            ("tuple-struct", "#[typeshare]\npub struct Bad(pub String, pub u32);\n"),
            ("flatten", "#[typeshare]\npub struct Bad { #[serde(flatten)] pub rest: Other, pub a: u8 }\n"),
            ("tag-without-content", "#[typeshare]\n#[serde(tag = \"t\")]\npub enum Bad { A(u8), B }\n")]
    names = ["alpha", "beta", "gamma", "omega"]
    n = 0
    for ncrates in (2, 3, 4):
        crates = names[:ncrates]
        for bad_at in [()] + [(i,) for i in range(ncrates)] + ([(0, ncrates - 1)] if ncrates > 2 else []):
            lang = LANGS[n % len(LANGS)]
            kind, bad = BADS[n % len(BADS)]
            n += 1
            with Scratch() as sc:
                for i, cr in enumerate(crates):
                    text = "#[typeshare]\npub struct Fine%s { pub label: String }\n" % cr.capitalize()
                    if i in bad_at:
                        text += "\n" + bad
                    sc.write("ws/%s/src/lib.rs" % cr, text)
                os.makedirs(sc.path("out"))
                r = run_cli(["--lang", lang, "--output-folder", sc.path("out")] + lang_args(lang) + [sc.path("ws")], cwd=sc.dir)
                written = {f: open(os.path.join(sc.path("out"), f), encoding="utf-8", errors="replace").read()
                           for f in sorted(os.listdir(sc.path("out")))}
            check.saw(("folder", lang, ncrates, bad_at, kind), nontrivial=True)
            check.count("folder-" + ("clean" if not bad_at else "ungeneratable-in-%s" % "+".join(
                "first" if i == 0 else "last" if i == ncrates - 1 else "middle" for i in bad_at)))
            if r["timed_out"] or r["rc"] not in (0, 1):
                continue        # crashes are C07's business
            case = {"lang": lang, "crates": crates, "ungeneratable_item": bad if bad_at else None,
                    "in_crates": [crates[i] for i in bad_at], "mode": "--output-folder"}
            if bad_at:
                said = r["err"] + r["out"]
                missing = [crates[i] for i in bad_at if "%s/src/lib.rs" % crates[i] not in said]
                if r["rc"] == 0 or missing:
                    check.violation("%s, folder output over the crates %s: the annotated item `Bad` (%s) in %s is neither generated nor "
                                    "reported (exit status %s%s)" % (lang, crates, kind, [crates[i] for i in bad_at], r["rc"],
                                                                     ", no diagnostic names " + ", ".join(missing) if missing else ""),
                                    case=case, impl={"rc": r["rc"], "stderr": r["err"][-1500:], "written": {k: v[-600:] for k, v in written.items()}},
                                    failing_input=True)
                    return
            else:
                allt = "\n".join(written.values())
                lost = [cr for cr in crates if "Fine" + cr.capitalize() not in allt]
                if r["rc"] != 0 or lost:
                    check.violation("%s, folder output over the crates %s (all generatable): exit status %s, items of %s missing"
                                    % (lang, crates, r["rc"], lost), case=case,
                                    impl={"rc": r["rc"], "stderr": r["err"][-1500:], "written": sorted(written)}, failing_input=True)
                    return


def quantity_inputs(thorough):
    """[(name, source, {definition name: expected count} or None, [member names expected once each])]"""
    out = []
    def structs(n):
        return "".join("#[typeshare]\npub struct S%d { pub a: u8, pub b: Option<S%d> }\n" % (i, (i * 7 + 3) % n) for i in range(n))
    for n in ([257, 1030] + ([66000] if thorough else [])):
        out.append(("structs-%d" % n, structs(n), ["S%d" % i for i in range(n)], []))
    for n in (257, 300):
        out.append(("fields-%d" % n, "#[typeshare]\npub struct Wide {\n%s}\n" % "".join("    pub fld_%d: u8,\n" % i for i in range(n)), ["Wide"],
                    ["fld_%d" % i for i in range(n)]))
        out.append(("unit-variants-%d" % n, "#[typeshare]\npub enum Many {\n%s}\n" % "".join("    Vx%dEnd,\n" % i for i in range(n)), ["Many"],
                    ["Vx%dEnd" % i for i in range(n)]))
        out.append(("tagged-variants-%d" % n, "#[typeshare]\n#[serde(tag = \"t\", content = \"c\")]\npub enum ManyT {\n%s}\n" % "".join(
            "    Vx%dEnd(u8),\n" % i if i % 2 else "    Vx%dEnd,\n" % i for i in range(n)), ["ManyT"], ["Vx%dEnd" % i for i in range(n)]))
    for d in (17, 70) + ((200,) if thorough else ()):
        # (TypeScript writes `[T; N]` as an N-tuple: nested arrays multiply - the recorded finding typescript-array-tuple-expansion -
        # so only the 17-level nest has two elements per level)
        for w, (a, b) in (("vec", ("Vec<", ">")), ("option", ("Option<", ">")), ("map", ("HashMap<String, ", ">")), ("box", ("Box<", ">")),
                          ("array", ("[", "; 2]" if d == 17 else "; 1]"))):
            out.append(("depth-%s-%d" % (w, d), "#[typeshare]\npub struct Deep { pub f: %sDeepLeaf%s }\n#[typeshare]\npub struct DeepLeaf { pub z: u8 }\n" % (a * d, b * d),
                        ["Deep", "DeepLeaf"], []))
    out.append(("long-name", "#[typeshare]\npub struct %s { pub %s: u8 }\n" % ("L" + "ongName" * 60, "f" + "_part" * 60), ["L" + "ongName" * 60], []))
    out.append(("generics-17", "#[typeshare]\npub struct G<%s> {\n%s}\n" % (", ".join("P%d" % i for i in range(17)), "".join("    pub g%d: P%d,\n" % (i, i) for i in range(17))), ["G"], []))
    mods = "#[typeshare]\npub struct Innermost { pub a: u8 }\n"
    for i in range(70):
        mods = "pub mod m%d {\n%s}\n#[typeshare]\npub struct At%d { pub a: u8 }\n" % (i, mods, i)
    out.append(("modules-70", mods, ["Innermost"] + ["At%d" % i for i in range(70)], []))
    return out


def quantity_part(check, judge="dropped"):
    """quantity and depth: more than 256 / 1024 (thorough: 65536) items in a file, 257 / 300 fields and variants, type expressions nested
    17 / 70 (thorough: 200) levels deep, a 421-character name, 17 generic parameters, 70 nested modules - through the real generators
    in-process, all six languages.  judge="dropped" (C03): every definition and every member is written exactly once, and the output
    equals the model's; judge="crash" (C07): output or a diagnostic, never a panic, an abort or a hang"""
    import corpus, c11, c14
    ins = quantity_inputs(check.thorough)
    reqs, meta = [], []
    for name, src, defs, members in ins:
        for lang in LANGS:
            if name.startswith("structs-66000") and lang not in ("typescript", "go"):
                continue
            cfg = {"package": "proto" if lang == "go" else "com.example", "type_mappings": {}}
            reqs.append({"op": "generate", "lang": lang, "config": cfg, "multi_file": False, "target_os": [],
                         "files": [{"src": src, "crate": "", "file_name": "o", "path": "src/lib.rs"}]})
            meta.append((name, lang, src, defs, members))
    for (name, lang, src, defs, members), a in zip(meta, runner(reqs)):
        check.saw(("quantity", name, lang), nontrivial=True)
        check.count("quantity-%s" % ("panic" if "panic" in a else "ok" if "ok" in a else "error"))
        case = {"lang": lang, "input": name, "source": src if len(src) < 6000 else src[:3000] + "\n…\n" + src[-1500:]}
        if "panic" in a:
            check.violation("%s on the input `%s`: %s" % (lang, name, "no answer (endless loop)" if a.get("hang") else "panic / crash at " + str(a["panic"])),
                            case=case, impl={k: str(v)[:1500] for k, v in a.items()}, failing_input=True)
            return
        if judge != "dropped" or "ok" not in a:
            continue
        text = a["ok"].get("", "")
        found = [next(x for x in (d if isinstance(d, tuple) else (d,)) if x) for d in re.findall(c14.DEF_RX[lang], text, re.M)]
        bad = [d for d in defs if found.count(d) != 1]
        # Go writes no definition for a unit enum's name twice, Kotlin / Swift / … each once: `count != 1` is the claim for all
        if bad:
            check.violation("%s on the input `%s` (%d definitions expected): %d of them are not written exactly once, e.g. %s x%d"
                            % (lang, name, len(defs), len(bad), bad[0], found.count(bad[0])), case=case, impl={"output_tail": text[-1500:]}, failing_input=True)
            return
        lost = [m for m in members if not re.search(r"(?<![A-Za-z0-9])%s(?![A-Za-z0-9])" % re.escape(m), text)
                and not re.search(r"(?i)(?<![A-Za-z0-9])%s(?![A-Za-z0-9])" % re.escape(m.replace("_", "")), text)]
        if lost:
            check.violation("%s on the input `%s`: %d of %d members are missing from the output, e.g. %s" % (lang, name, len(lost), len(members), lost[0]),
                            case=case, impl={"output_tail": text[-1500:]}, failing_input=True)
            return
    if judge == "dropped":
        small = [(n, s) for n, s, _, _ in ins if len(s) < 200000]
        diffs = corpus.compare(check, "quantity", small, LANGS, cfg_names=("default",))
        for name, lang, cname, src, m, r in diffs[:1]:
            check.violation("%s: model and implementation differ on the input `%s`: %s" % (lang, name, corpus.describe(m, r)),
                            case={"lang": lang, "input": name, "source": src[:4000]}, impl={k: str(v)[:1500] for k, v in r.items()},
                            model={k: str(v)[:1500] for k, v in m.items()}, failing_input=False,
                            broken="correspondence L2 generate on large inputs (theorems TsV.C03.*, TsV.C03_Emission.*)")


def merged_part(check, cases):
    """several files merged into one output: an ungeneratable annotated item in any of them is reported (never silently
    dropped) whatever the arrival order of the per-file results; without it every file's items are in the output"""
    rng = check.rng
    good = [c for c in cases if "#[typeshare" in c["text"] and not c["tos"]]
    BAD = "#[typeshare]\npub struct Pair(pub String, pub u32);\n\n#[typeshare]\npub struct Kept { pub a: u8 }\n"
    for idx in range(12 if check.thorough else 6):
        lang = LANGS[idx % len(LANGS)]
        picks = rng.sample(good, min(3, len(good)))
        with_bad = idx % 3 != 2
        for order in ("rev", "seed:%d" % idx, None):
            with Scratch() as sc:
                for k, c in enumerate(picks):
                    sc.write("proj/src/f%d.rs" % k, c["text"])
                if with_bad:
                    sc.write("proj/src/bad.rs", BAD)
                out = sc.path("out." + EXT[lang])
                r = run_cli(["--lang", lang, "-o", out] + lang_args(lang) + [sc.path("proj")], cwd=sc.dir,
                            env={"TYPESHARE_VERIF_ORDER": order} if order else None)
                text = open(out, encoding="utf-8").read() if os.path.exists(out) else ""
            check.saw(("merged", lang, idx, order), nontrivial=True)
            check.count("merged-" + ("with-ungeneratable" if with_bad else "clean"))
            if r["timed_out"] or r["rc"] not in (0, 1):
                continue        # crashes are C07's business
            if with_bad and (r["rc"] == 0 or "bad.rs" not in r["err"] + r["out"]):
                check.violation("%s: a tuple struct with two fields in one of %d merged files is neither generated nor reported "
                                "(exit status %s, arrival order %s)" % (lang, len(picks) + 1, r["rc"], order or "as delivered"),
                                case={"files": {"f%d.rs" % k: c["text"] for k, c in enumerate(picks)} | {"bad.rs": BAD}, "lang": lang, "order": order},
                                impl={"rc": r["rc"], "stderr": r["err"][-1500:], "output": text[-1500:]}, failing_input=True)
                return


def same_ident_part(check):
    """generation level (parse -> merge -> reconcile -> back end, in-process): annotated items that share their Rust identifier
    (in different modules or files, told apart by serde(rename), or not at all) are all emitted - nothing is merged or dropped
    on the way to the output"""
    import l2
    rng = check.rng
    ts = [m_path("typeshare")]
    for idx in range(36 if check.thorough else 12):
        lang = LANGS[idx % len(LANGS)]
        kind = rng.choice(["struct", "struct", "enum", "alias"])
        if lang == "go" and kind == "enum":
            kind = "struct"             # Go names enums after the Rust identifier (C09's open finding)
        name = rng.choice(["Config", "Mode", "Item", "payload_t"])
        k = rng.randint(2, 3)
        copies, want = [], []
        for j in range(k):
            rn = None if (j == 0 and rng.random() < 0.7) else "%sV%d" % (name.title().replace("_", ""), j + 1)
            attrs = list(ts) + ([m_list("serde", [m_nv("rename", lit_s(rn))])] if rn else [])
            member = "m%d_%s" % (j, rng.choice(["alpha", "beta", "gamma"]))
            if kind == "struct":
                it = {"kind": "struct", "attrs": attrs, "ident": name, "generics": [], "fields": ("named", [field([], member, t_path("u8"))])}
            elif kind == "enum":
                member = "V%d%s" % (j, rng.choice(["Fast", "Slow"]))
                it = {"kind": "enum", "attrs": attrs, "ident": name, "generics": [],
                      "variants": [{"attrs": [], "ident": member, "fields": ("unit",)}, {"attrs": [], "ident": "Common", "fields": ("unit",)}]}
            else:
                member = None
                it = {"kind": "alias", "attrs": attrs, "ident": name, "generics": [], "ty": t_path(["String", "u32", "bool"][j])}
            copies.append(it)
            want.append((rn or name, member))
        # the copies live in sibling modules of one file, or in different files of the same crate
        other = {"kind": "struct", "attrs": list(ts), "ident": "Unrelated%d" % idx, "generics": [], "fields": ("named", [field([], "z", t_path("u8"))])}
        if rng.random() < 0.5:
            files = [{"attrs": [], "items": [{"kind": "mod", "attrs": [], "ident": "v%d" % j, "items": [c]} for j, c in enumerate(copies)] + [other]}]
        else:
            files = [{"attrs": [], "items": [c] + ([other] if j == 0 else [])} for j, c in enumerate(copies)]
            rng.shuffle(files)
        g = Gen(rng)
        cfg = {"package": "proto" if lang == "go" else "com.example", "type_mappings": {}, "version_header": False}
        jobs = [{"crate": "", "file_name": "out", "path": "src/f%d.rs" % j, "file": f} for j, f in enumerate(files)]
        mreq, rreq, texts = l2.requests(lang, cfg, jobs, g)
        names = set().union(*[l2.names_of(f) for f in files])
        ma = l2.norm(model([mreq], names=names)[0])
        ra = l2.norm(runner([rreq])[0])
        check.saw(("same-ident", lang, kind, "\n".join(texts)), nontrivial=True)
        check.count("same-ident-%s" % kind)
        if "ok" in ra:
            out = ra["ok"].get("", "")
            distinct = len({w for w, _ in want}) == len(want)
            for w, member in want:
                n_defs = len(re.findall(r"(?m)^(?:export (?:interface|type|enum)|(?:data |sealed |enum |value )?class|typealias|object|public (?:struct|enum|indirect enum|typealias)"
                                        r"|case class|sealed trait|type|class) %s\b" % re.escape(w), out)) + \
                         len(re.findall(r"(?m)^%s = " % re.escape(w), out))
                need = 1 if distinct else sum(1 for x, _ in want if x == w)
                mem_ok = member is None or re.search(r"(?i)\b%s\b" % re.escape(member.replace("_", "")), out.replace("_", ""))
                if n_defs < need or not mem_ok:
                    check.violation("%s: %d annotated %ss share the Rust identifier `%s` (written as %s); the output defines `%s` %d time(s)%s"
                                    % (lang, k, kind, name, [x for x, _ in want], w, n_defs, "" if mem_ok else " and lacks its member `%s`" % member),
                                    case={"lang": lang, "files": texts}, impl={"output": out}, model=ma, failing_input=True)
                    return
        if ma != ra:
            d = l2.text_diff(ma["ok"].get("", ""), ra["ok"].get("", "")) if "ok" in ma and "ok" in ra else "%s vs %s" % (str(ma)[:200], str(ra)[:200])
            check.violation("%s: items sharing a Rust identifier: generate_types differs from the model: %s" % (lang, d),
                            case={"lang": lang, "files": texts}, impl=ra, model=ma, failing_input=False,
                            broken="correspondence L2 generate (theorems TsV.C03.Capstone run_guarantees_*)")
            return


def emptied_variants_part(check):
    """struct variants that keep no field (written `V {}`, or every field skipped in either spelling) next to ordinary ones: the variant
    itself is still an annotated, non-skipped variant - it must be generated, and so must whatever its generated form refers to
    (the helper struct `<Enum><Variant>Inner` of five back ends)"""
    import l2
    rng = check.rng
    ts = [m_path("typeshare")]
    skip = lambda: [rng.choice([m_list("serde", [m_path("skip")]), m_list("typeshare", [m_path("skip")])])]
    for idx in range(18 if check.thorough else 6):
        lang = LANGS[idx % len(LANGS)]
        variants, emptied = [], []
        for k in range(rng.randint(2, 4)):
            how = rng.choice(["braces", "all-skipped", "ordinary", "unit", "one-skipped"])
            vn = "V%d%s" % (k, how.title().replace("-", ""))
            if how == "braces":
                fs = ("named", []); emptied.append(vn)
            elif how == "all-skipped":
                fs = ("named", [field(skip(), "a%d" % j, t_path(rng.choice(["u8", "String"]))) for j in range(rng.randint(1, 3))]); emptied.append(vn)
            elif how == "one-skipped":
                fs = ("named", [field(skip(), "gone", t_path("u8")), field([], "kept", t_path("String"))])
            elif how == "ordinary":
                fs = ("named", [field([], "x", t_path("u8"))])
            else:
                fs = ("unit",)
            variants.append({"attrs": [], "ident": vn, "fields": fs})
        if not emptied:
            variants.append({"attrs": [], "ident": "VEmpty", "fields": ("named", [])}); emptied.append("VEmpty")
        f = {"attrs": [], "items": [{"kind": "enum", "attrs": list(ts) + [m_list("serde", [m_nv("tag", lit_s("t")), m_nv("content", lit_s("c"))])],
                                     "ident": "Event%d" % idx, "generics": [], "variants": variants}]}
        g = Gen(rng)
        cfg = {"package": "proto" if lang == "go" else "com.example", "type_mappings": {}, "version_header": False}
        mreq, rreq, texts = l2.requests(lang, cfg, [{"crate": "", "file_name": "out", "path": "src/lib.rs", "file": f}], g)
        ma = l2.norm(model([mreq], names=l2.names_of(f))[0])
        ra = l2.norm(runner([rreq])[0])
        check.saw(("emptied-variants", lang, texts[0]), nontrivial=True)
        check.count("emptied-variants")
        if "ok" in ra:
            out = ra["ok"].get("", "")
            for vn in [v["ident"] for v in variants]:
                # the wire name of the variant occurs in every back end's output
                if not re.search(r"\b%s\b" % vn, out, re.I):
                    check.violation("%s: the variant %s of an annotated enum is not generated" % (lang, vn), case={"lang": lang, "source": texts[0]},
                                    impl={"output": out}, model=ma, failing_input=True)
                    return
            for name in sorted(set(re.findall(r"\bEvent%d\w+Inner\b" % idx, out))):
                if not re.search(r"(?m)^\s*(?:public struct|struct|class|data class|object|type|case class) %s\b" % name, out) and \
                        not re.search(r"(?m)^class %s\(" % name, out):
                    check.violation("%s: the generated enum refers to `%s`, the helper struct of a struct variant without fields, which is not "
                                    "generated" % (lang, name), case={"lang": lang, "source": texts[0]}, impl={"output": out}, model=ma, failing_input=True)
                    return
        if ma != ra:
            d = l2.text_diff(ma["ok"].get("", ""), ra["ok"].get("", "")) if "ok" in ma and "ok" in ra else "%s vs %s" % (str(ma)[:200], str(ra)[:200])
            check.violation("%s: struct variants without fields: generate_types differs from the model: %s" % (lang, d),
                            case={"lang": lang, "source": texts[0]}, impl=ra, model=ma, failing_input=False,
                            broken="correspondence L2 generate (theorems TsV.C03.Capstone run_guarantees_*)")
            return


def find_item(items, name):
    for it in items:
        if it["kind"] in ("mod", "other"):
            r = find_item(it["items"], name)
            if r:
                return r
        elif it.get("ident") == name and is_annotated(it.get("attrs", [])):
            return it
    return None
