import TsV.Lemmas.Order
import TsV.Model.Generate
/-!
# `Pipeline.minByKey` (`Iterator::min_by_key` with `String` keys) does not depend on the iteration order

Since the `fix:` commit "resolve a type name imported from several crates the same way in every run" the three
look-ups that iterate a hash container (`find_type`, `resolve_renamed`, the fallback of `used_imports`) take the
candidate with the smallest crate name.  The lemmas here show that this choice is a function of the *set* of
candidates: `minByKey` returns a member with a smallest key (`minByKey_mem`, `minByKey_le`), two lists with the
same members have the same smallest key (`minByKey_key_congr_mem`), and when the value is determined by the key
they have the same result (`minByKey_congr_mem`).
-/
namespace TsV.MinByKey
open TsV TsV.Pipeline

theorem foldl_min_mem {α} (l : List (Str × α)) : ∀ (x : Str × α),
    l.foldl (fun m y => if Str.lt y.1 m.1 then y else m) x = x ∨
      l.foldl (fun m y => if Str.lt y.1 m.1 then y else m) x ∈ l := by
  induction l with
  | nil => intro x; exact Or.inl rfl
  | cons a t ih =>
    intro x
    simp only [List.foldl_cons]
    by_cases h : Str.lt a.1 x.1 = true
    · simp only [h, if_true]
      rcases ih a with h1 | h1
      · exact Or.inr (by rw [h1]; simp)
      · exact Or.inr (List.mem_cons_of_mem _ h1)
    · simp only [h]
      rcases ih x with h1 | h1
      · exact Or.inl h1
      · exact Or.inr (List.mem_cons_of_mem _ h1)

/-- the fold never increases the key … -/
theorem foldl_min_le_init {α} (l : List (Str × α)) : ∀ (x : Str × α),
    Str.le (l.foldl (fun m y => if Str.lt y.1 m.1 then y else m) x).1 x.1 = true := by
  induction l with
  | nil => intro x; simp [Str.le, Order.lt_irrefl]
  | cons a t ih =>
    intro x
    simp only [List.foldl_cons]
    by_cases h : Str.lt a.1 x.1 = true
    · simp only [h, if_true]
      refine Order.le_trans _ _ _ (ih a) ?_
      simp [Str.le, Order.lt_asymm _ _ h]
    · simp only [h]
      exact ih x

/-- … and ends below every element -/
theorem foldl_min_le {α} (l : List (Str × α)) : ∀ (x : Str × α), ∀ y ∈ l,
    Str.le (l.foldl (fun m y => if Str.lt y.1 m.1 then y else m) x).1 y.1 = true := by
  induction l with
  | nil => intro x y hy; simp at hy
  | cons a t ih =>
    intro x y hy
    simp only [List.foldl_cons]
    rcases List.mem_cons.1 hy with rfl | hy
    · by_cases h : Str.lt y.1 x.1 = true
      · simp only [h, if_true]
        exact foldl_min_le_init t y
      · simp only [h]
        refine Order.le_trans _ _ _ (foldl_min_le_init t x) ?_
        simpa [Str.le] using h
    · exact ih _ y hy

theorem minByKey_eq_none {α} {l : List (Str × α)} : minByKey l = none ↔ l = [] := by
  cases l <;> simp [minByKey]

theorem minByKey_nil {α} : minByKey ([] : List (Str × α)) = none := rfl

/-- `min_by_key` returns a member … -/
theorem minByKey_mem {α} {l : List (Str × α)} {m : Str × α} (h : minByKey l = some m) : m ∈ l := by
  cases l with
  | nil => simp [minByKey] at h
  | cons x t =>
    simp only [minByKey, Option.some.injEq] at h
    rcases foldl_min_mem t x with h1 | h1
    · rw [← h, h1]; simp
    · rw [← h]; exact List.mem_cons_of_mem _ h1

/-- … whose key is smallest -/
theorem minByKey_le {α} {l : List (Str × α)} {m : Str × α} (h : minByKey l = some m) :
    ∀ y ∈ l, Str.le m.1 y.1 = true := by
  cases l with
  | nil => simp [minByKey] at h
  | cons x t =>
    simp only [minByKey, Option.some.injEq] at h
    intro y hy
    rw [← h]
    rcases List.mem_cons.1 hy with rfl | hy
    · exact foldl_min_le_init t y
    · exact foldl_min_le t x y hy

theorem minByKey_isSome {α} {l : List (Str × α)} (h : l ≠ []) : ∃ m, minByKey l = some m := by
  cases l with
  | nil => exact absurd rfl h
  | cons x t => exact ⟨_, rfl⟩

/-- **the smallest key is a function of the set of keys** -/
theorem minByKey_key_congr_mem {α β} {l : List (Str × α)} {l' : List (Str × β)}
    (hk : ∀ k, k ∈ l.map (·.1) ↔ k ∈ l'.map (·.1)) :
    (minByKey l).map (·.1) = (minByKey l').map (·.1) := by
  cases h : minByKey l with
  | none =>
    have hl := minByKey_eq_none.1 h
    have hl' : l' = [] := by
      cases l' with
      | nil => rfl
      | cons y t => have := (hk y.1).2 (by simp); rw [hl] at this; simp at this
    rw [hl']; rfl
  | some m =>
    have hm := minByKey_mem h
    have hle := minByKey_le h
    have hne : l' ≠ [] := by
      intro e
      have := (hk m.1).1 (List.mem_map.2 ⟨m, hm, rfl⟩)
      rw [e] at this; simp at this
    obtain ⟨m', h'⟩ := minByKey_isSome hne
    have hm' := minByKey_mem h'
    have hle' := minByKey_le h'
    rw [h']
    simp only [Option.map_some, Option.some.injEq]
    obtain ⟨x, hx, hxk⟩ := List.mem_map.1 ((hk m.1).1 (List.mem_map.2 ⟨m, hm, rfl⟩))
    obtain ⟨y, hy, hyk⟩ := List.mem_map.1 ((hk m'.1).2 (List.mem_map.2 ⟨m', hm', rfl⟩))
    apply Order.le_antisymm
    · have := hle y hy; rw [hyk] at this; exact this
    · have := hle' x hx; rw [hxk] at this; exact this

/-- **`min_by_key` is a function of the set of candidates** when no two candidates share a key (as for the keys of
a map), or more generally when candidates with the same key are equal -/
theorem minByKey_congr_mem {α} {l l' : List (Str × α)} (hm : ∀ x, x ∈ l ↔ x ∈ l')
    (hf : ∀ x ∈ l, ∀ y ∈ l, x.1 = y.1 → x = y) : minByKey l = minByKey l' := by
  have hk : ∀ k, k ∈ l.map (·.1) ↔ k ∈ l'.map (·.1) := by
    intro k
    simp only [List.mem_map]
    exact ⟨fun ⟨x, hx, e⟩ => ⟨x, (hm x).1 hx, e⟩, fun ⟨x, hx, e⟩ => ⟨x, (hm x).2 hx, e⟩⟩
  have hkey := minByKey_key_congr_mem hk
  cases h : minByKey l with
  | none =>
    rw [h] at hkey
    cases h' : minByKey l' with
    | none => rfl
    | some m' => rw [h'] at hkey; simp at hkey
  | some m =>
    rw [h] at hkey
    cases h' : minByKey l' with
    | none => rw [h'] at hkey; simp at hkey
    | some m' =>
      rw [h'] at hkey
      simp only [Option.map_some, Option.some.injEq] at hkey
      rw [hf m (minByKey_mem h) m' ((hm m').2 (minByKey_mem h')) hkey]

theorem minByKey_perm {α} {l l' : List (Str × α)} (hp : l.Perm l')
    (hf : ∀ x ∈ l, ∀ y ∈ l, x.1 = y.1 → x = y) : minByKey l = minByKey l' :=
  minByKey_congr_mem (fun _ => hp.mem_iff) hf

/-! ### `resolve_renamed` -/

/-- the candidates of `resolve_renamed`: (crate, new name) for every import of `id` whose crate renames it -/
def renCands (r : Renames) (imports : List ImportedType) (id : Str) : List (Str × Str) :=
  (imports.filter (·.typeName == id)).filterMap fun i => (renameOf r id i.baseCrate).map fun n => (i.baseCrate, n)

theorem resolveRenamed_eq (crate : Str) (r : Renames) (imports : List ImportedType) (id : Str) :
    resolveRenamed crate r imports id =
      if !hasRename r id then none
      else match minByKey (renCands r imports id) with
        | some (_, n) => some n
        | none => renameOf r id crate := rfl

theorem mem_renCands {r : Renames} {imports : List ImportedType} {id : Str} {x : Str × Str} :
    x ∈ renCands r imports id ↔ (⟨x.1, id⟩ : ImportedType) ∈ imports ∧ renameOf r id x.1 = some x.2 := by
  unfold renCands
  simp only [List.mem_filterMap, List.mem_filter, beq_iff_eq, Option.map_eq_some_iff]
  constructor
  · rintro ⟨i, ⟨hi, hn⟩, n, hr, rfl⟩
    obtain ⟨b, t⟩ := i
    simp only at hn hr ⊢
    subst hn
    exact ⟨hi, hr⟩
  · rintro ⟨hi, hr⟩
    exact ⟨⟨x.1, id⟩, ⟨hi, rfl⟩, x.2, hr, rfl⟩

/-- in the candidate list the new name is a function of the crate -/
theorem renCands_functional {r : Renames} {imports : List ImportedType} {id : Str} :
    ∀ x ∈ renCands r imports id, ∀ y ∈ renCands r imports id, x.1 = y.1 → x = y := by
  intro x hx y hy e
  have h1 := (mem_renCands.1 hx).2
  have h2 := (mem_renCands.1 hy).2
  rw [e, h2] at h1
  obtain ⟨a, b⟩ := x
  obtain ⟨c, d⟩ := y
  simp only at e h1
  simp only [Option.some.injEq] at h1
  rw [e, h1]

/-- **hash order of `import_types` in `resolve_renamed`**: the result only depends on the import *set* — no
hypothesis on the imports -/
theorem resolve_congr_mem (c : Str) (r : Renames) (imps imps' : List ImportedType) (id : Str)
    (hi : ∀ i, i ∈ imps ↔ i ∈ imps') : resolveRenamed c r imps id = resolveRenamed c r imps' id := by
  rw [resolveRenamed_eq, resolveRenamed_eq]
  have : minByKey (renCands r imps id) = minByKey (renCands r imps' id) :=
    minByKey_congr_mem (fun x => by rw [mem_renCands, mem_renCands, hi]) renCands_functional
  rw [this]

theorem resolve_perm (c : Str) (r : Renames) (imps imps' : List ImportedType) (id : Str)
    (hp : imps.Perm imps') : resolveRenamed c r imps id = resolveRenamed c r imps' id :=
  resolve_congr_mem c r imps imps' id fun _ => hp.mem_iff

theorem resolveRenamed_nil (c : Str) (r : Renames) (id : Str) :
    resolveRenamed c r [] id = if !hasRename r id then none else renameOf r id c := by
  rw [resolveRenamed_eq]; rfl

/-! ### the fallback of `used_imports` -/

/-- **hash order of `all_types`**: the crate the re-export fallback finds does not depend on the iteration order
of the map, nor on the order inside the name sets — no hypothesis -/
theorem firstOther_congr_mem (all all' : List (Str × List Str)) (cur name : Str)
    (h : ∀ c, (∃ ns, (c, ns) ∈ all ∧ c ≠ cur ∧ name ∈ ns) ↔ (∃ ns, (c, ns) ∈ all' ∧ c ≠ cur ∧ name ∈ ns)) :
    Generate.firstOther all cur name = Generate.firstOther all' cur name := by
  unfold Generate.firstOther
  apply minByKey_key_congr_mem
  intro k
  simp only [List.mem_map, List.mem_filter, Bool.and_eq_true, bne_iff_ne, ne_eq, List.contains_iff_mem]
  constructor
  · rintro ⟨⟨c, ns⟩, ⟨hm, hc, hn⟩, rfl⟩
    obtain ⟨ns', h1, h2, h3⟩ := (h c).1 ⟨ns, hm, hc, hn⟩
    exact ⟨(c, ns'), ⟨h1, h2, h3⟩, rfl⟩
  · rintro ⟨⟨c, ns⟩, ⟨hm, hc, hn⟩, rfl⟩
    obtain ⟨ns', h1, h2, h3⟩ := (h c).2 ⟨ns, hm, hc, hn⟩
    exact ⟨(c, ns'), ⟨h1, h2, h3⟩, rfl⟩

theorem firstOther_perm (all all' : List (Str × List Str)) (cur name : Str) (hp : all.Perm all') :
    Generate.firstOther all cur name = Generate.firstOther all' cur name :=
  firstOther_congr_mem all all' cur name fun _ =>
    ⟨fun ⟨ns, h1, h2⟩ => ⟨ns, hp.mem_iff.1 h1, h2⟩, fun ⟨ns, h1, h2⟩ => ⟨ns, hp.mem_iff.2 h1, h2⟩⟩

/-- the fallback finds a crate other than the current one that defines the name, and no such crate has a
smaller name -/
theorem firstOther_spec {all : List (Str × List Str)} {cur name c : Str}
    (h : Generate.firstOther all cur name = some c) :
    (∃ ns, (c, ns) ∈ all ∧ c ≠ cur ∧ name ∈ ns) ∧
      ∀ c' ns, (c', ns) ∈ all → c' ≠ cur → name ∈ ns → Str.le c c' = true := by
  unfold Generate.firstOther at h
  cases hm : minByKey (all.filter fun (c, names) => c != cur && names.contains name) with
  | none => rw [hm] at h; simp at h
  | some m =>
    rw [hm] at h
    simp only [Option.map_some, Option.some.injEq] at h
    subst h
    have h1 := minByKey_mem hm
    have h2 := minByKey_le hm
    simp only [List.mem_filter, Bool.and_eq_true, bne_iff_ne, ne_eq, List.contains_iff_mem] at h1
    refine ⟨⟨m.2, h1.1, h1.2.1, h1.2.2⟩, fun c' ns hc hne hn => ?_⟩
    exact h2 (c', ns) (by simp [List.mem_filter, hc, hne, hn])

theorem firstOther_eq_none {all : List (Str × List Str)} {cur name : Str} :
    Generate.firstOther all cur name = none ↔ ∀ c ns, (c, ns) ∈ all → c ≠ cur → name ∉ ns := by
  unfold Generate.firstOther
  rw [Option.map_eq_none_iff, minByKey_eq_none, List.filter_eq_nil_iff]
  constructor
  · intro h c ns hc hne hn
    exact h (c, ns) hc (by simp [hne, hn])
  · intro h p hp
    simp only [Bool.and_eq_true, bne_iff_ne, ne_eq, List.contains_iff_mem, not_and]
    exact fun hne => h p.1 p.2 hp hne

end TsV.MinByKey
