import TsV.Model.Topsort
/-! helper lemmas for C11 about `toposort_impl::inner` -/
namespace TsV.Topsort

theorem erase_append_self {l : List Nat} {d : Nat} (h : d ∉ l) : (l ++ [d]).erase d = l := by
  induction l with
  | nil => simp
  | cons a t ih =>
    have hne : a ≠ d := fun e => h (by simp [e])
    have ht : d ∉ t := fun m => h (by simp [m])
    simp [List.erase_cons, hne, ih ht]

/-- pigeonhole: a duplicate-free list of numbers below `n` has at most `n` entries -/
theorem nodup_lt_length : ∀ (n : Nat) (l : List Nat), l.Nodup → (∀ x ∈ l, x < n) → l.length ≤ n := by
  intro n
  induction n with
  | zero =>
    intro l _ h
    cases l with
    | nil => simp
    | cons a t => exact absurd (h a (by simp)) (by omega)
  | succ n ih =>
    intro l hd h
    by_cases hm : n ∈ l
    · have hd' := hd.erase n
      have hlt : ∀ x ∈ l.erase n, x < n := by
        intro x hx
        have := (hd.mem_erase_iff).1 hx
        have := h x this.2
        omega
      have := ih _ hd' hlt
      rw [List.length_erase_of_mem hm] at this
      omega
    · have hlt : ∀ x ∈ l, x < n := by
        intro x hx
        have := h x hx
        have : x ≠ n := fun e => hm (e ▸ hx)
        omega
      have := ih l hd hlt
      omega

/-- what one call of `inner` does to the state: `seen` is restored; what is appended to `res` is
duplicate-free and disjoint from the old `res` and from `seen` -/
def Spec (st st' : TS) : Prop :=
  st'.seen = st.seen ∧ ∃ new, st'.res = st.res ++ new ∧ new.Nodup ∧
    ∀ x ∈ new, x ∉ st.res ∧ x ∉ st.seen

theorem Spec.refl (st : TS) : Spec st st := ⟨rfl, [], by simp, by simp, by simp⟩

theorem inner_spec (g : List (List Nat)) :
    ∀ fuel nodes st st', inner g fuel nodes st = some st' → Spec st st' := by
  intro fuel nodes st
  fun_induction inner g fuel nodes st with
  | case1 => intro st' h; simp at h
  | case2 => intro st' h; simp at h; subst h; exact Spec.refl _
  | case3 fuel d rest st hres ih => intro st' h; exact ih st' h
  | case4 fuel d rest st hres hseen => intro st' h; simp at h; subst h; exact Spec.refl _
  | case5 fuel d rest st hres hseen hnone => intro st' h; simp at h
  | case6 fuel d rest st hres hseen deps hdeps hnone ih1 => intro st' h; simp at h
  | case7 fuel d rest st hres hseen deps hdeps st1 hsome ih1 ih2 =>
    intro st' h
    have hdres : d ∉ st.res := by simpa using hres
    have hdseen : d ∉ st.seen := by simpa using hseen
    obtain ⟨hs1, new1, hr1, hnd1, hx1⟩ := ih1 st1 hsome
    obtain ⟨hs2, new2, hr2, hnd2, hx2⟩ := ih2 st' h
    simp at hs1 hs2 hr1 hr2 hx1 hx2
    refine ⟨?_, new1 ++ [d] ++ new2, ?_, ?_, ?_⟩
    · rw [hs2, hs1, erase_append_self hdseen]
    · rw [hr2, hr1]; simp
    · have hd1 : d ∉ new1 := fun m => (hx1 d m).2.2 rfl
      have hd2 : d ∉ new2 := fun m => (hx2 d m).1.2 rfl
      have hdisj : ∀ a ∈ new1, ∀ b ∈ new2, a ≠ b := by
        intro a ha b hb e; subst e
        exact (hx2 a hb).1.1 (by simp [hr1, ha])
      simp only [List.nodup_append, List.nodup_cons, List.mem_append, List.mem_singleton]
      refine ⟨⟨hnd1, ⟨by simp, List.nodup_nil⟩, ?_⟩, hnd2, ?_⟩
      · intro a ha b hb; subst hb; intro e; subst e; exact hd1 ha
      · intro a ha b hb
        rcases ha with ha | ha
        · exact hdisj a ha b hb
        · subst ha; intro e; subst e; exact hd2 hb
    · intro x hx
      simp only [List.mem_append, List.mem_singleton] at hx
      rcases hx with (hx | hx) | hx
      · exact ⟨(hx1 x hx).1, (hx1 x hx).2.1⟩
      · subst hx; exact ⟨hdres, hdseen⟩
      · have h2 := hx2 x hx
        refine ⟨fun m => h2.1.1 (by simp [hr1, m]), fun m => ?_⟩
        · have : x ∈ st1.seen.erase d := by
            rw [hs1, erase_append_self hdseen]; exact m
          exact h2.2 this

/-- at top level (`seen = []`) every listed node ends up in `res` -/
theorem inner_complete (g : List (List Nat)) :
    ∀ fuel nodes st st', inner g fuel nodes st = some st' → st.seen = [] →
      ∀ d ∈ nodes, d ∈ st'.res := by
  intro fuel nodes st
  fun_induction inner g fuel nodes st with
  | case1 => intro st' h; simp at h
  | case2 => intro st' h _ d hd; simp at hd
  | case3 fuel d rest st hres ih =>
    intro st' h hs x hx
    obtain ⟨_, new, hr, _, _⟩ := inner_spec g _ _ _ _ h
    simp at hx; rcases hx with hx | hx
    · subst hx; rw [hr]; simp at hres; simp [hres]
    · exact ih st' h hs x hx
  | case4 fuel d rest st hres hseen => intro st' h hs; simp [hs] at hseen
  | case5 fuel d rest st hres hseen hnone => intro st' h; simp at h
  | case6 fuel d rest st hres hseen deps hdeps hnone ih1 => intro st' h; simp at h
  | case7 fuel d rest st hres hseen deps hdeps st1 hsome ih1 ih2 =>
    intro st' h hs x hx
    have hdseen : d ∉ st.seen := by simpa using hseen
    obtain ⟨hs1, _⟩ := inner_spec g _ _ _ _ hsome
    have hseen2 : (st1.seen.erase d) = [] := by
      simp at hs1; rw [hs1, erase_append_self hdseen, hs]
    obtain ⟨_, new, hr, _, _⟩ := inner_spec g _ _ _ _ h
    simp at hx; rcases hx with hx | hx
    · subst hx; rw [hr]; simp
    · exact ih2 st' h hseen2 x hx

/-- everything in the result was in the old result, among the listed nodes, or in an adjacency list -/
theorem inner_mem (g : List (List Nat)) :
    ∀ fuel nodes st st', inner g fuel nodes st = some st' →
      ∀ x ∈ st'.res, x ∈ st.res ∨ x ∈ nodes ∨ ∃ deps ∈ g, x ∈ deps := by
  intro fuel nodes st
  fun_induction inner g fuel nodes st with
  | case1 => intro st' h; simp at h
  | case2 => intro st' h x hx; simp at h; subst h; exact Or.inl hx
  | case3 fuel d rest st hres ih =>
    intro st' h x hx
    rcases ih st' h x hx with h1 | h1 | h1
    · exact Or.inl h1
    · exact Or.inr (Or.inl (by simp [h1]))
    · exact Or.inr (Or.inr h1)
  | case4 fuel d rest st hres hseen => intro st' h x hx; simp at h; subst h; exact Or.inl hx
  | case5 fuel d rest st hres hseen hnone => intro st' h; simp at h
  | case6 fuel d rest st hres hseen deps hdeps hnone ih1 => intro st' h; simp at h
  | case7 fuel d rest st hres hseen deps hdeps st1 hsome ih1 ih2 =>
    intro st' h x hx
    have hdeps' : deps ∈ g := List.mem_of_getElem? hdeps
    rcases ih2 st' h x hx with h1 | h1 | h1
    · simp only [List.mem_append, List.mem_singleton] at h1
      rcases h1 with h1 | h1
      · rcases ih1 st1 hsome x h1 with h2 | h2 | h2
        · exact Or.inl h2
        · exact Or.inr (Or.inr ⟨deps, hdeps', h2⟩)
        · exact Or.inr (Or.inr h2)
      · exact Or.inr (Or.inl (by simp [h1]))
    · exact Or.inr (Or.inl (by simp [h1]))
    · exact Or.inr (Or.inr h1)

/-- fuel sufficiency and absence of index panics: on a graph whose entries are nodes, with the
recursion stack `seen` duplicate-free, `inner` returns -/
theorem inner_isSome (g : List (List Nat)) (hg : ∀ deps ∈ g, ∀ d ∈ deps, d < g.length) :
    ∀ fuel nodes st, (∀ x ∈ nodes, x < g.length) → st.seen.Nodup → (∀ x ∈ st.seen, x < g.length) →
      g.length + 1 ≤ st.seen.length + fuel → (inner g fuel nodes st).isSome := by
  intro fuel nodes st
  fun_induction inner g fuel nodes st with
  | case1 nodes st =>
    intro _ hnd hlt hf
    have := nodup_lt_length _ _ hnd hlt
    omega
  | case2 => intros; simp
  | case3 fuel d rest st hres ih =>
    intro hn hnd hlt hf
    exact ih (fun x hx => hn x (by simp [hx])) hnd hlt hf
  | case4 fuel d rest st hres hseen => intros; simp
  | case5 fuel d rest st hres hseen hnone =>
    intro hn _ _ _
    have := hn d (by simp)
    rw [List.getElem?_eq_none_iff] at hnone
    omega
  | case6 fuel d rest st hres hseen deps hdeps hnone ih1 =>
    intro hn hnd hlt hf
    have hdseen : d ∉ st.seen := by simpa using hseen
    have hd : d < g.length := hn d (by simp)
    have hdeps' : deps ∈ g := List.mem_of_getElem? hdeps
    have := ih1 (hg deps hdeps')
      (by simp only [List.nodup_append, List.nodup_cons, List.mem_singleton]
          refine ⟨hnd, ⟨by simp, List.nodup_nil⟩, ?_⟩
          intro a ha b hb; subst hb; intro e; subst e; exact hdseen ha)
      (by intro x hx; simp at hx; rcases hx with hx | hx
          · exact hlt x hx
          · subst hx; exact hd)
      (by simp; omega)
    simp [hnone] at this
  | case7 fuel d rest st hres hseen deps hdeps st1 hsome ih1 ih2 =>
    intro hn hnd hlt hf
    have hdseen : d ∉ st.seen := by simpa using hseen
    obtain ⟨hs1, _⟩ := inner_spec g _ _ _ _ hsome
    have hseen2 : (st1.seen.erase d) = st.seen := by
      simp at hs1; rw [hs1, erase_append_self hdseen]
    apply ih2 (fun x hx => hn x (by simp [hx]))
    · simpa [hseen2] using hnd
    · simpa [hseen2] using hlt
    · simpa [hseen2] using hf

end TsV.Topsort
