"""C13 — --target-os filtering follows the documented accept/reject rule (target_os_check.rs)."""
import itertools
from common import *
from syn_gen import *

LEAVES = [m_nv("target_os", lit_s("a")), m_nv("target_os", lit_s("b")), m_nv("target_os", lit_s("c")),
          m_nv("feature", lit_s("f")), m_path("unix")]


def exprs(depth):
    """all cfg expressions of nesting depth <= depth (any/all with 1 or 2 arguments, not with 1)"""
    if depth == 0:
        return list(LEAVES)
    sub = exprs(depth - 1)
    out = list(sub) if depth == 1 else list(sub)
    new = []
    for x in sub:
        new.append(m_list("not", [x]))
        new.append(m_list("any", [x]))
        new.append(m_list("all", [x]))
    for x in sub:
        for y in sub:
            new.append(m_list("any", [x, y]))
            new.append(m_list("all", [x, y]))
    seen, res = set(), []
    for e in out + new:
        k = render_meta(e)
        if k not in seen:
            seen.add(k)
            res.append(e)
    return res


def rand_expr(rng, depth):
    if depth == 0 or rng.random() < 0.25:
        r = rng.random()
        if r < 0.06:
            return m_nv("target_os", ("i", 1, ""))           # non-string value: ignored
        if r < 0.10:
            return m_nv("not", lit_s("a"))                   # a name-value called `not`
        if r < 0.14:
            return m_nv(["x", "target_os"], lit_s("a"))      # qualified path: not `target_os`
        if r < 0.18:
            return m_nv("target_os", None)                   # non-literal value
        return rng.choice(LEAVES + [m_nv("target_os", lit_s("d"))])
    r = rng.random()
    if r < 0.25:
        return m_list("not", [rand_expr(rng, depth - 1)])
    if r < 0.30:
        return m_list("version", [], parsed=False, raw='"1.0"')   # tokens that are not a meta list
    name = rng.choice(["any", "all"])
    return m_list(name, [rand_expr(rng, depth - 1) for _ in range(rng.randint(0, 3))])


def names(m, in_not=False):
    """(inside_not, os) of every `target_os = "os"` leaf; None if the walk of this item is cut short
    by an argument list that is not a meta list (outside the property's quantifier)."""
    if m[0] == "p":
        return []
    if m[0] == "nv":
        if m[1] == ["target_os"] and m[2] is not None and m[2][0] == "s":
            return [(in_not, m[2][1])]
        return []
    if not m[2]:
        return None
    out = []
    for a in m[3]:
        r = names(a, in_not or m[1] == ["not"])
        if r is None:
            return None
        out += r
    return out


def rule(cfg_attrs, targets):
    """the documented rule; None when outside the quantifier"""
    if not targets:
        return True
    allnames = []
    for attr in cfg_attrs:
        for item in attr[3]:
            r = names(item)
            if r is None:
                return None
            allnames += r
    neg = [o for (n, o) in allnames if n]
    pos = [o for (n, o) in allnames if not n]
    return all(o not in targets for o in neg) and (not pos or any(o in targets for o in pos))


def target_lists(maxlen):
    out = [[]]
    for k in range(1, maxlen + 1):
        out += [list(t) for t in itertools.product("abcd", repeat=k)]
    return out


def run(check):
    rng = check.rng
    depth = 2
    es = exprs(depth)
    tls = target_lists(3 if check.thorough else 2)
    check.rule = ("every cfg expression of depth <= %d over any/all (1-2 args), not, leaves target_os=a|b|c, feature=\"f\", unix "
                  "(%d expressions) x every ordered target list over {a,b,c,d} of length <= %d, exhaustively; plus random "
                  "expressions to depth 4 (0-3 args, non-string / non-literal values, qualified paths, name-values called `not`, "
                  "non-meta argument lists) under 1-3 cfg attributes mixed with other attributes; non-trivial = the "
                  "expression names at least one target_os and the target list is not empty" % (depth, len(es), len(tls[-1])))
    cases = []
    for e in es:
        for t in tls:
            cases.append(([m_list("cfg", [e])], t, "exhaustive"))
    n_rand = 60000 if check.thorough else 6000
    for _ in range(n_rand):
        attrs = []
        for _ in range(rng.randint(1, 3)):
            r = rng.random()
            if r < 0.75:
                attrs.append(m_list("cfg", [rand_expr(rng, rng.randint(1, 4)) for _ in range(rng.choice([1, 1, 1, 2]))]))
            elif r < 0.85:
                attrs.append(m_list("derive", [m_path("Debug")]))
            elif r < 0.92:
                attrs.append(m_list("cfg_attr", [m_nv("target_os", lit_s("a")), m_path("foo")]))
            else:
                attrs.append(m_path("cfg"))
        t = [rng.choice("abcd") for _ in range(rng.randint(0, 3))]
        cases.append((attrs, t, "random"))
    mreq = [[S("accept-os"), [sx_meta(a) for a in attrs], t] for attrs, t, _ in cases]
    rreq = [{"op": "accept_os", "src": "".join(render_attr(a) + " " for a in attrs) + "struct S;", "targets": t}
            for attrs, t, _ in cases]
    mans, rans = model(mreq, with_unicode=False), runner(rreq)
    for (attrs, t, kind), ma, ra, rq in zip(cases, mans, rans, rreq):
        cfgs = [a for a in attrs if a[0] == "l" and a[1] == ["cfg"] and a[2]]
        nm = []
        for a in cfgs:
            for item in a[3]:
                nm += names(item) or []
        check.saw(rq["src"] + "|" + ",".join(t), nontrivial=bool(nm) and bool(t))
        check.count(kind)
        check.count("targets=%d" % len(t))
        if rng.random() < 0.0002:
            check.sample({"src": rq["src"], "targets": t, "model": ma, "impl": ra})
        if ma != ra:
            exp = rule(cfgs, t)
            failing = exp is not None and ra != {"ok": exp}
            check.violation("accept_target_os differs from the model", case=rq, impl=ra, model=ma,
                            failing_input=failing,
                            broken=None if failing else "correspondence accept_target_os (theorem TsV.C13.C13)")
    if not check.samples:
        check.sample({"src": rreq[0]["src"], "targets": cases[0][1], "model": mans[0], "impl": rans[0]})
    check.exhaustive = True
    check.extra["exhaustive_scope"] = "cfg expressions of depth <= %d x target lists of length <= %d" % (depth, len(tls[-1]))
    check.assumptions += ["syn parses the rendered attribute text into the Meta tree the generator built (syn is inside the compared path on the implementation side)"]


# ----------------------------------------------------------------------------- attachment levels (L1 + CLI)

from gen import Gen
import l1

NEEDS = ("runner", "cli")


def level_part(check):
    """cfg attributes on the file, on types, variants, fields and struct-variant fields, through
    parser::parse with ParseContext.target_os and through --target-os of the binary"""
    import c03
    rng = check.rng
    n = 6000 if check.thorough else 1200
    cases = []
    for i in range(n):
        # `flatten` and unsupported types make an item ungeneratable - unless the member carrying them is filtered out, in which case
        # it must not even be looked at
        g = Gen(rng, p_cfg=0.45, p_skip=0.05, p_mod=0.2, p_noise=0.2, p_serialized_as=0.0, p_flatten=0.05, p_unsupported=0.03)
        f = g.file()
        tos = rng.choice([[], ["ios"], ["android"], ["ios", "android"], ["macos", "wasm32"], ["linux"]])
        m, r, text = l1.requests(f, g, target_os=tos)
        cases.append((f, tos, m, r, text, g.features.get("cfg", 0)))
    mans, rans, diffs = l1.compare([(c[2], c[3]) for c in cases])
    bad = None
    for (f, tos, m, r, text, ncfg), ma, ra in zip(cases, mans, rans):
        check.saw("L1|" + text + "|" + ",".join(tos), nontrivial=ncfg > 0 and bool(tos))
        check.count("level-cases-with-%s" % ("targets" if tos else "no-targets"))
        if "typeshare" not in text:
            continue
        prob = c03.oracle(c03.expected(f, tos), ra)
        if prob and bad is None:
            bad = (text, tos, prob, ma, ra, r)
    # metamorphic form of the rule: a member whose cfg rejects the target list is treated as if it were not written at all - the
    # program with those members deleted must parse to exactly the same result (items, members, error entries) under the same list
    import copy

    def pruned(f, tos):
        keep = lambda attrs: c03.accepted(attrs, tos)

        def fields(fs):
            # only named fields are filtered (the payload of a tuple variant / newtype is not a "field" of the rule)
            return fs if fs[0] != "named" else (fs[0], [x for x in fs[1] if keep(x["attrs"])])

        def items(its):
            out = []
            for it in its:
                it = copy.deepcopy(it)
                if it["kind"] in ("mod", "other"):
                    it["items"] = items(it["items"])
                elif it["kind"] != "use" and c03.is_annotated(it.get("attrs", [])):
                    if not keep(it["attrs"]):
                        continue
                    if it["kind"] == "struct":
                        it["fields"] = fields(it["fields"])
                    elif it["kind"] == "enum":
                        it["variants"] = [dict(v, fields=fields(v["fields"])) for v in it["variants"] if keep(v["attrs"])]
                out.append(it)
            return out
        return {"attrs": f["attrs"], "items": items(f["items"])} if keep(f["attrs"]) else {"attrs": [], "items": []}

    twins = [(i, c) for i, c in enumerate(cases) if c[1] and "typeshare" in c[4]][: (1500 if check.thorough else 400)]
    treqs = [l1.requests(pruned(c[0], c[1]), Gen(rng), target_os=c[1])[1] for _, c in twins]
    for (i, c), ta in zip(twins, runner(treqs)):
        ra = rans[i]
        check.count("pruned-twin")
        if l1.norm(ta) != l1.norm(ra) if hasattr(l1, "norm") else ta != ra:
            a, b = (ra.get("ok") or {}), (ta.get("ok") or {})
            what = [k for k in ("structs", "enums", "aliases", "consts", "errors") if isinstance(a, dict) and isinstance(b, dict) and a.get(k) != b.get(k)]
            if what and bad is None:
                check.violation("--target-os %s: the program and the same program with the filtered-out members deleted do not parse alike "
                                "(they differ in %s): a member that the target list excludes still has an effect" % (c[1], what),
                                case={"source": c[4], "target_os": c[1], "request": c[3]}, impl=ra, model=ta, failing_input=True)
                return
    if bad:
        text, tos, prob, ma, ra, r = bad
        check.violation("--target-os %s: the generated items / members differ from the documented rule: %s" % (tos, prob),
                        case={"source": text, "target_os": tos, "request": r}, impl=ra, model=ma, failing_input=True)
        return
    if diffs:
        i = diffs[0]
        check.violation("parser::parse differs from the model with target_os=%s: %s" % (cases[i][1], l1.first_diff(mans[i], rans[i])),
                        case={"source": cases[i][4], "target_os": cases[i][1], "request": cases[i][3]}, impl=rans[i], model=mans[i],
                        failing_input=False, broken="correspondence L1 (theorems TsV.C13.file_level/item_level/member_level)")
        return
    # the command-line option itself
    src = ("#![cfg(feature = \"x\")]\n#[typeshare]\n#[cfg(target_os = \"ios\")]\npub struct OnlyIos { pub a: u8 }\n\n"
           "#[typeshare]\npub struct Both {\n    #[cfg(not(target_os = \"android\"))]\n    pub not_android: u8,\n    pub always: u8,\n}\n\n"
           "#[typeshare]\npub enum E {\n    #[cfg(any(target_os = \"ios\", target_os = \"macos\"))]\n    Apple,\n    Other,\n}\n")
    for tos, want in ((None, {"OnlyIos", "not_android", "Apple"}), (["ios"], {"OnlyIos", "not_android", "Apple"}),
                      (["android"], set()), (["macos", "android"], {"Apple"}), (["linux"], {"not_android"})):
        with Scratch() as sc:
            sc.write("p/src/lib.rs", src)
            args = ["--lang", "typescript", "-o", sc.path("o.ts"), sc.path("p")] + (["--target-os"] + tos if tos else [])
            r = run_cli(args, cwd=sc.dir)
            text = open(sc.path("o.ts")).read() if os.path.exists(sc.path("o.ts")) else ""
        got = {w for w in ("OnlyIos", "not_android", "Apple") if w in text}
        check.saw(("cli", tuple(tos or [])), nontrivial=True)
        check.count("cli-target-os")
        if r["rc"] != 0 or got != want or "always" not in text or "Other" not in text:
            check.violation("typeshare --target-os %s generated %s, the documented rule gives %s" % (tos, sorted(got), sorted(want)),
                            case={"source": src, "target_os": tos}, impl={"rc": r["rc"], "output": text}, failing_input=True)
            return
    # "without --target-os nothing is filtered": also when a configuration file is around that mentions target systems (in the
    # working directory, in a parent directory, given by -c, or written by an earlier `-g --target-os ..` run), and the option can be
    # given as one list or repeated
    everything = {"OnlyIos", "not_android", "Apple"}
    scenarios = [("toml-in-cwd", 'target_os = ["android"]\n', None, []), ("toml-in-parent", 'target_os = ["android"]\n', "parent", []),
                 ("toml-by-c", 'target_os = ["android"]\n[swift]\nprefix = ""\n', "-c", []),
                 ("written-by-g", None, "-g", []), ("repeated-option", None, None, ["--target-os", "macos", "--target-os", "android"])]
    for name, toml, how, extra in scenarios:
        with Scratch() as sc:
            sc.write("w/p/src/lib.rs", src)
            cfg_args = []
            if toml is not None:
                sc.write({"parent": "w/typeshare.toml", "-c": "elsewhere/cfg.toml"}.get(how, "w/p/typeshare.toml"), toml)
                if how == "-c":
                    cfg_args = ["-c", sc.path("elsewhere/cfg.toml")]
            if how == "-g":
                run_cli(["-g", "--target-os", "android", sc.path("w/p")], cwd=sc.path("w/p"))
            r = run_cli(["--lang", "typescript", "-o", sc.path("o.ts")] + cfg_args + [sc.path("w/p")] + extra, cwd=sc.path("w/p"))
            text = open(sc.path("o.ts")).read() if os.path.exists(sc.path("o.ts")) else ""
        got = {w for w in everything if w in text}
        want = {"Apple"} if extra else everything
        check.saw(("cli-config", name), nontrivial=True)
        check.count("cli-target-os-" + name)
        if r["rc"] != 0 or got != want:
            check.violation("typeshare %s (%s): generated %s, the documented rule gives %s" % (" ".join(extra) or "without --target-os", name,
                            sorted(got), sorted(want)), case={"source": src, "scenario": name, "typeshare.toml": toml, "options": extra},
                            impl={"rc": r["rc"], "stderr": r["err"][-600:], "output": text}, failing_input=True)
            return


# ----------------------------------------------------------------------------- nearly equal OS names

NEAR_BASES = ["macos", "ios", "linux", "android", "windows", "wasm32", "a"]
NEAR_KINDS = ("case", "prefix-suffix", "separator", "blanks", "digit", "empty", "unicode")


def near_variants(base, kind):
    """names that are *nearly* `base` in one respect - every one of them is a different OS name for the rule (names are opaque
    strings, compared as written); a comparison that lower-cases, trims, looks at a prefix / suffix, unifies `-` and `_`, strips
    digits, folds Unicode case or treats the empty name as "any" confuses some of them with `base`"""
    b = base
    mid = max(1, len(b) // 2)
    if kind == "case":
        out = [b.upper(), b.capitalize(), b[:mid] + b[mid:].upper(), b[:mid].upper() + b[mid:], b[:-1] + b[-1:].upper(),
               "".join(c.upper() if i % 2 else c for i, c in enumerate(b))]
    elif kind == "prefix-suffix":
        out = [b[:-1], b[:mid], b[1:], b + "x", "x" + b, b + b, b + "os", b[:1]]
    elif kind == "separator":
        out = [b[:mid] + "-" + b[mid:], b[:mid] + "_" + b[mid:], b[:mid] + " " + b[mid:], b[:mid] + "." + b[mid:], b + "-", b + "_",
               "_" + b, b[:mid] + "--" + b[mid:], b[:mid] + "__" + b[mid:]]
    elif kind == "blanks":
        out = [" " + b, b + " ", " " + b + " ", b + "\t", "\t" + b, b + "  ", b + "\n", b + "\u00a0", "\u3000" + b, b + "\u200b"]
    elif kind == "digit":
        out = [b + "1", b + "0", b + "2", b + "10", b + "01", b.rstrip("0123456789") if b[-1:].isdigit() else b + "3", b + "\u0661"]
    elif kind == "empty":
        out = ["", " ", "*", "any", "_"]
    else:
        # non-ASCII letters whose upper / lower case or compatibility form is an ASCII letter of the base (long s, Kelvin sign,
        # dotless i, dotted capital I, full-width first letter), look-alikes (Cyrillic a, Greek omicron), a combining mark behind
        # the name, and the composed against the decomposed spelling of an accented last letter
        swap = {"s": "\u017f", "k": "\u212a", "i": "\u0131", "a": "\u0430", "o": "\u03bf"}
        out = [b[:i] + swap[c] + b[i + 1:] for i, c in enumerate(b) if c in swap][:4]
        out += [b.upper().replace("I", "\u0130") if "i" in b else b[:-1] + "\u00df", b + "\u0301", chr(0xff00 + ord(b[0]) - 0x20) + b[1:],
               b[:-1] + "\u00e9", b[:-1] + "e\u0301", b[:-1] + "E\u0301"]
    res = []
    for n in out:
        if n != b and n not in res:
            res.append(n)
    return res


def near_pool(rng, cli=False):
    """(kind, names): a base name, two to four names nearly equal to it in one respect (`kind`), sometimes a name nearly equal in
    another respect and sometimes an unrelated OS.  `cli`: only names that can be handed over as a command-line value (no line
    break; a leading `-` never occurs)"""
    base = rng.choice(NEAR_BASES)
    kind = rng.choice(NEAR_KINDS)
    vs = near_variants(base, kind)
    if cli:
        vs = [v for v in vs if "\n" not in v]
    pool = [base] + rng.sample(vs, min(len(vs), rng.randint(2, 4)))
    if rng.random() < 0.4:
        k2 = rng.choice(NEAR_KINDS)
        pool.append(rng.choice([v for v in near_variants(base, k2) if not cli or "\n" not in v]))
    if rng.random() < 0.3:
        pool.append(rng.choice([b for b in NEAR_BASES if b != base]))
    return kind, list(dict.fromkeys(pool))


def near_expr(rng, pool, depth):
    """a cfg expression over not / any / all whose target_os leaves name members of the pool"""
    if depth == 0 or rng.random() < 0.3:
        r = rng.random()
        if r < 0.1:
            return m_nv("feature", lit_s(rng.choice(pool)))          # the same string, but not a target_os
        if r < 0.15:
            return m_path("unix")
        return m_nv("target_os", lit_s(rng.choice(pool)))
    r = rng.random()
    if r < 0.35:
        return m_list("not", [near_expr(rng, pool, depth - 1)])
    return m_list(rng.choice(["any", "all"]), [near_expr(rng, pool, depth - 1) for _ in range(rng.randint(1, 3))])


def confused(cfgs, targets):
    """which (source name, listed name) pair explains an answer that differs from the rule - for the report only"""
    nm = []
    for a in cfgs:
        for item in a[3]:
            nm += names(item) or []
    pairs = [(o, t) for (_, o) in nm for t in targets if o != t]
    near = [(o, t) for o, t in pairs if o.casefold().strip() == t.casefold().strip() or (o and t and (o.startswith(t) or t.startswith(o)))]
    p = (near or pairs or [(None, None)])[0]
    return "e.g. %r in the source and %r in the list are different names" % p if p[0] is not None else "no OS name of the source is in the list"


class NearGen(Gen):
    """the random-program generator of the level part, with the OS names of its cfg attributes drawn from a pool of nearly equal
    names"""

    def __init__(self, rng, pool, **opts):
        Gen.__init__(self, rng, **opts)
        self.pool = pool

    def cfg_attr_meta(self):
        self.hit("cfg")
        return m_list("cfg", [near_expr(self.rng, self.pool, self.rng.choice([0, 1, 1, 2, 3]))])


def near_hook_part(check):
    """nearly equal OS names on the hook level (accept_target_os): every ordered pair of a base name and its near names under seven
    expression shapes, plus random expressions over not / any / all with 0-3 listed names; judged by the rule with byte equality,
    and compared with the model"""
    rng = check.rng
    cases = []
    shapes = [lambda x, z: x, lambda x, z: m_list("not", [x]), lambda x, z: m_list("any", [x, z]),
              lambda x, z: m_list("all", [m_nv("feature", lit_s("f")), m_list("not", [x])]),
              lambda x, z: m_list("not", [m_list("any", [z, x])]), lambda x, z: m_list("all", [m_list("any", [x]), m_list("not", [z])]),
              lambda x, z: m_list("any", [m_list("not", [m_list("not", [x])])])]
    bases = NEAR_BASES if check.thorough else rng.sample(NEAR_BASES, 2)
    for base in bases:
        for kind in NEAR_KINDS:
            fam = [base] + near_variants(base, kind)
            other = m_nv("target_os", lit_s("other"))
            for x in fam:
                for y in fam:
                    if x != base and y != base and not check.thorough and rng.random() < 0.5:
                        continue
                    for sh in shapes:
                        cases.append(([m_list("cfg", [sh(m_nv("target_os", lit_s(x)), other)])], [y], "near-pair:" + kind))
    for _ in range(100000 if check.thorough else 4000):
        kind, pool = near_pool(rng)
        attrs = [m_list("cfg", [near_expr(rng, pool, rng.randint(0, 3)) for _ in range(rng.choice([1, 1, 1, 2]))])
                 for _ in range(rng.choice([1, 1, 2]))]
        cases.append((attrs, [rng.choice(pool) for _ in range(rng.randint(0, 3))], "near-random:" + kind))
    mreq = [[S("accept-os"), [sx_meta(a) for a in attrs], t] for attrs, t, _ in cases]
    rreq = [{"op": "accept_os", "src": "".join(render_attr(a) + " " for a in attrs) + "struct S;", "targets": t} for attrs, t, _ in cases]
    mans, rans = model(mreq, with_unicode=False), runner(rreq)
    broken = None
    for (attrs, t, kind), ma, ra, rq in zip(cases, mans, rans, rreq):
        exp = rule(attrs, t)
        nm = [n for a in attrs for item in a[3] for n in (names(item) or [])]
        check.saw("near|" + rq["src"] + "|" + "\x1f".join(t), nontrivial=bool(nm) and bool(t))
        check.count(kind)
        if t and any(o not in t and any(o.lower() == x.lower() for x in t) for _, o in nm):
            check.count("near-case-only-difference-between-source-and-list")
        if ra != {"ok": exp}:
            check.violation("accept_target_os answers %s for `%s` with the target list %s; the documented rule with OS names compared as "
                            "written gives %s (%s)" % (ra.get("ok", ra), rq["src"], t, exp, confused(attrs, t)),
                            case=rq, impl=ra, model=ma, failing_input=True)
            return
        if ma != ra and broken is None:
            broken = (rq, ma, ra)
    if broken:
        check.violation("accept_target_os differs from the model on nearly equal OS names", case=broken[0], impl=broken[2], model=broken[1],
                        failing_input=False, broken="correspondence accept_target_os (theorem TsV.C13.C13)")


def near_level_part(check):
    """nearly equal OS names at every attachment level (file, type, variant, field, struct-variant field) of random programs,
    through parser::parse; judged by the python reading of the rule (c03.expected, names compared as written), and compared with
    the model"""
    import c03
    rng = check.rng
    lcases = []
    for i in range(5000 if check.thorough else 350):
        kind, pool = near_pool(rng)
        g = NearGen(rng, pool, p_cfg=0.5, p_skip=0.03, p_mod=0.15, p_noise=0.15, p_serialized_as=0.0)
        f = g.file()
        tos = [rng.choice(pool) for _ in range(rng.choice([0, 1, 1, 2, 2, 3]))]
        m, r, text = l1.requests(f, g, target_os=tos)
        lcases.append((f, tos, m, r, text, g.features.get("cfg", 0), kind))
    mans, rans, diffs = l1.compare([(c[2], c[3]) for c in lcases])
    for (f, tos, m, r, text, ncfg, kind), ma, ra in zip(lcases, mans, rans):
        check.saw("near-L1|" + text + "|" + "\x1f".join(tos), nontrivial=ncfg > 0 and bool(tos))
        check.count("near-level:" + kind)
        if "typeshare" not in text:
            continue
        prob = c03.oracle(c03.expected(f, tos), ra)
        if prob:
            check.violation("--target-os %s (OS names nearly equal to the ones in the source): the generated items / members differ from the "
                            "documented rule with names compared as written: %s" % (tos, prob),
                            case={"source": text, "target_os": tos, "request": r}, impl=ra, model=ma, failing_input=True)
            return
    if diffs:
        i = diffs[0]
        check.violation("parser::parse differs from the model with target_os=%s (nearly equal OS names): %s"
                        % (lcases[i][1], l1.first_diff(mans[i], rans[i])),
                        case={"source": lcases[i][4], "target_os": lcases[i][1], "request": lcases[i][3]}, impl=rans[i], model=mans[i],
                        failing_input=False, broken="correspondence L1 (theorems TsV.C13.file_level/item_level/member_level)")


def near_cli_part(check):
    """nearly equal OS names in the text the binary writes with --target-os: programs of 1-3 files with a marker name at every
    level, each guarded by its own random expression over a pool of near names; a marker is in the output exactly when the rule
    (names compared as written) accepts the file and every enclosing level.  (The unguarded tuple variant keeps the enum an
    algebraic one whatever is filtered out: `tag` / `content` are demanded by the struct variant and refused on an enum of unit
    variants.)"""
    rng = check.rng
    for k in range(300 if check.thorough else 25):
        kind, pool = near_pool(rng, cli=True)
        tos = [rng.choice(pool) for _ in range(rng.choice([1, 1, 2, 3]))]
        # (a file without any cfg: when nothing at all is left to generate the binary stops with "Could not get parsed data" -
        # not a matter of this property)
        files, want, guards = {"p/src/anchor.rs": "#[typeshare]\npub struct AnchorQ {\n    pub anchor_q: u8,\n}\n"}, {"AnchorQ": True}, {"AnchorQ": "(no cfg)"}
        for fi in range(rng.randint(1, 3)):
            fattrs = [m_list("cfg", [near_expr(rng, pool, rng.randint(0, 2))])] if rng.random() < 0.35 else []
            lines = [render_attr(a, inner=True) for a in fattrs]
            for ti in range(rng.randint(1, 3)):
                tag = "%d%d" % (fi, ti)
                e = {w: ([m_list("cfg", [near_expr(rng, pool, rng.randint(0, 3))]) for _ in range(rng.choice([1, 1, 2]))]
                         if rng.random() < 0.7 else []) for w in ("type", "field", "enum", "variant", "sv", "member")}
                at = lambda w, ind="": "".join(ind + render_attr(a) + "\n" for a in e[w])
                lines += ["#[typeshare]", at("type") + "pub struct TypeQ%s {" % tag, "    pub always_q%s: u8," % tag,
                          at("field", "    ") + "    pub field_q%s: u8," % tag, "}", "",
                          "#[typeshare]", "#[serde(tag = \"t\", content = \"c\")]", at("enum") + "pub enum EnumQ%s {" % tag,
                          "    PlainQ%s," % tag, "    TupleQ%s(u8)," % tag, at("variant", "    ") + "    VariantQ%s," % tag,
                          at("sv", "    ") + "    SvQ%s {" % tag, "        keep_q%s: u8," % tag,
                          at("member", "        ") + "        member_q%s: u8," % tag, "    },", "}", ""]
                chains = {"TypeQ": ["type"], "always_q": ["type"], "field_q": ["type", "field"], "EnumQ": ["enum"], "PlainQ": ["enum"],
                          "VariantQ": ["enum", "variant"], "SvQ": ["enum", "sv"], "keep_q": ["enum", "sv"],
                          "member_q": ["enum", "sv", "member"]}
                for w, chain in chains.items():
                    gs = [fattrs] + [e[c] for c in chain]
                    guards[w + tag] = " / ".join(" ".join(render_attr(a) for a in g) for g in gs if g) or "(no cfg)"
                    want[w + tag] = all(rule(g, tos) for g in gs)
            files["p/src/f%d.rs" % fi] = "\n".join(lines)
        with Scratch() as sc:
            for rel, text in files.items():
                sc.write(rel, text)
            r = run_cli(["--lang", "typescript", "-o", sc.path("o.ts"), sc.path("p"), "--target-os"] + tos, cwd=sc.dir)
            out = open(sc.path("o.ts")).read() if os.path.exists(sc.path("o.ts")) else ""
        words = set(re.findall(r"\w+", out))
        wrong = [w for w in sorted(want) if (w in words) != want[w]]
        check.saw(("near-cli", k, tuple(tos)), nontrivial=True)
        check.count("near-cli:" + kind)
        check.count("near-cli-marked-positions", len(want))
        if r["rc"] != 0 or wrong:
            w = wrong[0] if wrong else None
            check.violation("typeshare --target-os %s: %s" % (" ".join(repr(t) for t in tos),
                            ("`%s` (guarded by %s) is %s, the documented rule with OS names compared as written says it is %s; "
                             "in all %d marked names differ: %s" % (w, guards[w], "generated" if w in words else "left out",
                                                                     "generated" if want[w] else "left out", len(wrong), wrong))
                            if wrong else "the run failed (exit status %s)" % r["rc"]),
                            case={"files": files, "target_os": tos, "options": ["--lang", "typescript", "-o", "o.ts", "p", "--target-os"] + tos},
                            impl={"rc": r["rc"], "stderr": r["err"][-600:], "output": out}, failing_input=True)
            return


def near_names_part(check):
    """OS names that are nearly equal: the names in the source's cfg attributes and the names of the target list differ only in
    letter case (`MacOS` / `macos`), by a prefix or suffix (`mac` / `macosx`), by `-` against `_`, by surrounding blanks, by a
    trailing digit, are empty, or differ by a non-ASCII letter whose case mapping is an ASCII letter - inside not / any / all, at
    every level (file, type, variant, field, struct-variant field).  Demanded, on the answer of accept_target_os, on what
    parser::parse lists and on the text the binary writes with --target-os: the documented rule with OS names compared *as
    written* (byte equality) - `target_os = "MacOS"` does not name `macos`."""
    for part in (near_hook_part, near_level_part, near_cli_part):
        if not check.has_failing():
            part(check)


# ----------------------------------------------------------------------------- cfg attributes on inline modules

MOD_OS = ["ios", "android", "macos", "linux", "wasm32"]
MOD_TARGET_LISTS = [[], ["ios"], ["android"], ["linux"], ["ios", "android"], ["android", "ios"], ["macos", "wasm32"], ["windows"],
                    ["ios", "android", "macos"], ["linux", "windows", "android"]]


def mod_guard(rng):
    """the attributes of an inline module: one cfg (plain / not / any / all over target_os names, features, bare words, to depth
    3), sometimes two, sometimes next to another attribute"""
    r = rng.random()
    os_ = lambda: m_nv("target_os", lit_s(rng.choice(MOD_OS)))
    if r < 0.2:
        e = os_()
    elif r < 0.4:
        e = m_list("not", [os_()])
    elif r < 0.5:
        e = m_list("any", [os_(), os_()])
    elif r < 0.6:
        e = m_list("all", [m_nv("feature", lit_s("f")), rng.choice([os_(), m_list("not", [os_()])])])
    else:
        e = near_expr(rng, MOD_OS, rng.randint(1, 3))
    attrs = [m_list("cfg", [e])]
    if rng.random() < 0.2:
        attrs.append(m_list("cfg", [near_expr(rng, MOD_OS, rng.randint(0, 2))]))
    if rng.random() < 0.2:
        attrs.insert(rng.randint(0, len(attrs)), m_list("allow", [m_path("dead_code")]))
    return attrs


def guard_modules(rng, items, p, depth=1, found=None):
    """put cfg attributes on the inline modules (probability p each) of a generated file, in place; returns
    [(depth of the module, its cfg attributes, the annotated items below it)]"""
    import c03
    found = [] if found is None else found

    def below(its):
        out = []
        for it in its:
            if it["kind"] in ("mod", "other"):
                out += below(it["items"])
            elif it["kind"] != "use" and c03.is_annotated(it.get("attrs", [])):
                out.append(it)
        return out
    for it in items:
        if it["kind"] == "mod":
            if rng.random() < p:
                it["attrs"] = mod_guard(rng)
                found.append((depth, [a for a in it["attrs"] if a[1] == ["cfg"]], below(it["items"])))
            guard_modules(rng, it["items"], p, depth + 1, found)
        elif it["kind"] == "other":
            guard_modules(rng, it["items"], p, depth, found)
    return found


def strip_module_attrs(items):
    import copy
    out = []
    for it in items:
        if it["kind"] in ("mod", "other"):
            it = dict(it, items=strip_module_attrs(it["items"]))
            if it["kind"] == "mod":
                it["attrs"] = []
        else:
            it = copy.deepcopy(it)
        out.append(it)
    return out


def module_level_part(check):
    """cfg(target_os ..) attributes on *inline modules* (accepting and rejecting ones: plain / not / any / all, to depth 3, one or
    two cfg attributes) at module depth 1-3 (also inside fn bodies) around annotated items with and without cfg attributes of
    their own, under 0-3 --target-os names, through parser::parse.  A module is not an attachment level of the rule (those are
    file, type, variant, field, struct-variant field): demanded is the python reading of the rule (c03.expected: an item is listed
    iff the file's and its own cfg attributes accept - items without a target_os predicate always), and that the program parses
    exactly like the same program with the module attributes deleted; compared with the model as well"""
    import c03
    rng = check.rng
    cases = []
    for i in range(4000 if check.thorough else 500):
        g = Gen(rng, p_cfg=0.3, p_skip=0.05, p_mod=0.75, p_noise=0.15, p_serialized_as=0.0)
        f = g.file()
        mods = guard_modules(rng, f["items"], 0.7)
        tos = list(rng.choice(MOD_TARGET_LISTS))
        m, r, text = l1.requests(f, g, target_os=tos)
        cases.append((f, tos, m, r, text, mods, g))
    mans, rans, diffs = l1.compare([(c[2], c[3]) for c in cases])
    for (f, tos, m, r, text, mods, g), ma, ra in zip(cases, mans, rans):
        rejecting = [x for x in mods if rule(x[1], tos) is False]
        check.saw("mod-L1|" + text + "|" + ",".join(tos), nontrivial=bool(rejecting) and any(x[2] for x in rejecting))
        check.count("module-level-cases-with-%d-targets" % len(tos))
        for d, cfgs, below in mods:
            verdict = rule(cfgs, tos)
            check.count("module-cfg-depth-%d" % d)
            check.count("module-cfg-%s" % ("no-targets" if not tos else "accepting" if verdict else "rejecting"))
            if tos and verdict is False:
                for it in below:
                    own = [a for a in it["attrs"] if a[0] == "l" and a[1] == ["cfg"] and a[2]]
                    own_os = [n for a in own for x in a[3] for n in (names(x) or [])]
                    check.count("annotated-item-in-rejecting-module-%s" % ("with-own-target_os" if own_os else "without-target_os"))
        if "typeshare" not in text:
            continue
        exp = c03.expected(f, tos)
        prob = c03.oracle(exp, ra)
        if prob:
            listed = [it["id"]["o"] for k in ("structs", "enums", "aliases", "consts") for it in (ra.get("ok") or {}).get(k, [])] if isinstance(ra.get("ok"), dict) else []
            errs = len((ra.get("ok") or {}).get("errors", [])) if isinstance(ra.get("ok"), dict) else 0
            missing = [n for _, n, _ in exp if n not in listed]
            why = ""
            if missing and not errs:
                hit = [(d, cfgs) for d, cfgs, below in mods if any(it["ident"] == missing[0] for it in below)]
                why = ("; `%s` is not listed although the file's and its own cfg attributes accept - it sits in inline module(s) guarded by %s, "
                       "and a module is not an attachment level of the rule" % (missing[0], " / ".join(" ".join(render_attr(a) for a in c) for _, c in hit) or "(no cfg)"))
            check.violation("--target-os %s with cfg attributes on inline modules: the listed items / members differ from the documented rule: %s%s"
                            % (tos, prob, why), case={"source": text, "target_os": tos, "request": r}, impl=ra, model=ma, failing_input=True)
            return
    # metamorphic form: module attributes have no effect at all
    twins = [c for c in cases if c[5] and "typeshare" in c[4]][: (1500 if check.thorough else 250)]
    treqs = [l1.requests({"attrs": c[0]["attrs"], "items": strip_module_attrs(c[0]["items"])}, c[6], target_os=c[1])[1] for c in twins]
    idx = {id(c): i for i, c in enumerate(cases)}
    for c, ta in zip(twins, runner(treqs)):
        ra = rans[idx[id(c)]]
        check.count("module-attributes-deleted-twin")
        if ta != ra:
            a, b = ra.get("ok"), ta.get("ok")
            what = [k for k in ("structs", "enums", "aliases", "consts", "errors") if isinstance(a, dict) and isinstance(b, dict) and a.get(k) != b.get(k)] \
                or ["the whole answer"]
            check.violation("--target-os %s: the program and the same program with the attributes of its inline modules deleted do not parse "
                            "alike (they differ in %s): a cfg attribute on a module has an effect, but a module is not an attachment level "
                            "of the rule" % (c[1], what), case={"source": c[4], "target_os": c[1], "request": c[3]}, impl=ra, model=ta,
                            failing_input=True)
            return
    if diffs:
        i = diffs[0]
        check.violation("parser::parse differs from the model with target_os=%s and cfg attributes on inline modules: %s"
                        % (cases[i][1], l1.first_diff(mans[i], rans[i])),
                        case={"source": cases[i][4], "target_os": cases[i][1], "request": cases[i][3]}, impl=rans[i], model=mans[i],
                        failing_input=False, broken="correspondence L1 (theorems TsV.C13.file_level/item_level/member_level)")


def module_cli_part(check):
    """cfg attributes on inline modules in the text the binary writes with --target-os (0-3 names): programs of 1-3 files, every
    file a tree of inline modules of depth 1-3 (guards as outer attributes, sometimes as an inner attribute `#![cfg(..)]` of the
    module, sometimes an out-of-line `mod f1;` declaration with a guard), with marker structs / enums at every depth that carry a
    cfg of their own or none, and a guarded field / variant.  A marker is in the output exactly when the rule accepts its own
    attachment levels (type, field / variant); the guards of the enclosing modules do not count"""
    rng = check.rng
    for k in range(150 if check.thorough else 14):
        tos = list(rng.choice(MOD_TARGET_LISTS))
        files, want, guards = {}, {}, {}
        nfiles = rng.randint(1, 3)
        counter = [0]

        def own(p):
            return [m_list("cfg", [near_expr(rng, MOD_OS, rng.randint(0, 2))])] if rng.random() < p else []

        def marker(ind, chain):
            counter[0] += 1
            tag = "%d" % counter[0]
            t, fl, v = own(0.4), own(0.5), own(0.5)
            at = lambda attrs, i: "".join(i + render_attr(a) + "\n" for a in attrs)
            lines = [ind + "#[typeshare]", at(t, ind) + ind + "pub struct TypeQ%s {" % tag, ind + "    pub always_q%s: u8," % tag,
                     at(fl, ind + "    ") + ind + "    pub field_q%s: u8," % tag, ind + "}",
                     ind + "#[typeshare]", ind + "pub enum EnumQ%s {" % tag, ind + "    PlainQ%s," % tag,
                     at(v, ind + "    ") + ind + "    VariantQ%s," % tag, ind + "}"]
            for w, gs in (("TypeQ", [t]), ("always_q", [t]), ("field_q", [t, fl]), ("EnumQ", []), ("PlainQ", []), ("VariantQ", [v])):
                want[w + tag] = all(rule(g, tos) for g in gs)
                guards[w + tag] = ("own cfg: %s; enclosing modules: %s" % (" / ".join(" ".join(render_attr(a) for a in g) for g in gs if g) or "none",
                                                                        " > ".join(chain) or "none"))
            has_os = any(names(x) for g in (t,) for a in g for x in a[3])
            check.count("cli-marker-type-%s-own-target_os" % ("with" if has_os else "without"))
            return lines

        def module(ind, depth, chain, name):
            gattrs = mod_guard(rng) if rng.random() < 0.75 else []
            inner = bool(gattrs) and rng.random() < 0.15
            verdict = rule([a for a in gattrs if a[1] == ["cfg"]], tos)
            check.count("cli-module-depth-%d" % depth)
            check.count("cli-module-%s" % ("unguarded" if not gattrs else "no-targets" if not tos else "accepting" if verdict else "rejecting"))
            here = chain + ["%s mod %s" % (" ".join(render_attr(a, inner=inner) for a in gattrs) or "(no cfg)", name)]
            lines = [] if inner else [ind + render_attr(a) for a in gattrs]
            lines.append(ind + "pub mod %s {" % name)
            if inner:
                lines += [ind + "    " + render_attr(a, inner=True) for a in gattrs]
            for j in range(rng.randint(1, 2)):
                if depth < 3 and rng.random() < 0.5:
                    lines += module(ind + "    ", depth + 1, here, "%s_%d" % (name, j))
                else:
                    lines += marker(ind + "    ", here)
            lines.append(ind + "}")
            return lines

        for fi in range(nfiles):
            lines = []
            if fi == 0 and nfiles > 1 and rng.random() < 0.5:
                # an out-of-line module declaration with a guard: the file it names is a file of the crate like any other
                lines += [render_attr(a) for a in mod_guard(rng)] + ["pub mod f1;"]
                check.count("cli-guarded-out-of-line-declaration")
            if rng.random() < 0.5:
                lines += marker("", [])
            for j in range(rng.randint(1, 2)):
                lines += module("", 1, [], "m%d_%d" % (fi, j))
            files["p/src/%s.rs" % ("lib" if fi == 0 else "f%d" % fi)] = "\n".join(lines) + "\n"
        opts = ["--lang", "typescript", "-o", "o.ts", "p"] + (["--target-os"] + tos if tos else [])
        with Scratch() as sc:
            for rel, text in files.items():
                sc.write(rel, text)
            r = run_cli(["--lang", "typescript", "-o", sc.path("o.ts"), sc.path("p")] + (["--target-os"] + tos if tos else []), cwd=sc.dir,
                        timeout=300)
            out = open(sc.path("o.ts")).read() if os.path.exists(sc.path("o.ts")) else ""
        words = set(re.findall(r"\w+", out))
        wrong = [w for w in sorted(want) if (w in words) != want[w]]
        check.saw(("mod-cli", k, tuple(tos)), nontrivial=bool(tos))
        check.count("cli-module-programs-with-%d-targets" % len(tos))
        check.count("cli-module-marked-positions", len(want))
        if r["rc"] != 0 or wrong:
            w = wrong[0] if wrong else None
            check.violation("typeshare %s on a program with cfg attributes on inline modules: %s"
                            % ("--target-os " + " ".join(tos) if tos else "without --target-os",
                               ("`%s` (%s) is %s, the documented rule says it is %s - a module is not an attachment level, an item is kept "
                                "iff its own levels accept; in all %d marked names differ: %s"
                                % (w, guards[w], "generated" if w in words else "left out", "generated" if want[w] else "left out", len(wrong), wrong))
                               if wrong else "the run failed (exit status %s)" % r["rc"]),
                            case={"files": files, "target_os": tos, "options": opts},
                            impl={"rc": r["rc"], "stderr": r["err"][-600:], "output": out}, failing_input=True)
            return


def module_cfg_part(check):
    """cfg(target_os ..) attributes on inline modules - which are *not* an attachment level of the rule - at nesting depth 1-3
    around annotated items with and without predicates of their own, under 0-3 target names: an item is kept iff the file's and
    its own attachment levels accept, whatever the enclosing modules say.  Through parser::parse (against the python reading of
    the rule, against the program without the module attributes, against the model) and through the binary."""
    for part in (module_level_part, module_cli_part):
        if not check.has_failing():
            part(check)


_run_l0 = run


def run(check):
    _run_l0(check)
    if not check.has_failing():
        module_cfg_part(check)
    if not check.has_failing():
        near_names_part(check)
    if not check.has_failing():
        level_part(check)
    check.rule += ("; cfg attributes on inline modules (not an attachment level): random programs with plain / not / any / all guards "
                   "on 70% of their modules at depth 1-3 around annotated items with and without cfg attributes of their own x 10 "
                   "target lists of 0-3 names through parser::parse (python reading of the rule, the twin without module "
                   "attributes, the model), and marker programs of 1-3 files through the binary's --target-os")
    check.rule += ("; nearly equal OS names (a base name and names that differ from it in letter case, by a prefix / suffix, by - _ . or "
                   "a blank inside, by surrounding blanks, by a trailing digit, the empty name, non-ASCII case / look-alike letters) in "
                   "the source and in the target list: all ordered pairs x 7 expression shapes and random expressions on "
                   "accept_target_os, random programs through parser::parse, marker programs through the binary's --target-os, each "
                   "judged by the rule with names compared as written")
    check.rule += ("; attachment levels: random programs with cfg attributes on the file, on types, on variants, on fields and on "
                   "struct-variant fields (45% of positions) x 6 target lists through parser::parse, checked against an independent "
                   "python reading of the documented rule, plus the --target-os option of the binary on a fixed program x 5 lists")
