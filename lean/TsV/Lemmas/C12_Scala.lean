import TsV.Lemmas.C12_Common
/-!
# C12, Scala: the unsigned aliases are used by `format_type` at any depth, and the alias block is
driven by a scan (`uses_unsigned`) that descends to any depth as well (since the `fix:` commit 37c1b68;
before, the scan looked one level deep and not under arrays / slices)
-/
namespace TsV.C12L.Scala
open TsV TsV.Lang TsV.Lang.Scala TsV.C12L

def isUnsignedPrim : Prim → Bool
  | .u8 | .u16 | .u32 | .u53 | .u64 | .usize => true
  | _ => false

mutual
  /-- does formatting `t` print one of `UByte` / `UShort` / `UInt` / `ULong`?  Follows `formatType`
  arm by arm (a type-mapped generic is replaced wholesale, its arguments are never formatted). -/
  def unsignedIn (cfg : Cfg) : RustType → Bool
    | .simple _ => false
    | .generic id ps => if (mapGet cfg.typeMappings id).isSome then false else unsignedInList cfg ps
    | .vec t | .array t _ | .slice t | .option t => unsignedIn cfg t
    | .hashMap k v => unsignedIn cfg k || unsignedIn cfg v
    | .prim p => isUnsignedPrim p
  def unsignedInList (cfg : Cfg) : List RustType → Bool
    | [] => false
    | t :: ts => unsignedIn cfg t || unsignedInList cfg ts
end

/-- the four alias names -/
def aliasNames : List Str := [s%"UByte", s%"UShort", s%"UInt", s%"ULong"]

/-! ### `unsignedIn` really is "the formatted string mentions an alias name" -/

mutual
  theorem formatType_mentions (cfg : Cfg) (gens : List Str) : ∀ (t : RustType) (s : Str),
      formatType cfg gens t = .ok s → unsignedIn cfg t = true → ∃ n ∈ aliasNames, n <:+: s
    | .simple id, s, _, hu => by simp [unsignedIn] at hu
    | .generic id ps, s, h, hu => by
      simp only [formatType] at h
      cases hm : mapGet cfg.typeMappings id with
      | some m => simp [unsignedIn, hm] at hu
      | none =>
        rw [hm] at h
        simp only [unsignedIn, hm, Option.isSome_none, Bool.false_eq_true, if_false] at hu
        simp only at h
        cases hps : formatTypes cfg gens ps with
        | ok strs =>
          rw [hps] at h
          simp only [Outcome.ok.injEq] at h
          obtain ⟨n, hn, x, hx, hi⟩ := formatTypes_mentions cfg gens ps strs hps hu
          refine ⟨n, hn, ?_⟩
          rw [← h]
          have hne : strs.isEmpty = false := by cases strs <;> simp_all
          simp only [hne, Bool.false_eq_true, if_false, bracket]
          have := infix_intercalate s%", " strs ⟨x, hx, hi⟩
          have := infix_mid (Option.getD none id ++ s%"[") s%"]" this
          simpa [List.append_assoc] using this
        | err e => rw [hps] at h; simp at h
        | panic e => rw [hps] at h; simp at h
    | .vec r, s, h, hu => by
      simp only [formatType, bind_ok_iff] at h
      obtain ⟨s1, h1, h2⟩ := h
      simp only [Outcome.ok.injEq] at h2
      obtain ⟨n, hn, hi⟩ := formatType_mentions cfg gens r s1 h1 (by simpa [unsignedIn] using hu)
      exact ⟨n, hn, by rw [← h2]; exact infix_mid _ _ hi⟩
    | .array r _, s, h, hu => by
      simp only [formatType, bind_ok_iff] at h
      obtain ⟨s1, h1, h2⟩ := h
      simp only [Outcome.ok.injEq] at h2
      obtain ⟨n, hn, hi⟩ := formatType_mentions cfg gens r s1 h1 (by simpa [unsignedIn] using hu)
      exact ⟨n, hn, by rw [← h2]; exact infix_mid _ _ hi⟩
    | .slice r, s, h, hu => by
      simp only [formatType, bind_ok_iff] at h
      obtain ⟨s1, h1, h2⟩ := h
      simp only [Outcome.ok.injEq] at h2
      obtain ⟨n, hn, hi⟩ := formatType_mentions cfg gens r s1 h1 (by simpa [unsignedIn] using hu)
      exact ⟨n, hn, by rw [← h2]; exact infix_mid _ _ hi⟩
    | .option r, s, h, hu => by
      simp only [formatType, bind_ok_iff] at h
      obtain ⟨s1, h1, h2⟩ := h
      simp only [Outcome.ok.injEq] at h2
      obtain ⟨n, hn, hi⟩ := formatType_mentions cfg gens r s1 h1 (by simpa [unsignedIn] using hu)
      exact ⟨n, hn, by rw [← h2]; exact infix_mid _ _ hi⟩
    | .hashMap k v, s, h, hu => by
      simp only [formatType, bind_ok_iff] at h
      obtain ⟨s1, h1, s2, h2, h3⟩ := h
      simp only [Outcome.ok.injEq] at h3
      simp only [unsignedIn, Bool.or_eq_true] at hu
      rcases hu with hu | hu
      · obtain ⟨n, hn, hi⟩ := formatType_mentions cfg gens k s1 h1 hu
        refine ⟨n, hn, ?_⟩
        rw [← h3]
        have := infix_mid s%"Map[" (s%", " ++ s2 ++ s%"]") hi
        simpa [List.append_assoc] using this
      · obtain ⟨n, hn, hi⟩ := formatType_mentions cfg gens v s2 h2 hu
        refine ⟨n, hn, ?_⟩
        rw [← h3]
        have := infix_mid (s%"Map[" ++ s1 ++ s%", ") s%"]" hi
        simpa [List.append_assoc] using this
    | .prim p, s, h, hu => by
      cases p <;> simp [unsignedIn, isUnsignedPrim] at hu <;>
        simp only [formatType, Outcome.ok.injEq] at h <;> subst h <;>
        simp [aliasNames, List.infix_refl]
  theorem formatTypes_mentions (cfg : Cfg) (gens : List Str) : ∀ (ts : List RustType) (ss : List Str),
      formatTypes cfg gens ts = .ok ss → unsignedInList cfg ts = true →
      ∃ n ∈ aliasNames, ∃ x ∈ ss, n <:+: x
    | [], ss, _, hu => by simp [unsignedInList] at hu
    | t :: ts, ss, h, hu => by
      simp only [formatTypes, bind_ok_iff] at h
      obtain ⟨s1, h1, ss2, h2, h3⟩ := h
      simp only [Outcome.ok.injEq] at h3
      simp only [unsignedInList, Bool.or_eq_true] at hu
      rcases hu with hu | hu
      · obtain ⟨n, hn, hi⟩ := formatType_mentions cfg gens t s1 h1 hu
        exact ⟨n, hn, s1, by simp [← h3], hi⟩
      · obtain ⟨n, hn, x, hx, hi⟩ := formatTypes_mentions cfg gens ts ss2 h2 hu
        exact ⟨n, hn, x, by simp [← h3, hx], hi⟩
end


/-! ## what one file formats, what the scan sees -/

/-- the type of a field when typeshare formats it (a `#[typeshare(scala(type = ".."))]` override is
the user's text and is not formatted) -/
def fieldFormatted (f : RustField) : List RustType :=
  match typeOverride f .scala with
  | some _ => []
  | none => [f.ty]

/-- the types `format_type` is called on while one enum is written: the fields of the classes
generated for its struct variants, and — for an algebraic enum — the tuple payloads -/
def enumFormatted (e : RustEnum) : List RustType :=
  (structVariants e).flatMap (fun p => p.2.flatMap fieldFormatted) ++
  (match e.keys with
   | none => []
   | some _ => e.variants.flatMap fun v => match v with
     | .tuple _ _ ty => [ty]
     | _ => [])

/-- every type tree `format_type` is called on while the file for `d` is generated -/
def formatted (d : ParsedData) : List RustType :=
  d.aliases.map (·.ty) ++ d.structs.flatMap (fun s => s.fields.flatMap fieldFormatted) ++
  d.enums.flatMap enumFormatted

/-- **helpersUsed (Scala)**: some formatted type prints an unsigned alias name -/
def used (cfg : Cfg) (d : ParsedData) : Bool := (formatted d).any (unsignedIn cfg)

theorem isUnsigned_prim (p : Prim) : isUnsigned (.prim p) = isUnsignedPrim p := by
  cases p <;> rfl

mutual
  /-- the scan finds every unsigned integer that formatting prints (it also enters the arguments
  of type-mapped generics, which are never formatted: the scan may say yes where nothing is used) -/
  theorem usesUnsigned_of_unsignedIn (cfg : Cfg) : ∀ t : RustType, unsignedIn cfg t = true → usesUnsigned t = true
    | .simple _, h => by simp [unsignedIn] at h
    | .generic id ps, h => by
      simp only [unsignedIn] at h
      split at h
      · cases h
      · simp only [usesUnsigned]; exact usesUnsignedList_of_unsignedInList cfg ps h
    | .vec t, h => by simp only [unsignedIn] at h; simp only [usesUnsigned]; exact usesUnsigned_of_unsignedIn cfg t h
    | .array t _, h => by simp only [unsignedIn] at h; simp only [usesUnsigned]; exact usesUnsigned_of_unsignedIn cfg t h
    | .slice t, h => by simp only [unsignedIn] at h; simp only [usesUnsigned]; exact usesUnsigned_of_unsignedIn cfg t h
    | .option t, h => by simp only [unsignedIn] at h; simp only [usesUnsigned]; exact usesUnsigned_of_unsignedIn cfg t h
    | .hashMap k v, h => by
      simp only [unsignedIn, Bool.or_eq_true] at h
      simp only [usesUnsigned, Bool.or_eq_true]
      exact h.imp (usesUnsigned_of_unsignedIn cfg k) (usesUnsigned_of_unsignedIn cfg v)
    | .prim p, h => by
      simp only [unsignedIn] at h
      simp only [usesUnsigned, isUnsigned_prim, h]
  theorem usesUnsignedList_of_unsignedInList (cfg : Cfg) : ∀ ts : List RustType,
      unsignedInList cfg ts = true → usesUnsignedList ts = true
    | [], h => by simp [unsignedInList] at h
    | t :: ts, h => by
      simp only [unsignedInList, Bool.or_eq_true] at h
      simp only [usesUnsignedList, Bool.or_eq_true]
      exact h.imp (usesUnsigned_of_unsignedIn cfg t) (usesUnsignedList_of_unsignedInList cfg ts)
end

theorem fieldFormatted_sub (f : RustField) : ∀ t ∈ fieldFormatted f, t = f.ty := by
  intro t ht
  unfold fieldFormatted at ht
  split at ht <;> simp_all

/-- everything that is formatted is also a starting point of the scan -/
theorem formatted_sub_scanned (d : ParsedData) : ∀ t ∈ formatted d, t ∈ scannedTypes d := by
  intro t ht
  simp only [formatted, List.mem_append, List.mem_map, List.mem_flatMap] at ht
  simp only [scannedTypes, List.mem_append, List.mem_map, List.mem_flatMap]
  rcases ht with (⟨a, ha, rfl⟩ | ⟨s, hs, f, hf, htf⟩) | ⟨e, he, hte⟩
  · exact Or.inl (Or.inl ⟨a, ha, rfl⟩)
  · exact Or.inl (Or.inr ⟨s, hs, f, hf, (fieldFormatted_sub f t htf).symm⟩)
  · refine Or.inr ⟨e, he, ?_⟩
    simp only [enumFormatted, List.mem_append, List.mem_flatMap] at hte
    rcases hte with ⟨p, hp, f, hf, htf⟩ | hte
    · simp only [structVariants, List.mem_filterMap] at hp
      obtain ⟨v, hv, hvp⟩ := hp
      refine ⟨v, hv, ?_⟩
      cases v with
      | unit i c => simp at hvp
      | tuple i c ty => simp at hvp
      | anonymousStruct i c fs =>
        simp only [Option.some.injEq] at hvp
        subst hvp
        simp only [List.mem_map]
        exact ⟨f, hf, (fieldFormatted_sub f t htf).symm⟩
    · cases hk : e.keys with
      | none => rw [hk] at hte; simp at hte
      | some k =>
        rw [hk] at hte
        simp only [List.mem_flatMap] at hte
        obtain ⟨v, hv, hvt⟩ := hte
        refine ⟨v, hv, ?_⟩
        cases v with
        | unit i c => simp at hvt
        | tuple i c ty => simpa using hvt
        | anonymousStruct i c fs => simp at hvt

/-- **helpersProvided (Scala)**, on the fact record of the file: the package object starts with the
alias block -/
def definesUnsigned (f : ScFile) : Bool :=
  match f.packageObject with
  | some (u, _) => u
  | none => false

/-- the alias block is written iff the scan says so -/
theorem fileFacts_defines (cfg : Cfg) (d : ParsedData) (f : ScFile) (h : fileFacts cfg d = .ok f) :
    definesUnsigned f = unsignedIntegerUsed d := by
  unfold fileFacts at h
  split at h
  · simp at h
  · split at h
    · simp at h
    · simp only [bind_ok_iff] at h
      obtain ⟨po, h1, pb, _, h3⟩ := h
      simp only [Outcome.ok.injEq] at h3
      subst h3
      simp only [definesUnsigned]
      split at h1
      · simp only [bind_ok_iff] at h1
        obtain ⟨as, _, h5⟩ := h1
        simp only [Outcome.ok.injEq] at h5
        subst h5
        rfl
      · rename_i hc
        simp only [Outcome.ok.injEq] at h1
        subst h1
        simp only [Bool.or_eq_true, not_or, Bool.not_eq_true] at hc
        simp [hc.1]

/-- … and when it is, the rendered file contains the four alias definitions -/
theorem renderFile_defines (f : ScFile) (h : definesUnsigned f = true) : unsignedAliases <:+: renderFile f := by
  unfold definesUnsigned at h
  unfold renderFile
  cases hp : f.packageObject with
  | none => simp [hp] at h
  | some p =>
    obtain ⟨u, as⟩ := p
    rw [hp] at h
    simp only at h
    subst h
    simp only [↓reduceIte]
    apply infix_mid
    exact ⟨s%"package object " ++ f.last ++ s%" {\n\n", (as.flatMap renderAlias) ++ s%"}\n", by
      simp only [List.append_assoc]⟩

/-! ## used ⇒ provided -/

/-- whenever some formatted type prints an unsigned alias, the scan says so -/
theorem used_provided (cfg : Cfg) (d : ParsedData) (hu : used cfg d = true) : unsignedIntegerUsed d = true := by
  simp only [used, List.any_eq_true] at hu
  obtain ⟨t, ht, htu⟩ := hu
  simp only [unsignedIntegerUsed, List.any_eq_true]
  exact ⟨t, formatted_sub_scanned d t ht, usesUnsigned_of_unsignedIn cfg t htu⟩

theorem unsignedInList_eq_any (cfg : Cfg) : ∀ ps : List RustType, unsignedInList cfg ps = ps.any (unsignedIn cfg)
  | [] => rfl
  | t :: ts => by simp [unsignedInList, unsignedInList_eq_any cfg ts]

theorem usesUnsignedList_eq_any : ∀ ps : List RustType, usesUnsignedList ps = ps.any usesUnsigned
  | [] => rfl
  | t :: ts => by simp [usesUnsignedList, usesUnsignedList_eq_any ts]

/-- without type mappings the scan and the formatter agree type by type: the scan is exact -/
theorem usesUnsigned_eq_unsignedIn (cfg : Cfg) (hm : cfg.typeMappings = []) :
    ∀ t : RustType, usesUnsigned t = unsignedIn cfg t := by
  have hg : ∀ id, (mapGet cfg.typeMappings id).isSome = false := by intro id; rw [hm]; rfl
  intro t
  cases h : unsignedIn cfg t with
  | true => exact usesUnsigned_of_unsignedIn cfg t h
  | false =>
    suffices hs : (∀ t, usesUnsigned t = true → unsignedIn cfg t = true) by
      cases h' : usesUnsigned t with
      | false => rfl
      | true => rw [hs t h'] at h; cases h
    intro t
    induction t using RustType.rec (motive_2 := fun ts => usesUnsignedList ts = true → unsignedInList cfg ts = true) with
    | simple id => simp [usesUnsigned]
    | generic id ps ih => simp only [usesUnsigned, unsignedIn, hg id, Bool.false_eq_true, if_false]; exact ih
    | vec t ih => simpa only [usesUnsigned, unsignedIn] using ih
    | array t n ih => simpa only [usesUnsigned, unsignedIn] using ih
    | slice t ih => simpa only [usesUnsigned, unsignedIn] using ih
    | option t ih => simpa only [usesUnsigned, unsignedIn] using ih
    | hashMap k v ihk ihv =>
      simp only [usesUnsigned, unsignedIn, Bool.or_eq_true]
      exact fun h => h.imp ihk ihv
    | prim p => simp only [usesUnsigned, unsignedIn, isUnsigned_prim]; exact id
    | nil => rename_i h; simp [usesUnsignedList] at h
    | cons t ts iht ihts =>
      rename_i h
      simp only [usesUnsignedList, Bool.or_eq_true] at h
      simp only [unsignedInList, Bool.or_eq_true]
      exact h.imp iht ihts

end TsV.C12L.Scala
