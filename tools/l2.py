"""L2 correspondence: parse -> reconcile -> generate_types in-process vs the Lean back-end models."""
from common import *
from syn_gen import *
from gen import Gen
import l1

VERSION = "1.13.2"


def lang_sx(lang, cfg):
    """the s-expression the driver's decodeLang expects; one clause per back end"""
    tm = [[k, v] for k, v in sorted(cfg.get("type_mappings", {}).items())]
    header = VERSION if cfg.get("version_header") else None
    if lang == "typescript":
        return [S("typescript"), tm, header]
    if lang == "kotlin":
        return [S("kotlin"), tm, header, cfg.get("package", ""), cfg.get("module_name", ""), cfg.get("prefix", "")]
    if lang == "swift":
        return [S("swift"), tm, header, cfg.get("prefix", ""), cfg.get("default_decorators", []),
                cfg.get("default_generic_constraints", []), cfg.get("codablevoid_constraints", [])]
    if lang == "scala":
        return [S("scala"), tm, header, cfg.get("package", ""), cfg.get("module_name", "")]
    if lang == "go":
        return [S("go"), tm, header, cfg.get("package", ""), cfg.get("uppercase_acronyms", []), bool(cfg.get("no_pointer_slice", False))]
    if lang == "python":
        return [S("python"), tm, header]
    raise ValueError(lang)


def requests(lang, cfg, files, gen, multi_file=False, target_os=()):
    """files: list of dict(crate, file_name, path, file(abstract)); returns (mreq, rreq, texts)"""
    texts = [render_file(f["file"]) for f in files]
    mreq = [S("generate"), lang_sx(lang, cfg), multi_file, list(target_os), gen.ext_sx(),
            [[f["crate"], f["file_name"], f["path"], sx_file(f["file"], t)] for f, t in zip(files, texts)]]
    rreq = {"op": "generate", "lang": lang, "config": cfg, "multi_file": multi_file, "target_os": list(target_os),
            "files": [{"src": t, "crate": f["crate"], "file_name": f["file_name"], "path": f["path"]} for f, t in zip(files, texts)]}
    return mreq, rreq, texts


def names_of(file):
    """identifiers and rename strings of an abstract file (for the convert_case table)"""
    out = set()

    def attrs(al):
        for a in al:
            if a[0] == "l" and a[1] == ["serde"] and a[2]:
                for x in a[3]:
                    if x[0] == "nv" and x[1] in (["rename"], ["tag"], ["content"]) and x[2] and x[2][0] == "s":
                        out.add(x[2][1].strip())

    def fields(fs):
        if fs[0] != "unit":
            for f in fs[1]:
                attrs(f["attrs"])
                if f["ident"]:
                    out.add(f["ident"].replace("r#", ""))

    def items(its):
        for it in its:
            k = it["kind"]
            if k in ("mod", "other"):
                items(it["items"])
                continue
            if k == "use":
                continue
            attrs(it.get("attrs", []))
            out.add(it["ident"])
            if k == "struct":
                fields(it["fields"])
            if k == "enum":
                for v in it["variants"]:
                    attrs(v["attrs"])
                    out.add(v["ident"])
                    fields(v["fields"])
    items(file["items"])
    return out


def norm(a):
    if "panic" in a:
        # compare the file a panic is raised in, not the line (lines move with unrelated edits)
        return {"panic": str(a["panic"]).split(":")[0]}
    if "io-err" in a:
        return {"err": "format"}
    if "err" in a and str(a["err"]).startswith("FormatError"):
        return {"err": "format"}
    return a


def text_diff(a, b):
    """first differing line of two texts"""
    la, lb = a.split("\n"), b.split("\n")
    for i, (x, y) in enumerate(zip(la, lb)):
        if x != y:
            return "line %d:\n  model: %r\n  impl : %r" % (i + 1, x, y)
    if len(la) != len(lb):
        return "length %d vs %d lines; extra: %r" % (len(la), len(lb), (la[len(lb):] or lb[len(la):])[:3])
    return None
