import TsV.Model.Outcome
namespace TsV.Outcome

theorem mapM'_ok_all {α β} (f : α → Outcome β) : ∀ (l : List α) (r : List β),
    mapM' f l = .ok r → ∀ x ∈ l, (f x).isOk = true := by
  intro l
  induction l with
  | nil => intro r _ x hx; simp at hx
  | cons a t ih =>
    intro r h x hx
    simp only [mapM'] at h
    cases hfa : f a with
    | ok b =>
      rw [hfa] at h
      cases ht : mapM' f t with
      | ok bs =>
        simp only [List.mem_cons] at hx
        rcases hx with rfl | hx
        · simp [hfa, isOk]
        · exact ih bs ht x hx
      | err e => rw [ht] at h; simp at h
      | panic s => rw [ht] at h; simp at h
    | err e => rw [hfa] at h; simp at h
    | panic s => rw [hfa] at h; simp at h

theorem mapM'_ok_length {α β} (f : α → Outcome β) : ∀ (l : List α) (r : List β),
    mapM' f l = .ok r → r.length = l.length := by
  intro l
  induction l with
  | nil => intro r h; simp [mapM'] at h; subst h; rfl
  | cons a t ih =>
    intro r h
    simp only [mapM'] at h
    cases hfa : f a with
    | ok b =>
      rw [hfa] at h
      cases ht : mapM' f t with
      | ok bs => rw [ht] at h; simp at h; subst h; simp [ih bs ht]
      | err e => rw [ht] at h; simp at h
      | panic s => rw [ht] at h; simp at h
    | err e => rw [hfa] at h; simp at h
    | panic s => rw [hfa] at h; simp at h

/-- element-wise description of a successful `mapM'` -/
theorem mapM'_ok_forall₂ {α β} (f : α → Outcome β) : ∀ (l : List α) (r : List β),
    mapM' f l = .ok r → ∀ i (hi : i < l.length) (hr : i < r.length), f l[i] = .ok r[i] := by
  intro l
  induction l with
  | nil => intro r _ i hi; simp at hi
  | cons a t ih =>
    intro r h i hi hr
    simp only [mapM'] at h
    cases hfa : f a with
    | ok b =>
      rw [hfa] at h
      cases ht : mapM' f t with
      | ok bs =>
        rw [ht] at h; simp at h; subst h
        cases i with
        | zero => simpa using hfa
        | succ j => simpa using ih bs ht j (by simpa using hi) (by simpa using hr)
      | err e => rw [ht] at h; simp at h
      | panic s => rw [ht] at h; simp at h
    | err e => rw [hfa] at h; simp at h
    | panic s => rw [hfa] at h; simp at h

theorem isOk_iff {α} (o : Outcome α) : o.isOk = true ↔ ∃ a, o = .ok a := by
  cases o <;> simp [isOk]

end TsV.Outcome

namespace TsV.Outcome

/-- no-panic predicate -/
def NP {α} (o : Outcome α) : Prop := o.isPanic = false

@[simp] theorem np_ok {α} (a : α) : NP (ok a) := rfl
@[simp] theorem np_pure {α} (a : α) : NP (pure a : Outcome α) := rfl
@[simp] theorem np_err {α} (e) : NP (err e : Outcome α) := rfl

theorem np_bind {α β} (x : Outcome α) (f : α → Outcome β) (hx : NP x) (hf : ∀ a, NP (f a)) :
    NP (x.bind f) := by
  cases x with
  | ok a => exact hf a
  | err e => rfl
  | panic s => simp [NP, isPanic] at hx

theorem np_bind' {α β} (x : Outcome α) (f : α → Outcome β) (hx : NP x) (hf : ∀ a, NP (f a)) :
    NP (x >>= f) := np_bind x f hx hf

theorem np_ite {α} (c : Prop) [Decidable c] (a b : Outcome α) (ha : NP a) (hb : NP b) :
    NP (if c then a else b) := by split <;> assumption

theorem mapM'_np {α β} (f : α → Outcome β) (hf : ∀ a, NP (f a)) : ∀ l : List α, NP (mapM' f l)
  | [] => rfl
  | a :: as => by
    have h1 := hf a
    have h2 := mapM'_np f hf as
    simp only [mapM']
    cases ha : f a with
    | ok b =>
      cases hl : mapM' f as with
      | ok bs => rfl
      | err e => rfl
      | panic s => rw [hl] at h2; simp [NP, isPanic] at h2
    | err e => rfl
    | panic s => rw [ha] at h1; simp [NP, isPanic] at h1

theorem bind_isOk_false {α β} (x : Outcome α) (f : α → Outcome β) (h : x.isOk = false) :
    (x.bind f).isOk = false := by
  cases x <;> simp_all [isOk, bind]

theorem bind_isOk_false' {α β} (x : Outcome α) (f : α → Outcome β) (h : x.isOk = false) :
    (x >>= f).isOk = false := bind_isOk_false x f h

theorem bind_isOk_false_right {α β} (x : Outcome α) (f : α → Outcome β) (h : ∀ a, (f a).isOk = false) :
    (x >>= f).isOk = false := by
  cases x with
  | ok a => exact h a
  | err e => rfl
  | panic s => rfl

theorem bind_eq_ok {α β} (x : Outcome α) (f : α → Outcome β) (b : β) :
    (x >>= f) = ok b ↔ ∃ a, x = ok a ∧ f a = ok b := by
  cases x with
  | ok a => exact ⟨fun h => ⟨a, rfl, h⟩, fun ⟨a', h1, h2⟩ => by cases h1; exact h2⟩
  | err e =>
    constructor
    · intro h; cases h
    · rintro ⟨a', h1, _⟩; cases h1
  | panic s =>
    constructor
    · intro h; cases h
    · rintro ⟨a', h1, _⟩; cases h1

end TsV.Outcome

namespace TsV.Outcome

/-- a successful `mapM'` maps element-wise: any projection that `f` preserves is preserved list-wise -/
theorem mapM'_map {α β γ} (f : α → Outcome β) (P : β → γ) (Q : α → γ)
    (h : ∀ a b, f a = ok b → P b = Q a) : ∀ (l : List α) (r : List β),
    mapM' f l = ok r → r.map P = l.map Q := by
  intro l
  induction l with
  | nil => intro r hr; simp [mapM'] at hr; subst hr; rfl
  | cons a t ih =>
    intro r hr
    simp only [mapM'] at hr
    cases hfa : f a with
    | ok b =>
      rw [hfa] at hr
      cases ht : mapM' f t with
      | ok bs =>
        rw [ht] at hr; simp at hr; subst hr
        simp [h a b hfa, ih bs ht]
      | err e => rw [ht] at hr; simp at hr
      | panic s => rw [ht] at hr; simp at hr
    | err e => rw [hfa] at hr; simp at hr
    | panic s => rw [hfa] at hr; simp at hr

end TsV.Outcome
