import TsV.Lemmas.Order
/-!
# C07_SortOrder, lemmas — the three-way comparison behind `Vec::sort` / `sort_by` in `reconcile_aliases`

`String: Ord` is the code-point lexicographic order (`Str.lt`); `cmpStr` is its `Ordering`-valued form, and
`itemCmp key` what `Ord for RustStruct / RustEnum / RustTypeAlias` and the closure of the consts' `sort_by`
compute: the comparison of the *keys* of the two items.  The lemmas are the clauses of the contract of
`Ord` (std: "total order"): reflexive, `cmp b a = (cmp a b).reverse()`, transitive for `<`, `==`, `>` and the
mixed cases; and the link to the Boolean `Str.le` the model's `sortBy` is written with.
-/
namespace TsV.C07_SortOrder
open TsV

/-- `String::cmp` -/
def cmpStr (a b : Str) : Ordering :=
  if Str.lt a b then .lt else if Str.lt b a then .gt else .eq

/-- `self.id.original.cmp(&other.id.original)` for any way of reading the key off an item -/
def itemCmp {α} (key : α → Str) (a b : α) : Ordering := cmpStr (key a) (key b)

theorem cmpStr_refl (a : Str) : cmpStr a a = .eq := by simp [cmpStr, Order.lt_irrefl]

theorem cmpStr_lt {a b : Str} : cmpStr a b = .lt ↔ Str.lt a b = true := by
  unfold cmpStr
  cases h : Str.lt a b <;> cases h' : Str.lt b a <;> simp

theorem cmpStr_gt {a b : Str} : cmpStr a b = .gt ↔ Str.lt b a = true := by
  unfold cmpStr
  cases h : Str.lt a b with
  | false => cases h' : Str.lt b a <;> simp
  | true => simp [Order.lt_asymm a b h]

theorem cmpStr_eq {a b : Str} : cmpStr a b = .eq ↔ a = b := by
  constructor
  · intro h
    unfold cmpStr at h
    cases h1 : Str.lt a b with
    | true => simp [h1] at h
    | false =>
      cases h2 : Str.lt b a with
      | true => simp [h1, h2] at h
      | false => exact Order.eq_of_not_lt a b h1 h2
  · rintro rfl; exact cmpStr_refl a

theorem cmpStr_swap (a b : Str) : cmpStr b a = (cmpStr a b).swap := by
  unfold cmpStr
  cases h : Str.lt a b with
  | true => simp [Order.lt_asymm a b h, Ordering.swap]
  | false => cases h' : Str.lt b a <;> simp [Ordering.swap]

/-- the model's Boolean comparison is "not greater" -/
theorem le_iff_cmp (a b : Str) : Str.le a b = true ↔ cmpStr a b ≠ .gt := by
  rw [Ne, cmpStr_gt]
  simp [Str.le]

theorem cmpStr_trans_lt {a b c : Str} (h1 : cmpStr a b = .lt) (h2 : cmpStr b c = .lt) : cmpStr a c = .lt :=
  cmpStr_lt.2 (Order.lt_trans a b c (cmpStr_lt.1 h1) (cmpStr_lt.1 h2))

theorem cmpStr_trans_gt {a b c : Str} (h1 : cmpStr a b = .gt) (h2 : cmpStr b c = .gt) : cmpStr a c = .gt :=
  cmpStr_gt.2 (Order.lt_trans c b a (cmpStr_gt.1 h2) (cmpStr_gt.1 h1))

theorem cmpStr_trans_eq {a b c : Str} (h1 : cmpStr a b = .eq) (h2 : cmpStr b c = .eq) : cmpStr a c = .eq :=
  cmpStr_eq.2 ((cmpStr_eq.1 h1).trans (cmpStr_eq.1 h2))

/-- `a == b` may be exchanged on either side of a comparison -/
theorem cmpStr_congr_left {a b : Str} (h : cmpStr a b = .eq) (c : Str) : cmpStr a c = cmpStr b c := by
  rw [cmpStr_eq.1 h]

theorem cmpStr_congr_right {a b : Str} (h : cmpStr a b = .eq) (c : Str) : cmpStr c a = cmpStr c b := by
  rw [cmpStr_eq.1 h]

end TsV.C07_SortOrder
