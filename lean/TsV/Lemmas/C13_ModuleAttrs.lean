import TsV.Lemmas.C13_Pruned
/-!
# C13 / C03 — the attributes of an inline module: lemmas

The abstract AST *does* record the attribute list of an inline module (`Item.mod attrs ident items`), and the
visitor looks at it in exactly one way: `visit_item_mod` is not overridden (the override is commented out in
`core/src/visitors.rs`), so `syn::visit::visit_item_mod` walks the attributes' paths (`visit_path`: a
possible import, folder mode only) and then the items.  `stripItem` blanks the attribute list of every
inline module, at every depth (also inside function bodies, `Item.other`); two files with the same
`strip` differ only in the attribute lists of their inline modules.
-/
namespace TsV.C13MA
open TsV TsV.Syn TsV.Parser TsV.Visitor TsV.C13P

mutual
  /-- every inline module (at any depth, also inside function bodies) loses its attributes -/
  def stripItem : Item → Item
    | .struct a i g fs => .struct a i g fs
    | .enum a i g vs => .enum a i g vs
    | .alias a i g t => .alias a i g t
    | .const a i t l => .const a i t l
    | .use t => .use t
    | .mod _ i items => .mod [] i (stripItems items)
    | .other p items => .other p (stripItems items)
  def stripItems : List Item → List Item
    | [] => []
    | i :: is => stripItem i :: stripItems is
end

/-- `f'` is `f` with the attribute lists of inline modules (any of them, at any depth) replaced by any other
lists: same inner attributes, same marker, and the same items once module attributes are blanked -/
def SameButModAttrs (f f' : File) : Prop :=
  f'.attrs = f.attrs ∧ f'.marker = f.marker ∧ stripItems f'.items = stripItems f.items

/-! ## `Agree` is an equivalence -/

theorem agree_symm {ctx : ParseContext} {a b : ParsedData} (h : Agree ctx a b) : Agree ctx b a :=
  ⟨h.1.symm, fun hf => (h.2 hf).symm⟩

theorem agree_trans {ctx : ParseContext} {a b c : ParsedData} (h : Agree ctx a b) (h' : Agree ctx b c) :
    Agree ctx a c :=
  ⟨h.1.trans h'.1, fun hf => (h.2 hf).trans (h'.2 hf)⟩

theorem agreeO_symm {ctx : ParseContext} {x y : Outcome ParsedData} (h : AgreeO ctx x y) : AgreeO ctx y x := by
  cases x <;> cases y <;> simp only [AgreeO] at h ⊢ <;> first | exact agree_symm h | exact h.symm | exact h.elim

theorem agreeO_trans {ctx : ParseContext} {x y z : Outcome ParsedData} (h : AgreeO ctx x y)
    (h' : AgreeO ctx y z) : AgreeO ctx x z := by
  cases x <;> cases y <;> cases z <;> simp only [AgreeO] at h h' ⊢ <;>
    first | exact agree_trans h h' | exact h.trans h' | exact h.elim | exact h'.elim

/-! ## the visitor cannot tell a file from its stripped form, except in the raw import set -/

theorem agree_use (E : Ext) (ctx : ParseContext) (fp : Str) (t : UseTree) (a b : ParsedData)
    (h : Agree ctx a b) : AgreeO ctx (visitItem E ctx fp a (.use t)) (visitItem E ctx fp b (.use t)) := by
  simp only [visitItem]
  cases hm : ctx.multiFile with
  | false => simpa [AgreeO] using h
  | true =>
    simp only [if_true]
    exact ⟨by simpa [forget_addImports] using h.1, fun hf => by simp [hm] at hf⟩

mutual
  theorem visitItem_strip (E : Ext) (ctx : ParseContext) (fp : Str) : ∀ (it : Item) (a b : ParsedData),
      Agree ctx a b → AgreeO ctx (visitItem E ctx fp a it) (visitItem E ctx fp b (stripItem it))
    | .struct at' i g fs, a, b, h => by
      simp only [stripItem, visitItem]
      exact agree_collectThenPaths E ctx fp a b at' _ _ _ h
    | .enum at' i g vs, a, b, h => by
      simp only [stripItem, visitItem]
      exact agree_collectThenPaths E ctx fp a b at' _ _ _ h
    | .alias at' i g t, a, b, h => by
      simp only [stripItem, visitItem]
      exact agree_collectThenPaths E ctx fp a b at' _ _ _ h
    | .const at' i t l, a, b, h => by
      simp only [stripItem, visitItem]
      exact agree_collectThenPaths E ctx fp a b at' _ _ _ h
    | .use t, a, b, h => by
      simp only [stripItem]
      exact agree_use E ctx fp t a b h
    | .mod at' i items, a, b, h => by
      simp only [stripItem, visitItem]
      exact visitItems_strip E ctx fp items _ _ (agree_addPaths E ctx a b _ _ h)
    | .other p items, a, b, h => by
      simp only [stripItem, visitItem]
      exact visitItems_strip E ctx fp items _ _ (agree_addPaths E ctx a b _ _ h)
  theorem visitItems_strip (E : Ext) (ctx : ParseContext) (fp : Str) : ∀ (items : List Item) (a b : ParsedData),
      Agree ctx a b → AgreeO ctx (visitItems E ctx fp a items) (visitItems E ctx fp b (stripItems items))
    | [], a, b, h => by simpa [stripItems, visitItems, AgreeO] using h
    | i :: is, a, b, h => by
      simp only [stripItems, visitItems]
      exact AgreeO.bind (visitItem_strip E ctx fp i a b h) fun a' b' h' => visitItems_strip E ctx fp is a' b' h'
end

/-- two item lists with the same stripped form are visited alike -/
theorem visitItems_same (E : Ext) (ctx : ParseContext) (fp : Str) (l l' : List Item) (d : ParsedData)
    (h : stripItems l' = stripItems l) :
    AgreeO ctx (visitItems E ctx fp d l) (visitItems E ctx fp d l') := by
  have h1 := visitItems_strip E ctx fp l d d (Agree.refl ctx d)
  have h2 := visitItems_strip E ctx fp l' d d (Agree.refl ctx d)
  rw [h] at h2
  exact agreeO_trans h1 (agreeO_symm h2)

/-! ## attribute lists whose paths are single identifiers record no import at all -/

/-- every attribute's path is a single identifier (`cfg`, `cfg_attr`, `doc`, `path`, `allow`, `typeshare`,
`serde`, …) — or empty -/
def plain (attrs : List Attr) : Bool := attrs.all fun a => decide (a.val.segs.length ≤ 1)

theorem importOfPath_short (E : Ext) (ctx : ParseContext) (cn : Str) (p : List Str) (h : p.length ≤ 1) :
    importOfPath E ctx cn p = none := by
  match p, h with
  | [], _ => rfl
  | [x], _ => simp [importOfPath]

theorem addPaths_plain (E : Ext) (ctx : ParseContext) (d : ParsedData) (attrs : List Attr)
    (h : plain attrs = true) : addPaths E ctx d (attrPaths attrs) = d := by
  unfold addPaths
  split
  · have : (attrPaths attrs).filterMap (importOfPath E ctx d.crateName) = [] := by
      rw [List.filterMap_eq_nil_iff]
      intro p hp
      simp only [attrPaths, List.mem_map] at hp
      obtain ⟨a, ha, rfl⟩ := hp
      simp only [plain, List.all_eq_true, decide_eq_true_eq] at h
      exact importOfPath_short E ctx _ _ (h a ha)
    rw [this]
    rfl
  · rfl

mutual
  /-- every inline module (at any depth) carries plain attributes only -/
  def modsPlain : Item → Bool
    | .struct _ _ _ _ | .enum _ _ _ _ | .alias _ _ _ _ | .const _ _ _ _ => true
    | .use _ => true
    | .mod a _ items => plain a && modsPlainList items
    | .other _ items => modsPlainList items
  def modsPlainList : List Item → Bool
    | [] => true
    | i :: is => modsPlain i && modsPlainList is
end

mutual
  theorem visitItem_strip_plain (E : Ext) (ctx : ParseContext) (fp : Str) : ∀ (it : Item) (d : ParsedData),
      modsPlain it = true → visitItem E ctx fp d (stripItem it) = visitItem E ctx fp d it
    | .struct .., _, _ => rfl
    | .enum .., _, _ => rfl
    | .alias .., _, _ => rfl
    | .const .., _, _ => rfl
    | .use _, _, _ => rfl
    | .mod at' i items, d, h => by
      simp only [modsPlain, Bool.and_eq_true] at h
      simp only [stripItem, visitItem, addPaths_plain E ctx d at' h.1, addPaths_plain E ctx d [] rfl]
      exact visitItems_strip_plain E ctx fp items d h.2
    | .other p items, d, h => by
      simp only [modsPlain] at h
      simp only [stripItem, visitItem]
      exact visitItems_strip_plain E ctx fp items _ h
  theorem visitItems_strip_plain (E : Ext) (ctx : ParseContext) (fp : Str) : ∀ (items : List Item) (d : ParsedData),
      modsPlainList items = true → visitItems E ctx fp d (stripItems items) = visitItems E ctx fp d items
    | [], _, _ => rfl
    | i :: is, d, h => by
      simp only [modsPlainList, Bool.and_eq_true] at h
      simp only [stripItems, visitItems, visitItem_strip_plain E ctx fp i d h.1]
      congr 1
      funext d'
      exact visitItems_strip_plain E ctx fp is d' h.2
end

/-! ## annotated items are not touched -/

mutual
  theorem noAnnotated_strip : ∀ it : Item, noAnnotated (stripItem it) = noAnnotated it
    | .struct .. => rfl
    | .enum .. => rfl
    | .alias .. => rfl
    | .const .. => rfl
    | .use _ => rfl
    | .mod _ _ items => by simp only [stripItem, noAnnotated]; exact noAnnotatedList_strip items
    | .other _ items => by simp only [stripItem, noAnnotated]; exact noAnnotatedList_strip items
  theorem noAnnotatedList_strip : ∀ items : List Item, noAnnotatedList (stripItems items) = noAnnotatedList items
    | [] => rfl
    | i :: is => by simp only [stripItems, noAnnotatedList, noAnnotated_strip i, noAnnotatedList_strip is]
end

/-! a way to produce such an `f'`: rewrite the attribute list of every module by any function of the
module's name, its depth and its old attributes -/
mutual
  def reattrItem (g : Nat → Str → List Attr → List Attr) (depth : Nat) : Item → Item
    | .struct a i gs fs => .struct a i gs fs
    | .enum a i gs vs => .enum a i gs vs
    | .alias a i gs t => .alias a i gs t
    | .const a i t l => .const a i t l
    | .use t => .use t
    | .mod a i items => .mod (g depth i a) i (reattrItems g (depth + 1) items)
    | .other p items => .other p (reattrItems g depth items)
  def reattrItems (g : Nat → Str → List Attr → List Attr) (depth : Nat) : List Item → List Item
    | [] => []
    | i :: is => reattrItem g depth i :: reattrItems g depth is
end

mutual
  theorem strip_reattrItem (g : Nat → Str → List Attr → List Attr) : ∀ (depth : Nat) (it : Item),
      stripItem (reattrItem g depth it) = stripItem it
    | _, .struct .. => rfl
    | _, .enum .. => rfl
    | _, .alias .. => rfl
    | _, .const .. => rfl
    | _, .use _ => rfl
    | n, .mod _ _ items => by simp only [reattrItem, stripItem, strip_reattrItems g (n + 1) items]
    | n, .other _ items => by simp only [reattrItem, stripItem, strip_reattrItems g n items]
  theorem strip_reattrItems (g : Nat → Str → List Attr → List Attr) : ∀ (depth : Nat) (items : List Item),
      stripItems (reattrItems g depth items) = stripItems items
    | _, [] => rfl
    | n, i :: is => by simp only [reattrItems, stripItems, strip_reattrItem g n i, strip_reattrItems g n is]
end

end TsV.C13MA
