"""C05 — type expressions translate structurally, losslessly and honour type mappings.

Level 0/1: `Language::format_type` on `ty.parse::<RustType>()` (runner op `format_type`) against the
Lean model's `tryFrom` + `formatType` (driver request `format-type`), byte-exact, over exhaustively
enumerated and random type trees; the oracle parses the implementation's target type expression back
into a tree with a tiny per-language parser and compares it with the tree the property demands
(python `expected`, an independent reading of the property) under the trusted capacity table.
Level 2: the use sites (field, newtype payload, alias target, const type) through whole programs.
"""
import itertools, re
from common import *
from syn_gen import *
from gen import Gen
import l2

NEEDS = ("runner", "cli")
TRUSTED = ["tools/c05.py: `expected` (the property's reading of a Rust type: which target tree it demands), the six "
           "target-expression parsers, and `TINFO` (JSON category / value range of each target primitive type, the python "
           "copy of TsV.C05L.tinfo)",
           "TsV.C05L.tinfo / jsonCat / primRange / primMant (Lean): what each target type name can hold and how serde "
           "writes each Rust primitive",
           "tools/c05.py: the precedence rule the effective settings of a command line are computed by (an option, also an empty one, "
           "wins over the key of typeshare.toml, which wins over the empty default; type_mappings / no_pointer_slice come from the "
           "section of the language that is generated), cross-checked against TsV Config.overrideConfiguration on every run"]

SMART = ["Box", "Weak", "Arc", "Rc", "Cow", "ArcWeak", "RcWeak", "Cell", "Mutex", "RefCell", "RwLock"]
PRIM_OF = {"OffsetDateTime": "OffsetDateTime", "str": "String", "String": "String", "bool": "bool", "char": "char",
           "u8": "u8", "u16": "u16", "u32": "u32", "U53": "U53", "i8": "i8", "i16": "i16", "i32": "i32", "I54": "I54",
           "f32": "f32", "f64": "f64"}
PRIMS15 = ["OffsetDateTime", "()", "String", "char", "bool", "i8", "i16", "i32", "I54", "u8", "u16", "u32", "U53", "f32", "f64"]
UNSUPPORTED64 = ["u64", "i64", "usize", "isize"]
USES_DISPLAY = {"typescript", "go", "python"}
PREFIXES = {"kotlin", "swift"}
HAS_FIXED = {"typescript", "go"}
KEY_FORBIDDEN = {"typescript", "python"}


# ------------------------------------------------------------------ the property's reading of a Rust type

class Unsupported(Exception):
    def __init__(self, kind):
        self.kind = kind


def to_rust(t):
    """syn type -> Rust-side tree with references, serde-transparent wrappers and path qualification erased"""
    k = t[0]
    if k == "tuple":
        if t[1]:
            raise Unsupported("UnexpectedParameterizedTuple")
        return ("prim", "()")
    if k == "ref":
        return to_rust(t[1])
    if k == "array":
        inner = to_rust(t[1])
        return ("array", inner, t[2])
    if k == "slice":
        return ("slice", to_rust(t[1]))
    if k == "other":
        raise Unsupported("UnexpectedToken")
    _, _quals, last, args, _lt = t
    ps = [to_rust(a) for a in args]
    if last == "Vec":
        if not ps:
            raise Unsupported("UnsupportedType")
        return ("vec", ps[0])
    if last == "Option":
        if not ps:
            raise Unsupported("UnsupportedType")
        return ("option", ps[0])
    if last == "HashMap":
        if len(ps) < 2:
            raise Unsupported("UnsupportedType")
        return ("map", ps[0], ps[1])
    if last in SMART:
        if not ps:
            raise Unsupported("UnsupportedType")
        return ps[0]
    if last in UNSUPPORTED64:
        raise Unsupported("UnsupportedType")
    if last in PRIM_OF:
        return ("prim", PRIM_OF[last])
    return ("generic", last, ps) if ps else ("simple", last)


def rid(r):
    k = r[0]
    return {"vec": "Vec", "array": "[]", "slice": "&[]", "map": "HashMap", "option": "Option"}.get(k) or r[1]


def display(r):
    """the name a type is looked up by in type_mappings (`impl Display for RustType`)"""
    k = r[0]
    if k in ("simple", "prim"):
        return r[1]
    if k == "generic":
        return "%s<%s>" % (r[1], ", ".join(display(p) for p in r[2])) if r[2] else r[1]
    if k == "vec":
        return "Vec<%s>" % display(r[1])
    if k == "array":
        return "[%s]" % display(r[1])
    if k == "slice":
        return "&[%s]" % display(r[1])
    if k == "map":
        return "HashMap<%s,%s>" % (display(r[1]), display(r[2]))
    if k == "option":
        return "Option<%s>" % rid(r[1])
    raise ValueError(r)


def lookup_key(lang, r):
    if r[0] in ("simple", "generic"):
        return r[1]
    return display(r) if lang in USES_DISPLAY else None


def expected(lang, cfg, gens, r):
    """the target tree the property demands; raises Unsupported(kind) where the back end must refuse"""
    tm = cfg.get("type_mappings", {})
    key = lookup_key(lang, r)
    if key is not None and key in tm:
        return ("mapped", tm[key])
    k = r[0]
    rec = lambda x: expected(lang, cfg, gens, x)
    pfx = cfg.get("prefix", "") if lang in PREFIXES else ""
    if k == "simple":
        return ("param", r[1]) if r[1] in gens else ("user", pfx + r[1], [])
    if k == "generic":
        name = r[1] if r[1] in gens else pfx + r[1]
        return ("user", name, [rec(p) for p in r[2]])
    if k in ("vec", "slice"):
        return ("seq", rec(r[1]))
    if k == "array":
        return ("fixed", rec(r[1]), r[2]) if lang in HAS_FIXED else ("seq", rec(r[1]))
    if k == "option":
        inner = rec(r[1])
        if lang == "typescript" or (lang == "go" and r[1][0] == "vec" and cfg.get("no_pointer_slice")):
            return inner          # optionality is expressed above the type level (C04) / a nil slice
        return ("opt", inner)
    if k == "map":
        if lang in KEY_FORBIDDEN and r[1][0] == "simple" and r[1][1] in gens:
            raise Unsupported("GenericKeyForbiddenInTS")
        return ("map", rec(r[1]), rec(r[2]))
    if k == "prim":
        if r[1] == "OffsetDateTime" and lang in ("kotlin", "swift", "scala"):
            raise Unsupported("UnsupportedSpecialType")
        return ("prim", r[1])
    raise ValueError(r)


# ------------------------------------------------------------------ trusted capacity table (copy of TsV.C05L.tinfo)

I8, I16, I32, I64 = (-2**7, 2**7 - 1), (-2**15, 2**15 - 1), (-2**31, 2**31 - 1), (-2**63, 2**63 - 1)
U8, U16, U32, U64 = (0, 2**8 - 1), (0, 2**16 - 1), (0, 2**32 - 1), (0, 2**64 - 1)
SAFE = 2**53 - 1


def ti(lo_hi):
    return dict(cats={"integer"}, lo=lo_hi[0], hi=lo_hi[1], mant=0)


def tf(m):
    return dict(cats={"float"}, lo=None, hi=None, mant=m)


def tc(c):
    return dict(cats={c}, lo=None, hi=None, mant=0)


TINFO = {
    "typescript": {"number": dict(cats={"integer", "float"}, lo=-SAFE, hi=SAFE, mant=53), "string": tc("string"),
                   "boolean": tc("bool"), "undefined": tc("unit"), "Date": tc("string")},
    "kotlin": {"Byte": ti(I8), "Short": ti(I16), "Int": ti(I32), "Long": ti(I64), "UByte": ti(U8), "UShort": ti(U16),
               "UInt": ti(U32), "ULong": ti(U64), "Float": tf(24), "Double": tf(53), "String": tc("string"),
               "Boolean": tc("bool"), "Unit": tc("unit")},
    "swift": {"Int8": ti(I8), "Int16": ti(I16), "Int32": ti(I32), "Int64": ti(I64), "UInt8": ti(U8), "UInt16": ti(U16),
              "UInt32": ti(U32), "UInt64": ti(U64), "Float": tf(24), "Double": tf(53), "String": tc("string"),
              "Unicode.Scalar": tc("string"), "Bool": tc("bool"), "CodableVoid": tc("unit")},
    # Scala's unsigned names are what typeshare's own alias block makes them: UByte = Byte, UShort = Short, UInt = Int, ULong = Int
    "scala": {"Byte": ti(I8), "Short": ti(I16), "Int": ti(I32), "Long": ti(I64), "UByte": ti(I8), "UShort": ti(I16),
              "UInt": ti(I32), "ULong": ti(I32), "Float": tf(24), "Double": tf(53), "String": tc("string"),
              "Boolean": tc("bool"), "Unit": tc("unit")},
    "go": {"int": ti(I32), "uint32": ti(U32), "int64": ti(I64), "uint64": ti(U64), "rune": ti(I32), "float32": tf(24),
           "float64": tf(53), "string": tc("string"), "bool": tc("bool"), "struct{}": tc("object"), "time.Time": tc("string")},
    "python": {"int": dict(cats={"integer"}, lo=None, hi=None, mant=0), "float": tf(53), "str": tc("string"),
               "bool": tc("bool"), "None": tc("unit"), "datetime": tc("string")},
}
JSON_CAT = {"()": "unit", "bool": "bool", "String": "string", "char": "string", "OffsetDateTime": "string", "f32": "float",
            "f64": "float"}
RANGE = {"i8": I8, "i16": I16, "i32": I32, "u8": U8, "u16": U16, "u32": U32, "I54": (-SAFE, SAFE), "U53": (0, SAFE)}
MANT = {"f32": 24, "f64": 53}
KNOWN_CELLS = {("scala", "u8"): "scala-unsigned-aliases", ("scala", "u16"): "scala-unsigned-aliases",
               ("scala", "u32"): "scala-unsigned-aliases", ("scala", "U53"): "scala-unsigned-aliases",
               ("go", "char"): "go-char-rune", ("go", "()"): "go-unit-struct"}


def fits(lang, name, prim):
    """does target type `name` have the JSON category of Rust `prim` and hold every value? -> problem or None"""
    info = TINFO[lang].get(name)
    if info is None:
        return "%s is not a %s primitive type" % (name, lang)
    cat = JSON_CAT.get(prim, "integer")
    if cat not in info["cats"]:
        return "%s `%s` is a JSON %s, serde writes %s as %s" % (lang, name, "/".join(sorted(info["cats"])), prim, cat)
    if cat == "integer":
        lo, hi = RANGE[prim]
        if (info["lo"] is not None and info["lo"] > lo) or (info["hi"] is not None and info["hi"] < hi):
            return "%s `%s` holds %s..%s, %s ranges over %s..%s" % (lang, name, info["lo"], info["hi"], prim, lo, hi)
    if cat == "float" and MANT[prim] > info["mant"]:
        return "%s `%s` has %d significant bits, %s has %d" % (lang, name, info["mant"], prim, MANT[prim])
    return None


# ------------------------------------------------------------------ target-expression parsers

class PErr(Exception):
    pass


IDENT = re.compile(r"[A-Za-z_][A-Za-z0-9_.]*")


class P:
    """recursive descent over one target type expression -> ('leaf',n)|('seq',t)|('fixed',t,n)|('map',k,v)|('opt',t)|('app',n,[t])"""

    def __init__(self, lang, s):
        self.lang, self.s, self.i = lang, s, 0

    def peek(self, lit):
        return self.s.startswith(lit, self.i)

    def eat(self, lit):
        if not self.peek(lit):
            raise PErr("expected %r at %d in %r" % (lit, self.i, self.s))
        self.i += len(lit)

    def ident(self):
        if self.lang == "go" and self.peek("struct{}"):
            self.i += 8
            return "struct{}"
        m = IDENT.match(self.s, self.i)
        if not m:
            raise PErr("identifier expected at %d in %r" % (self.i, self.s))
        self.i = m.end()
        return m.group(0)

    def args(self, op, cl):
        out = [self.ty()]
        while self.peek(", "):
            self.eat(", ")
            out.append(self.ty())
        self.eat(cl)
        return out

    def named(self, seq, opt, mp, op, cl):
        name = self.ident()
        if self.peek(op):
            self.eat(op)
            a = self.args(op, cl)
            if name == seq and len(a) == 1:
                return ("seq", a[0])
            if opt and name == opt and len(a) == 1:
                return ("opt", a[0])
            if name == mp and len(a) == 2:
                return ("map", a[0], a[1])
            return ("app", name, a)
        return ("leaf", name)

    def ty(self):
        L = self.lang
        if L == "typescript":
            if self.peek("["):
                self.eat("[")
                if self.peek("]"):
                    self.eat("]")
                    t = ("fixed", None, 0)
                else:
                    elems = self.args("[", "]")
                    if any(e != elems[0] for e in elems):
                        raise PErr("heterogeneous tuple in %r" % self.s)
                    t = ("fixed", elems[0], len(elems))
            else:
                t = self.named(None, None, "Record", "<", ">")
            while self.peek("[]"):
                self.eat("[]")
                t = ("seq", t)
            return t
        if L == "kotlin":
            t = self.named("List", None, "HashMap", "<", ">")
            while self.peek("?"):
                self.eat("?")
                t = ("opt", t)
            return t
        if L == "swift":
            if self.peek("["):
                self.eat("[")
                a = self.ty()
                if self.peek(": "):
                    self.eat(": ")
                    b = self.ty()
                    t = ("map", a, b)
                else:
                    t = ("seq", a)
                self.eat("]")
            else:
                t = self.named(None, None, None, "<", ">")
            while self.peek("?"):
                self.eat("?")
                t = ("opt", t)
            return t
        if L == "scala":
            return self.named("Vector", "Option", "Map", "[", "]")
        if L == "python":
            return self.named("List", "Optional", "Dict", "[", "]")
        if L == "go":
            if self.peek("[]"):
                self.eat("[]")
                return ("seq", self.ty())
            if self.peek("["):
                self.eat("[")
                m = re.compile(r"\d+").match(self.s, self.i)
                if not m:
                    raise PErr("array length expected in %r" % self.s)
                self.i = m.end()
                self.eat("]")
                return ("fixed", self.ty(), int(m.group(0)))
            if self.peek("*"):
                self.eat("*")
                return ("opt", self.ty())
            if self.peek("map["):
                self.eat("map[")
                k = self.ty()
                self.eat("]")
                return ("map", k, self.ty())
            return self.named(None, None, None, "[", "]")
        raise ValueError(L)


def parse_target(lang, s):
    p = P(lang, s)
    t = p.ty()
    if p.i != len(s):
        raise PErr("trailing %r in %r" % (s[p.i:], s))
    return t


def compare(lang, exp, got, path="type"):
    """-> list of (problem text, known-cell id or None)"""
    k = exp[0]
    if k == "prim":
        if got[0] != "leaf":
            return [("%s: Rust %s became %s" % (path, exp[1], got), None)]
        prob = fits(lang, got[1], exp[1])
        return [("%s: %s" % (path, prob), KNOWN_CELLS.get((lang, exp[1])))] if prob else []
    if k in ("param", "mapped") or (k == "user" and not exp[2]):
        want = exp[1]
        if got != ("leaf", want):
            return [("%s: expected the name `%s` (%s), found %s" % (path, want, k, got), None)]
        return []
    if k == "user":
        if got[0] != "app" or got[1] != exp[1] or len(got[2]) != len(exp[2]):
            return [("%s: expected `%s` applied to %d arguments, found %s" % (path, exp[1], len(exp[2]), got), None)]
        out = []
        for i, (e, g) in enumerate(zip(exp[2], got[2])):
            out += compare(lang, e, g, "%s.arg%d" % (path, i))
        return out
    if k == "seq":
        if got[0] != "seq":
            return [("%s: expected a sequence, found %s" % (path, got), None)]
        return compare(lang, exp[1], got[1], path + ".elem")
    if k == "fixed":
        if got[0] != "fixed" or got[2] != exp[2]:
            return [("%s: expected a sequence of length %s, found %s" % (path, exp[2], got), None)]
        return compare(lang, exp[1], got[1], path + ".elem") if exp[2] > 0 or got[1] is not None else []
    if k == "opt":
        if got[0] != "opt":
            return [("%s: expected an optional, found %s" % (path, got), None)]
        return compare(lang, exp[1], got[1], path + ".some")
    if k == "map":
        if got[0] != "map":
            return [("%s: expected a map, found %s" % (path, got), None)]
        return compare(lang, exp[1], got[1], path + ".key") + compare(lang, exp[2], got[2], path + ".value")
    raise ValueError(exp)


def oracle(lang, cfg, gens, syn, ans):
    """the property evaluated on the implementation's answer -> list of (problem, known id or None)"""
    try:
        r = to_rust(syn)
        exp = expected(lang, cfg, gens, r)
    except Unsupported as u:
        if ans.get("err") == u.kind:
            return []
        return [("the type must be refused with %s, the implementation answered %s" % (u.kind, ans), None)]
    if "ok" not in ans:
        return [("the type is translatable, the implementation answered %s" % ans, None)]
    try:
        got = parse_target(lang, ans["ok"])
    except PErr as e:
        return [("the %s type expression does not parse back: %s" % (lang, e), None)]
    return compare(lang, exp, got)


# ------------------------------------------------------------------ requests

def norm_ans(a):
    a = dict(a)
    if "err" in a and str(a["err"]).startswith("FormatError:"):
        a["err"] = a["err"][len("FormatError:"):]
    if "panic" in a:
        a["panic"] = str(a["panic"]).split(":")[0]
    return a


def mk_requests(lang, cfg, gens, syn):
    text = render_type(syn)
    m = [S("format-type"), l2.lang_sx(lang, cfg), list(gens), sx_type(syn)]
    r = {"op": "format_type", "lang": lang, "config": cfg, "ty": text, "generics": list(gens)}
    return m, r, text


BASE_CFG = {"typescript": {}, "kotlin": {"package": "p", "module_name": "m"}, "swift": {}, "scala": {"package": "p"},
            "go": {"package": "p"}, "python": {}}


def cfg_for(lang, tm=None, prefix="", nps=False):
    c = dict(BASE_CFG[lang], type_mappings=dict(tm or {}))
    if lang in PREFIXES:
        c["prefix"] = prefix
    if lang == "go":
        c["no_pointer_slice"] = nps
    return c


# ------------------------------------------------------------------ enumeration

def leaves():
    return [t_path("bool"), t_path("String"), t_path("u8"), t_path("U53"), t_path("f64"), ("tuple", []),
            t_path("Foo"), t_path("T"), t_path("Foo", [t_path("u8")])]


UNARY = [lambda x: t_path("Vec", [x]), lambda x: ("array", x, 3), lambda x: ("ref", ("slice", x), False),
         lambda x: t_path("Option", [x]), lambda x: t_path("Box", [x]), lambda x: ("ref", x, False),
         lambda x: t_path("Bar", [x])]


def grow(sub, wide_maps):
    """leaves + every constructor applied to members of `sub`; `wide_maps=False` restricts HashMap to
    (leaf key, any value) and (any key, leaf value)"""
    lv = leaves()
    out, seen = [], set()
    cand = list(lv) + [u(x) for u in UNARY for x in sub]
    pairs = itertools.product(sub, sub) if wide_maps else itertools.chain(itertools.product(lv, sub), itertools.product(sub, lv))
    cand += [t_path("HashMap", [k, v]) for k, v in pairs]
    for t in cand:
        s = render_type(t)
        if s not in seen:
            seen.add(s)
            out.append(t)
    return out


def trees(depth, wide_maps=True):
    """all trees of depth <= `depth` over the 9-leaf basis"""
    cur = leaves()
    for d in range(depth):
        cur = grow(cur, wide_maps or d == 0)
    return cur


USER = ["Foo", "Bar", "Baz", "Item", "Node"]
# prefixes, incl. some that are leading parts of / equal to user type and parameter names
NAME_PREFIXES = ["", "Pf", "OP", "X_", "F", "Foo", "Ba", "Node", "T", "It"]
GENS = ["T", "U", "K"]
QUALS = {"Vec": ["std", "vec"], "Option": ["std", "option"], "HashMap": ["std", "collections"], "String": ["std", "string"],
         "Box": ["std", "boxed"], "Arc": ["std", "sync"], "Rc": ["std", "rc"], "U53": ["typeshare"], "I54": ["typeshare"],
         "OffsetDateTime": ["time"]}


def q(rng, name):
    if rng.random() < 0.25:
        return QUALS.get(name, rng.choice([["crate"], ["super", "models"], ["self"], ["crate", "a", "b"]]))
    return []


def rand_tree(rng, depth):
    if depth <= 0 or rng.random() < 0.12:
        r = rng.random()
        if r < 0.45:
            p = rng.choice(PRIMS15)
            if p == "()":
                return ("tuple", [])
            if p == "String" and rng.random() < 0.3:
                return ("ref", t_path("str"), False)
            return t_path(p, (), q(rng, p))
        if r < 0.6:
            return t_path(rng.choice(GENS))
        if r < 0.9 or depth <= 0:
            n = rng.choice(USER)
            return t_path(n, (), q(rng, n))
        n = rng.choice(USER)
        return t_path(n, [rand_tree(rng, depth - 1) for _ in range(rng.randint(1, 3))], q(rng, n))
    sub = lambda: rand_tree(rng, depth - 1 if rng.random() < 0.75 else rng.randint(0, depth - 1))
    r = rng.random()
    if r < 0.16:
        return t_path("Vec", [sub()] + ([t_path("Global")] if rng.random() < 0.1 else []), q(rng, "Vec"))
    if r < 0.30:
        return t_path("Option", [sub()], q(rng, "Option"))
    if r < 0.44:
        extra = []
        if rng.random() < 0.2:
            # an explicit hasher / an extra argument: only the first two arguments are the key and the value (so is it for
            # Vec<T, A>, Box<T, A>: every argument after the ones that matter is ignored)
            extra = [rng.choice([t_path("RandomState"), t_path("BuildHasherDefault", [t_path("FxHasher")]), t_path("u8")])]
        return t_path("HashMap", [sub(), sub()] + extra, q(rng, "HashMap"))
    if r < 0.58:
        sp = rng.choice(SMART)
        return t_path(sp, [sub()], q(rng, sp), lt=(sp == "Cow"))
    if r < 0.68:
        return ("array", sub(), rng.choice([0, 1, 2, 3, 16]))
    if r < 0.76:
        return ("ref", ("slice", sub()), False)
    if r < 0.80:
        return ("slice", sub())
    if r < 0.90:
        return ("ref", sub(), rng.random() < 0.3)
    n = rng.choice(USER)
    return t_path(n, [sub() for _ in range(rng.randint(1, 3))], q(rng, n))


def subtrees(r):
    yield r
    k = r[0]
    if k == "generic":
        for p in r[2]:
            yield from subtrees(p)
    elif k in ("vec", "slice", "option", "array"):
        yield from subtrees(r[1])
    elif k == "map":
        yield from subtrees(r[1])
        yield from subtrees(r[2])


MAPPED_NAMES = ["Mapped", "Uint8Array", "Date", "bytes", "datetime", "M2", "any", "CustomType", "time.Time"]


def rand_cfg(rng, lang, syn):
    tm = {}
    try:
        r = to_rust(syn)
        subs = list(subtrees(r))
    except Unsupported:
        subs = []
    for _ in range(rng.choice([0, 0, 1, 1, 2, 3])):
        x = rng.random()
        if subs and x < 0.7:
            s = rng.choice(subs)
            key = s[1] if s[0] in ("simple", "generic") and rng.random() < 0.6 else display(s)
        elif x < 0.85:
            key = rng.choice(USER + GENS)
        else:
            key = rng.choice(["Vec<u8>", "HashMap<String,u8>", "HashMap<String, u8>", "Option<Vec>", "Option<Vec<u8>>",
                              "[u8]", "&[u8]", "u8", "String", "()", "Vec<Foo>", "Option<Foo>"])
        tm[key] = rng.choice(MAPPED_NAMES)
    return cfg_for(lang, tm, prefix=rng.choice(NAME_PREFIXES), nps=rng.random() < 0.5)


# ------------------------------------------------------------------ running a batch

def run_batch(check, cases, tag):
    """cases: list of (lang, cfg, gens, syn). Compares model and implementation, evaluates the oracle on the
    implementation. Returns True when a violation was recorded."""
    reqs = [mk_requests(*c) for c in cases]
    mans = model([m for m, _, _ in reqs], with_unicode=False)
    rans = runner([r for _, r, _ in reqs])
    mismatch = None
    for (lang, cfg, gens, syn), (m, r, text), ma, ra in zip(cases, reqs, mans, rans):
        ma, ra = norm_ans(ma), norm_ans(ra)
        nontrivial = syn[0] != "path" or bool(syn[3]) or bool(cfg.get("type_mappings"))
        check.saw((tag, lang, text, json.dumps(cfg, sort_keys=True), tuple(gens)), nontrivial=nontrivial)
        check.count("%s-%s" % (tag, lang))
        probs = oracle(lang, cfg, gens, syn, ra)
        case = {"lang": lang, "config": cfg, "generics": list(gens), "rust_type": text, "request": r}
        unknown = [p for p, kid in probs if not (kid and check.known(kid, dict(case, output=ra, problem=p)))]
        if unknown:
            check.violation("%s translates `%s` to %s: %s" % (lang, text, ra.get("ok", ra), unknown[0]),
                            case=case, impl=ra, model=ma, failing_input=True)
            return True
        if ma != ra:
            # keep scanning the batch: a later case may show the property itself failing on the implementation
            if mismatch is None:
                mismatch = ("Language::format_type differs from the model on `%s` (%s): impl %s, model %s" % (text, lang, ra, ma), case, ra, ma)
            continue
        if "ok" in ra:
            check.count(tag + "-translated")
            if any(v and ("%s" % v) in ra["ok"] for v in cfg.get("type_mappings", {}).values()):
                check.count(tag + "-mapping-hit")
        else:
            check.count(tag + "-refused-" + str(ra.get("err", ra.get("panic", "?"))))
        if "ok" in ra and tag == "rand" and len(text) > 30 and cfg.get("type_mappings") and \
                sum(1 for x in check.samples if x.get("lang") == lang) < 1:
            check.sample({"lang": lang, "rust_type": text, "generics": list(gens), "type_mappings": cfg["type_mappings"],
                          "prefix": cfg.get("prefix"), "target": ra["ok"]})
    if mismatch:
        what, case, ra, ma = mismatch
        check.violation(what, case=case, impl=ra, model=ma, failing_input=False,
                        broken="correspondence L0 format_type / L1 tryFrom (theorems TsV.C05.C05_compositional, "
                               "TsV.C05.C05_transparent, TsV.C05.C05_mappings, TsV.C05.C05_prims_partial)")
        return True
    return False


# ------------------------------------------------------------------ use sites (whole programs)

def site_templates(lang, site, name, text, pfx):
    """the lines a use site may produce for type text `text` (a trailing `…` marks a prefix template)"""
    if lang == "typescript":
        if site == "field":
            return ["\t%s%s: %s;" % (name, q_, text) for q_ in ("", "?")] + ["\t%s?: %s | null;" % (name, text)]
        if site in ("alias", "newtype"):
            return ["export type %s<T> = %s;" % (name, text), "export type %s<T> = %s | undefined;" % (name, text)]
        return ["export const %s: %s = 1;" % (name, text)]
    if lang == "kotlin":
        if site == "field":
            return ["\tval %s: %s" % (name, text), "\tval %s: %s = null" % (name, text)]
        return ["typealias %s%s<T> = %s" % (pfx, name, text)]
    if lang == "swift":
        if site == "field":
            return ["\tpublic let %s: %s" % (name, text)]
        return ["public typealias %s%s<T> = %s" % (pfx, name, text)]
    if lang == "scala":
        if site == "field":
            return ["\t%s: %s" % (name, text), "\t%s: %s = None" % (name, text)]
        return ["type %s[T] = %s" % (name, text)]
    if lang == "go":
        if site == "field":
            return ["\t%s %s `json:\"%s\"`" % (name.capitalize(), text, name),
                    "\t%s %s `json:\"%s,omitempty\"`" % (name.capitalize(), text, name)]
        if site in ("alias", "newtype"):
            return ["type %s %s" % (name, text)]
        return ["const %s %s = 1" % (name.capitalize(), text)]
    if lang == "python":
        if site == "field":
            return ["    %s: %s" % (name, text), "    %s: %s = Field(default=None)" % (name, text),
                    "    %s: Annotated[%s, BeforeValidator(…" % (name, text)]
        if site in ("alias", "newtype"):
            return ["%s = %s" % (name, text)]           # a generic alias is `Name = <type>` (fix: commit f8d1040)
        return ["%s: %s = 1" % (name, text)]
    raise ValueError(lang)


def use_site_program(syn, const_syn, renamed=()):
    anno = [m_path("typeshare")]
    # the user types named in `renamed` are defined in the file under a serde(rename): every mention of them, in whatever
    # position of the type expression, must then be written with the new name
    defs = [{"kind": "struct", "attrs": anno + [m_list("serde", [m_nv("rename", lit_s(u + "Rn"))])], "ident": u, "generics": [],
             "fields": ("named", [field([], "z", t_path("u8"))])} for u in renamed]
    items = defs + [
        {"kind": "struct", "attrs": anno, "ident": "SiteS", "generics": [("ty", "T")],
         "fields": ("named", [field([], "fzero", syn)])},
        {"kind": "struct", "attrs": anno, "ident": "SiteN", "generics": [("ty", "T")], "fields": ("unnamed", [field([], None, syn)])},
        {"kind": "alias", "attrs": anno, "ident": "SiteA", "generics": [("ty", "T")], "ty": syn},
    ]
    if const_syn is not None:
        items.append({"kind": "const", "attrs": anno, "ident": "SITEC", "ty": const_syn, "expr_text": "1", "init": ("i", 1, "")})
    return {"attrs": [], "items": items}


def contains_line(output, templates):
    lines = [l.rstrip(",") for l in output.split("\n")]
    for t in templates:
        if t.endswith("…"):
            if any(l.startswith(t[:-1]) for l in lines):
                return True
        elif t in lines:
            return True
    return False


def use_sites(check, n):
    rng = check.rng
    const_types = [t_path("u8"), t_path("u32"), t_path("U53"), ("ref", t_path("str"), False), t_path("i32"),
                   ("array", t_path("u8"), 2), t_path("Foo"), ("ref", ("slice", t_path("u16")), False)]
    progs = []
    for i in range(n):
        lang = LANGS[i % 6]
        syn = rand_tree(rng, rng.randint(1, 4))
        csyn = rng.choice(const_types) if lang in ("typescript", "go", "python") else None
        cfg = rand_cfg(rng, lang, syn)
        # keep the declarations' own names and the Go field name out of the mapping table
        cfg["version_header"] = False
        mentioned = [u for u in USER if re.search(r"\b%s\b" % u, render_type(syn))]
        mapped_words = " ".join(list(cfg.get("type_mappings", {})) + list(cfg.get("type_mappings", {}).values()))
        ren = mentioned if (mentioned and i % 3 == 1 and not any(u in mapped_words for u in USER)) else []
        progs.append((lang, cfg, syn, csyn, ren))
    g = Gen(rng)
    reqs, sites = [], []
    for lang, cfg, syn, csyn, ren in progs:
        f = use_site_program(syn, csyn, ren)
        mreq, rreq, texts = l2.requests(lang, cfg, [{"crate": "", "file_name": "lib.rs", "path": "src/lib.rs", "file": f}], g)
        reqs.append((mreq, rreq, texts[0]))
        ft = [mk_requests(lang, cfg, ["T"], syn)[1]]
        if csyn is not None:
            ft.append(mk_requests(lang, cfg, [], csyn)[1])
        sites.append(ft)
    mans = model([m for m, _, _ in reqs], names={"SiteS", "SiteN", "SiteA", "SITEC", "fzero", "z"} | set(USER) | {u + "Rn" for u in USER})
    rans = runner([r for _, r, _ in reqs])
    flat = [x for ft in sites for x in ft]
    fans = runner(flat)
    pos = 0
    for (lang, cfg, syn, csyn, ren), (mreq, rreq, src), ft, ma, ra in zip(progs, reqs, sites, mans, rans):
        answers = fans[pos:pos + len(ft)]
        pos += len(ft)
        check.saw(("site", lang, src, json.dumps(cfg, sort_keys=True)), nontrivial=True)
        check.count("use-sites-" + lang)
        case = {"lang": lang, "config": cfg, "source": src}
        ma_n, ra_n = l2.norm(ma), l2.norm(ra)
        ty = answers[0]
        if "ok" in ra and "ok" in ty:
            out = "".join(ra["ok"].values())
            text = ty["ok"]
            if ren:
                check.count("use-sites-with-renamed-user-types")
                pfx_ = re.escape(cfg.get("prefix", "")) if lang in ("swift", "kotlin") else ""
                text = re.sub(r"(?<![A-Za-z0-9_])(%s)(%s)(?![A-Za-z0-9_])" % (pfx_, "|".join(ren)), r"\1\2Rn", text)
            wanted = [("field", "fzero"), ("newtype", "SiteN"), ("alias", "SiteA")]
            for site, name in wanted:
                if not contains_line(out, site_templates(lang, site, name, text, cfg.get("prefix", ""))):
                    check.violation("%s: the %s use site does not carry the translation `%s` of `%s`" % (lang, site, text, render_type(syn)),
                                    case=case, impl=ra, model=ma, failing_input=True)
                    return True
            if lang == "scala":
                # the unsigned primitives translate to names that only exist through the alias block of the same file
                body = re.sub(r"(?m)^type U\w+ = \w+$", "", out)
                for nm in ("UByte", "UShort", "UInt", "ULong"):
                    if re.search(r"\b%s\b" % nm, body) and not re.search(r"(?m)^type %s = " % nm, out):
                        check.violation("scala: `%s` translates to a type mentioning `%s`, which the generated file does not define (no `type %s = ..` line)"
                                        % (render_type(syn), nm, nm), case=case, impl=ra, model=ma, failing_input=True)
                        return True
            if csyn is not None and "ok" in answers[1]:
                if not contains_line(out, site_templates(lang, "const", "SITEC", answers[1]["ok"], "")):
                    check.violation("%s: the const use site does not carry the translation `%s` of `%s`" % (lang, answers[1]["ok"], render_type(csyn)),
                                    case=case, impl=ra, model=ma, failing_input=True)
                    return True
        elif "ok" in ra and "err" in ty:
            check.violation("%s generated a program although format_type refuses `%s`" % (lang, render_type(syn)),
                            case=case, impl=ra, model=ma, failing_input=True)
            return True
        if ma_n != ra_n:
            d = None
            if "ok" in ma_n and "ok" in ra_n:
                d = l2.text_diff("".join(ma_n["ok"].values()), "".join(ra_n["ok"].values()))
            check.violation("generate_types differs from the model on a use-site program (%s): %s" % (lang, d or (ma_n, ra_n)),
                            case=case, impl=ra, model=ma, failing_input=False,
                            broken="correspondence L2 generate_types (use sites of formatType; theorem TsV.C05.C05_compositional)")
            return True
    return False


def helper_generics_part(check):
    """generic arguments and parameters keep their order: the helper struct a struct variant of a generic tagged enum is written as
    declares its parameters in the order in which the references to it pass the arguments (Swift, Kotlin, Scala), whatever order the
    variant's fields mention the enum's parameters in"""
    rng = check.rng
    ts = [m_path("typeshare")]
    mreqs, rreqs, meta = [], [], []
    g = Gen(rng)
    for k in range(24 if check.thorough else 9):
        lang = ["swift", "kotlin", "scala"][k % 3]
        params = rng.sample(["T", "E", "K", "V"], rng.randint(2, 3))
        order = list(params)
        rng.shuffle(order)                       # the order in which the fields mention them
        wrap = lambda p, j: [t_path(p), t_path("Vec", [t_path(p)]), t_path("Option", [t_path(p)]), t_path("HashMap", [t_path("String"), t_path(p)])][j % 4]
        fs = [field([], "f%d" % j, wrap(p, j + k)) for j, p in enumerate(order)]
        en = {"kind": "enum", "attrs": list(ts) + [m_list("serde", [m_nv("tag", lit_s("t")), m_nv("content", lit_s("c"))])], "ident": "Outcome%d" % k,
              "generics": [("ty", p) for p in params],
              "variants": [{"attrs": [], "ident": "Failed", "fields": ("named", fs)},
                           {"attrs": [], "ident": "Done", "fields": ("unnamed", [field([], None, t_path(params[0]))])}]}
        f = {"attrs": [], "items": [en]}
        cfg = cfg_for(lang, {}, prefix=rng.choice(["", "OP"]))
        cfg["version_header"] = False
        m, r, texts = l2.requests(lang, cfg, [{"crate": "", "file_name": "lib.rs", "path": "src/lib.rs", "file": f}], g)
        mreqs.append(m); rreqs.append(r); meta.append((lang, params, order, texts[0], cfg))
    mans = model(mreqs)
    rans = runner(rreqs)
    for (lang, params, order, src, cfg), ma, ra in zip(meta, mans, rans):
        check.saw(("helper-generics", lang, src), nontrivial=params != order)
        check.count("helper-generics-" + lang)
        ma_n, ra_n = l2.norm(ma), l2.norm(ra)
        case = {"lang": lang, "config": cfg, "source": src}
        if "ok" in ra_n:
            out = "".join(ra_n["ok"].values())
            lists = re.findall(r"\b\w*FailedInner\s*[<\[]([^>\]]*)[>\]]", out)
            names = [[x.split(":")[0].strip() for x in l.split(",")] for l in lists]
            if not names or any(n != names[0] for n in names):
                check.violation("%s: the helper struct of a struct variant declares its generic parameters as %s, references pass %s (fields "
                                "mention the enum's parameters %s in the order %s)" % (lang, names[:1], names[1:], params, order),
                                case=case, impl=ra, model=ma, failing_input=True)
                return True
        if ma_n != ra_n:
            check.violation("generate_types differs from the model on a generic enum with a struct variant (%s)" % lang, case=case, impl=ra, model=ma,
                            failing_input=False, broken="correspondence L2 generate_types (helper structs; theorem TsV.C05.C05_compositional)")
            return True
    return False


def definition_generics_part(check):
    """generic parameters are preserved in order at the definition: a struct, alias or enum declared `<P1, P2, ..>` is written with its
    parameter list in exactly that order in every language that writes one (use sites pass the arguments by position), whatever the
    alphabetical order of the names"""
    rng = check.rng
    ts = [m_path("typeshare")]
    mreqs, rreqs, meta = [], [], []
    g = Gen(rng)
    pool = ["T", "E", "K", "V", "Value", "Key", "B", "A", "Ok", "Err"]
    pynames = set()
    for k in range(36 if check.thorough else 12):
        lang = LANGS[k % len(LANGS)]
        params = rng.sample(pool, 2 + k % 2)
        if params == sorted(params):
            params.reverse()                     # never the order a sorted container would give
        wrap = lambda p, j: [t_path(p), t_path("Vec", [t_path(p)]), t_path("Option", [t_path(p)]), t_path("HashMap", [t_path("String"), t_path(p)])][j % 4]
        fs = [field([], "f%d" % j, wrap(p, j + k)) for j, p in enumerate(params)]
        st = {"kind": "struct", "attrs": list(ts), "ident": "Pair%d" % k, "generics": [("ty", p) for p in params], "fields": ("named", fs)}
        al = {"kind": "alias", "attrs": list(ts), "ident": "Al%d" % k, "generics": [("ty", p) for p in params],
              "ty": t_path("Pair%d" % k, [t_path(p) for p in params])}
        en = {"kind": "enum", "attrs": list(ts) + [m_list("serde", [m_nv("tag", lit_s("t")), m_nv("content", lit_s("c"))])], "ident": "En%d" % k,
              "generics": [("ty", p) for p in params],
              "variants": [{"attrs": [], "ident": "V%d" % j, "fields": ("unnamed", [field([], None, wrap(p, j))])} for j, p in enumerate(params)]
                          + [{"attrs": [], "ident": "St", "fields": ("named", fs)}]}
        use = {"kind": "struct", "attrs": list(ts), "ident": "Use%d" % k, "generics": [],
               "fields": ("named", [field([], "p", t_path("Pair%d" % k, [t_path(x) for x in ["String", "u8", "bool"][:len(params)]]))])}
        f = {"attrs": [], "items": [st, al, en, use][: 4 if k % 3 else 1] + ([] if k % 3 else [use])}
        cfg = cfg_for(lang, {}, prefix=rng.choice(["", "OP"]))
        cfg["version_header"] = False
        m, r, texts = l2.requests(lang, cfg, [{"crate": "", "file_name": "lib.rs", "path": "src/lib.rs", "file": f}], g)
        mreqs.append(m); rreqs.append(r); meta.append((lang, params, texts[0], cfg))
        if lang == "python":
            pynames |= l2.names_of(f)
    mans = model(mreqs, names=pynames or None)
    rans = runner(rreqs)
    for (lang, params, src, cfg), ma, ra in zip(meta, mans, rans):
        check.saw(("definition-generics", lang, src), nontrivial=True)
        check.count("definition-generics-" + lang)
        ma_n, ra_n = l2.norm(ma), l2.norm(ra)
        case = {"lang": lang, "config": cfg, "source": src, "declared": params}
        if "ok" in ra_n:
            out = "".join(ra_n["ok"].values())
            heads = re.findall(r"(?m)^\s*(?:export\s+|public\s+|sealed\s+|data\s+|case\s+)*(?:interface|class|struct|typealias|type|trait|enum)\s+"
                               r"(?:OP)?((?:Pair|Al|En)\d+(?:StInner)?)\s*(?:\(BaseModel,\s*Generic)?[<\[]([^>\]]*)[>\]]", out)
            for name, plist in heads:
                got = [re.sub(r"\s*(:\s*[\w &]+|\bany\b)\s*$", "", x.strip()).strip() for x in plist.split(",")]
                check.count("definition-generics-headers")
                if got != params and not (lang == "go" and name.startswith("Al")):
                    check.violation("%s: `%s` is declared with the generic parameters %s in Rust and written with the parameter list %s; "
                                    "use sites pass the arguments by position" % (lang, name, params, got),
                                    case=case, impl=ra, model=ma, failing_input=True)
                    return True
            if not heads:
                check.notes.append("definition-generics: no parameter list recognised in the %s output" % lang) if len(check.notes) < 40 else None
        if ma_n != ra_n:
            check.violation("generate_types differs from the model on generic definitions (%s)" % lang, case=case, impl=ra, model=ma,
                            failing_input=False, broken="correspondence L2 generate_types (generic definitions; theorem TsV.C05.C05_compositional)")
            return True
    return False


# ------------------------------------------------------------------ neighbouring type expressions in one run

def _leaf(rng, pool=None):
    p = rng.choice(pool or ["u8", "u16", "u32", "i32", "U53", "f64", "bool", "String", "char", "Foo", "Bar", "Item", "T"])
    return t_path(p, (), q(rng, p) if p != "T" else [])


def _small(rng, depth=1):
    """a small element type (depth <= `depth`)"""
    if depth <= 0 or rng.random() < 0.5:
        return _leaf(rng)
    r = rng.random()
    x = _small(rng, depth - 1)
    if r < 0.3:
        return t_path("Vec", [x])
    if r < 0.5:
        return t_path("Option", [x])
    if r < 0.7:
        return t_path("HashMap", [_leaf(rng, ["String", "u8", "u32", "Foo"]), x])
    if r < 0.85:
        return t_path(rng.choice(["Foo", "Node"]), [x])
    return ("array", x, rng.choice([1, 2, 3]))


def _context(rng):
    """a type expression with one hole: 0-2 constructors stacked above the place where the members of a family differ"""
    layers = []
    for _ in range(rng.choice([0, 0, 1, 1, 1, 2])):
        r = rng.random()
        if r < 0.22:
            layers.append(lambda x: t_path("Vec", [x]))
        elif r < 0.36:
            n = rng.choice([1, 2, 3])
            layers.append(lambda x, n=n: ("array", x, n))
        elif r < 0.48:
            layers.append(lambda x: t_path("Option", [x]))
        elif r < 0.62:
            k = _leaf(rng, ["String", "u8", "u32", "Foo"])
            layers.append(lambda x, k=k: t_path("HashMap", [k, x]))
        elif r < 0.70:
            v = _leaf(rng)
            layers.append(lambda x, v=v: t_path("HashMap", [x, v]))
        elif r < 0.80:
            layers.append(lambda x: ("ref", ("slice", x), False))
        elif r < 0.90:
            n, other = rng.choice(["Foo", "Bar", "Node"]), _leaf(rng)
            front = rng.random() < 0.5
            layers.append(lambda x, n=n, other=other, front=front: t_path(n, [x, other] if front else [other, x]))
        else:
            sp = rng.choice(["Box", "Arc", "Rc", "Mutex"])
            layers.append(lambda x, sp=sp: t_path(sp, [x]))

    def fill(x):
        for l in layers:
            x = l(x)
        return x
    return fill


FAMILY_KINDS = ["array-length", "below-option", "generic-arguments", "map-key-value", "element", "sequence-kind", "erased-wrappers",
                "nesting-depth", "generic-scope"]


def family(rng, kind):
    """type expressions that are equal up to one component (the members of one family are what a translation that remembers
    too little of an earlier expression would confuse). -> list of syn types (3-7, some of them possibly equal)"""
    ctx = _context(rng)
    if kind == "array-length":
        e = _small(rng, rng.choice([0, 0, 1, 2]))
        lens = rng.sample([0, 1, 2, 3, 4, 5, 8, 16], rng.randint(3, 5))
        fill = [("array", e, n) for n in lens]
    elif kind == "below-option":
        # Display writes an Option by the outer name of what is below it: Option<Vec<u8>> and Option<Vec<String>> are both `Option<Vec>`
        outer = rng.choice(["Vec", "HashMap", "user", "array", "Option"])
        es = [_small(rng, rng.choice([0, 0, 1])) for _ in range(rng.randint(3, 4))]
        if outer == "Vec":
            below = [t_path("Vec", [e]) for e in es]
        elif outer == "HashMap":
            below = [t_path("HashMap", [t_path("String"), e]) for e in es] + [t_path("HashMap", [t_path("u8"), es[0]])]
        elif outer == "user":
            n = rng.choice(["Foo", "Node"])
            below = [t_path(n, [e]) for e in es] + [t_path(n)]
        elif outer == "array":
            below = [("array", e, rng.choice([1, 2, 3])) for e in es]
        else:
            below = [t_path("Option", [e]) for e in es]
        fill = [t_path("Option", [b]) for b in below]
    elif kind == "generic-arguments":
        n = rng.choice(USER)
        a, b, c = _small(rng, 1), _small(rng, 1), _small(rng, 0)
        fill = [t_path(n, [a]), t_path(n, [b]), t_path(n, [a, b]), t_path(n, [b, a]), t_path(n, [a, b, c]), t_path(n)]
        if rng.random() < 0.5:
            fill.append(t_path(rng.choice([u for u in USER if u != n]), [a]))
        fill = rng.sample(fill, rng.randint(3, len(fill)))
    elif kind == "map-key-value":
        a, b = rng.sample(["String", "u8", "u32", "i32", "Foo", "Bar", "char"], 2)
        a, b = t_path(a), t_path(b)
        v = _small(rng, 1)
        fill = [t_path("HashMap", [a, b]), t_path("HashMap", [b, a]), t_path("HashMap", [a, a]), t_path("HashMap", [b, b]),
                t_path("HashMap", [a, v]), t_path("HashMap", [b, v])]
        fill = rng.sample(fill, rng.randint(3, len(fill)))
    elif kind == "element":
        # several Rust types share one target type (u8/u16/f64 are all `number`), or one outer name
        pool = [t_path(p) for p in ["u8", "u16", "u32", "i8", "i32", "U53", "I54", "f32", "f64", "bool", "String", "char", "Foo", "Bar", "T"]]
        pool += [("ref", t_path("str"), False), ("tuple", [])]
        fill = rng.sample(pool, rng.randint(3, 6))
    elif kind == "sequence-kind":
        e = _small(rng, rng.choice([0, 1]))
        fill = [t_path("Vec", [e]), ("array", e, rng.choice([1, 2, 4])), ("ref", ("slice", e), False), t_path("Box", [("slice", e)]),
                t_path("Option", [t_path("Vec", [e])]), t_path("Vec", [t_path("Option", [e])]), e]
        fill = rng.sample(fill, rng.randint(3, len(fill)))
    elif kind == "erased-wrappers":
        # references, smart pointers and path qualification disappear: every member must come out like the bare one
        e = _small(rng, 1)
        sp = rng.sample(SMART, 3)
        fill = [e, t_path(sp[0], [e], (), lt=(sp[0] == "Cow")), ("ref", e, False), t_path(sp[1], [t_path(sp[2], [e], (), lt=(sp[2] == "Cow"))], (), lt=(sp[1] == "Cow")),
                t_path("Option", [e]), t_path("Vec", [e])]
        if e[0] == "path":
            fill.append(t_path(e[2], e[3], QUALS.get(e[2], ["crate", "models"]), e[4]))
        fill = rng.sample(fill, rng.randint(3, len(fill)))
    elif kind == "nesting-depth":
        e = _small(rng, 0)
        w = rng.choice([lambda x: t_path("Vec", [x]), lambda x: ("array", x, 2), lambda x: t_path("Option", [x]),
                        lambda x: t_path("HashMap", [t_path("String"), x]), lambda x: t_path("Foo", [x])])
        fill, cur = [], e
        for _ in range(rng.randint(3, 4)):
            fill.append(cur)
            cur = w(cur)
    elif kind == "generic-scope":
        # the same spelling under items that do / do not declare `T`: a parameter in one, a user type in the other
        fill = [t_path("T"), t_path("Vec", [t_path("T")]), t_path("Foo", [t_path("T")]), t_path("HashMap", [t_path("String"), t_path("T")]),
                t_path("Option", [t_path("T")]), ("array", t_path("T"), 2)]
        fill = rng.sample(fill, rng.randint(2, 3))
        fill = fill + fill                       # each spelling twice: once per scope (see neighbour_program)
    else:
        raise ValueError(kind)
    out = [ctx(x) for x in fill]
    if kind != "generic-scope" and rng.random() < 0.4:
        out.append(rng.choice(out))              # the very same expression once more
    return out


def translatable(lang, cfg, gens, syn):
    try:
        expected(lang, cfg, gens, to_rust(syn))
        return True
    except Unsupported:
        return False


def _fname(rank):
    """a field name that no back end rewrites (no digit, no capital, no underscore) and that sorts like its rank"""
    return "fz" + chr(97 + rank // 10) + chr(97 + rank % 10)


def neighbour_program(rng, members, order, layout, scopes, crates):
    """one run that translates every member of a family. `order[i]` is the rank of member i: items are declared in that order
    *and* named so that sorting by name gives that order; fields of one struct follow it too. `layout`: 'fields' = one struct
    (per crate and scope) holds them all; 'mixed' = fields of two structs, fields of a struct variant of an enum, newtype payloads and
    alias targets. `scopes[i]`: does the item of member i
    declare the generic parameter `T`. `crates`: list of crate names the items are dealt to (one name = one file).
    -> (jobs for l2.requests, sites [(member index, site kind, name, declares T)], names)"""
    anno = [m_path("typeshare")]
    ranked = sorted(range(len(members)), key=lambda i: order[i])
    sites, items = [], []
    ncr = len(crates)
    if layout == "fields":
        # one struct per (scope, crate): in a multi-crate run the fields are dealt round-robin to one struct in each crate
        groups = {}
        for pos, i in enumerate(ranked):
            groups.setdefault((scopes[i], pos % ncr), []).append(i)
        for (sc, cr), idx in sorted(groups.items(), key=lambda kv: order[kv[1][0]]):
            fs = []
            for i in idx:
                fs.append(field([], _fname(order[i]), members[i]))
                sites.append((i, "field", _fname(order[i]), sc))
            items.append((cr, {"kind": "struct", "attrs": anno, "ident": "Z%02dS" % order[idx[0]], "generics": [("ty", "T")] if sc else [],
                               "fields": ("named", fs)}))
    else:
        open_structs = {}
        for i in ranked:
            kind = rng.choice(["field", "field", "field2", "vfield", "newtype", "alias"])
            sc = scopes[i]
            gens_ = [("ty", "T")] if sc else []
            cr = rng.randrange(ncr)
            if kind in ("field", "field2"):
                key = (kind, sc)
                if key not in open_structs:
                    st = {"kind": "struct", "attrs": anno, "ident": "Z%02dS" % order[i], "generics": gens_, "fields": ("named", [])}
                    open_structs[key] = st
                    items.append((cr, st))
                open_structs[key]["fields"][1].append(field([], _fname(order[i]), members[i]))
                sites.append((i, "field", _fname(order[i]), sc))
            elif kind == "vfield":
                # a field of a struct variant of an adjacently tagged enum: every back end writes it like a struct field
                key = (kind, sc)
                if key not in open_structs:
                    en = {"kind": "enum", "attrs": anno + [m_list("serde", [m_nv("tag", lit_s("t")), m_nv("content", lit_s("c"))])],
                          "ident": "Z%02dE" % order[i], "generics": gens_,
                          "variants": [{"attrs": [], "ident": "Vzu", "fields": ("unit",)},
                                       {"attrs": [], "ident": "Vzs", "fields": ("named", [])}]}
                    open_structs[key] = en
                    items.append((cr, en))
                open_structs[key]["variants"][1]["fields"][1].append(field([], _fname(order[i]), members[i]))
                sites.append((i, "field", _fname(order[i]), sc))
            elif kind == "newtype":
                items.append((cr, {"kind": "struct", "attrs": anno, "ident": "Z%02dN" % order[i], "generics": gens_,
                                   "fields": ("unnamed", [field([], None, members[i])])}))
                sites.append((i, "newtype", "Z%02dN" % order[i], sc))
            else:
                items.append((cr, {"kind": "alias", "attrs": anno, "ident": "Z%02dA" % order[i], "generics": gens_, "ty": members[i]}))
                sites.append((i, "alias", "Z%02dA" % order[i], sc))
    names, jobs = set(), []
    for c, cname in enumerate(crates):
        f = {"attrs": [], "items": [it for cr, it in items if cr == c]}
        if not f["items"]:
            continue
        if ncr == 1:
            jobs.append({"crate": cname, "file_name": "lib.rs", "path": "src/lib.rs", "file": f})
        else:
            jobs.append({"crate": cname, "file_name": cname + ".out", "path": "%s/src/lib.rs" % cname, "file": f})
        names |= l2.names_of(f)
    return jobs, sites, names


def site_texts(lang, site, name, pfx, declares_t, lines):
    """the type expressions written at a use site, read off the generated lines -> list of candidate texts"""
    cands = []
    for t in site_templates(lang, site, name, "\x00", pfx):
        if not declares_t:
            t = t.replace("<T>", "").replace("[T]", "")
        pre, post = t.split("\x00")
        open_end = post.endswith("…")
        if open_end:
            post = post[:-1]
        for l in lines:
            if not l.startswith(pre):
                continue
            if open_end:
                j = l.find(post, len(pre))
                while j >= 0:
                    cands.append(l[len(pre):j])
                    j = l.find(post, j + 1)
            elif l.endswith(post) and len(l) >= len(pre) + len(post):
                cands.append(l[len(pre):len(l) - len(post)])
    return cands


def neighbours_part(check):
    """*several* type expressions in ONE run (one language instance): families of 3-7 expressions that are equal up to one component
    (array length, what is below an Option, generic arguments / their order / their number, map key vs value, an element whose
    neighbours share its target type, Vec / array / slice of one element, erased wrappers and path qualification, nesting depth, the
    same spelling where `T` is / is not a declared parameter), below a common random context of 0-2 constructors, used as fields of
    one or two structs, fields of a struct variant of an enum, newtype payloads and alias targets of one program - in one file, or dealt to 2-3 crates of a multi-file run -
    in a random order and in the reverse order (declaration order and name order agree, so every pair is translated both ways
    round), all six languages, plain and random configurations (prefix, mapping tables keyed by sub-trees of the members).
    Demands, for every use site, on the text the implementation wrote there: it parses back to the tree `expected` demands for
    *that* expression (the translation is a function of the expression, the configuration and the declared parameters - not of
    what was translated before it), and it equals the translation `format_type` gives the expression alone. The Lean back-end
    models are run on the same programs."""
    rng = check.rng
    rounds = 60 if check.thorough else 8
    g = Gen(rng)
    progs = []
    for rd in range(rounds):
        for kind in FAMILY_KINDS:
            for lang in LANGS:
                members = family(rng, kind)
                if rng.random() < 0.5:
                    cfg = cfg_for(lang, prefix=rng.choice(["", "Pf"]))
                else:
                    cfg = rand_cfg(rng, lang, rng.choice(members))
                cfg["version_header"] = False
                if kind == "generic-scope":
                    half = len(members) // 2
                    scopes = [True] * half + [False] * half
                else:
                    scopes = [True] * len(members)
                keep = [i for i, m in enumerate(members) if translatable(lang, cfg, ["T"] if scopes[i] else [], m)]
                members, scopes = [members[i] for i in keep], [scopes[i] for i in keep]
                if len(members) < 2:
                    check.count("neighbours-family-too-small-after-dropping-refused-members")
                    continue
                ranks = rng.sample(range(1, 90), len(members))
                rev = sorted(ranks, reverse=True)
                rev = {r: rev[sorted(ranks).index(r)] for r in ranks}
                crates = [""] if rng.random() < 0.6 else rng.sample(["alpha", "beta", "gamma"], rng.randint(2, 3))
                for layout in ("fields", "mixed"):
                    for order in (ranks, [rev[r] for r in ranks]):
                        jobs, sites, names = neighbour_program(rng, members, order, layout, scopes, crates)
                        progs.append((kind, lang, cfg, members, scopes, order, layout, jobs, sites, names))
    reqs, alone, allnames = [], [], set()
    for kind, lang, cfg, members, scopes, order, layout, jobs, sites, names in progs:
        mreq, rreq, texts = l2.requests(lang, cfg, jobs, g, multi_file=len(jobs) > 1 or jobs[0]["crate"] != "")
        reqs.append((mreq, rreq, texts))
        alone += [mk_requests(lang, cfg, ["T"] if sc else [], m)[1] for m, sc in zip(members, scopes)]
        allnames |= names
    mans = model([m for m, _, _ in reqs], names=allnames | set(USER))
    rans = runner([r for _, r, _ in reqs])
    aans = runner(alone)
    pos = 0
    mismatch = None
    for (kind, lang, cfg, members, scopes, order, layout, jobs, sites, names), (mreq, rreq, texts), ma, ra in zip(progs, reqs, mans, rans):
        single = aans[pos:pos + len(members)]
        pos += len(members)
        check.saw(("neighbours", lang, tuple(texts), json.dumps(cfg, sort_keys=True)), nontrivial=True)
        check.count("neighbours-programs-" + lang)
        check.count("neighbours-family-" + kind)
        check.count("neighbours-layout-" + layout + ("-multi-crate" if len(jobs) > 1 else ""))
        case = {"lang": lang, "config": cfg, "family": kind, "sources": {j["path"]: t for j, t in zip(jobs, texts)},
                "members_in_declaration_and_name_order": [render_type(members[i]) for i in sorted(range(len(members)), key=lambda i: order[i])],
                "request": rreq}
        ma_n, ra_n = l2.norm(ma), l2.norm(ra)
        if "ok" in ra:
            lines = [l.rstrip(",") for name_, text_ in sorted(ra["ok"].items()) for l in text_.split("\n")]
            pfx = cfg.get("prefix", "")
            for i, site, name, sc in sites:
                syn, gens = members[i], (["T"] if sc else [])
                rust = render_type(syn)
                a = norm_ans(single[i])
                check.count("neighbours-sites")
                cands = site_texts(lang, site, name, pfx, sc, lines)
                parsed = []
                for c in cands:
                    try:
                        parse_target(lang, c)
                        parsed.append(c)
                    except PErr:
                        pass
                where = "%s `%s`" % (site, name)
                if not parsed:
                    check.violation("%s: no line of the output carries a %s type expression for the %s of type `%s` (candidates %s; alone it "
                                    "translates to %s)" % (lang, lang, where, rust, cands, a.get("ok", a)),
                                    case=dict(case, site=name, rust_type=rust), impl=ra, model=ma, failing_input=True)
                    return True
                text = parsed[0]
                probs = oracle(lang, cfg, gens, syn, {"ok": text})
                wcase = dict(case, site=name, rust_type=rust, written=text, alone=a.get("ok", a))
                unknown = [p for p, kid in probs if not (kid and check.known(kid, dict(wcase, problem=p)))]
                if unknown:
                    others = []
                    for j in sorted(range(len(members)), key=lambda j: order[j]):
                        if render_type(members[j]) != rust and render_type(members[j]) not in others:
                            others.append(render_type(members[j]))
                    check.violation("%s: in a run that also translates %s, the %s of type `%s` is written `%s` (alone: `%s`): %s"
                                    % (lang, ", ".join("`%s`" % o for o in others[:6]) + (" .." if len(others) > 6 else ""), where, rust, text,
                                       a.get("ok", a), unknown[0]),
                                    case=wcase, impl=ra, model=ma, failing_input=True)
                    return True
                if "ok" not in a or a["ok"] != text:
                    check.violation("%s: the %s of type `%s` is written `%s` inside the program, but `%s` is translated to %s when it is the "
                                    "only type of the run: the translation depends on what was translated before"
                                    % (lang, where, rust, text, rust, a.get("ok", a)),
                                    case=wcase, impl=ra, model=ma, failing_input=True)
                    return True
                check.count("neighbours-sites-agree-with-expected-tree-and-alone")
        else:
            # every member is translatable (the others were dropped), so the program must be generated
            check.violation("%s refuses a program all of whose types it translates alone (%s): %s"
                            % (lang, ", ".join("`%s`" % render_type(m) for m in members), ra),
                            case=case, impl=ra, model=ma, failing_input=True)
            return True
        if ma_n != ra_n and mismatch is None:
            d = None
            if "ok" in ma_n and "ok" in ra_n:
                d = l2.text_diff("".join(v for _, v in sorted(ma_n["ok"].items())), "".join(v for _, v in sorted(ra_n["ok"].items())))
            mismatch = ("generate_types differs from the model on a program with neighbouring type expressions (%s, %s): %s"
                        % (lang, kind, d or (ma_n, ra_n)), case, ra, ma)
    if mismatch:
        what, case, ra, ma = mismatch
        check.violation(what, case=case, impl=ra, model=ma, failing_input=False,
                        broken="correspondence L2 generate_types (use sites of formatType; theorem TsV.C05.C05_compositional)")
        return True
    return False


# ------------------------------------------------------------------ how a setting travels to the back end (the binary)

# name, long flag, short flag, (typeshare.toml section, key), index in the record of the Lean configuration model
CLI_SETTINGS = [("swift-prefix", "--swift-prefix", "-s", ("swift", "prefix"), 0),
                ("kotlin-prefix", "--kotlin-prefix", "-k", ("kotlin", "prefix"), 1),
                ("java-package", "--java-package", "-j", ("kotlin", "package"), 2),
                ("kotlin-module", "--module-name", "-m", ("kotlin", "module_name"), 3),
                ("scala-package", "--scala-package", None, ("scala", "package"), 4),
                ("scala-module", "--scala-module-name", None, ("scala", "module_name"), 5),
                ("go-package", "--go-package", None, ("go", "package"), 6)]
# the setting of each language whose route is enumerated (the others are drawn); a language needs the ones in REQUIRED to run at all
PRIMARY = {"kotlin": "kotlin-prefix", "swift": "swift-prefix", "scala": "scala-package", "go": "go-package"}
REQUIRED = {"scala": "scala-package", "go": "go-package"}
PREFIX_VALUES = ["Pf", "OP", "X_", "F", "Foo", "Ba", "Node", "It", "KT", "SW", "Api", "Tk"]


def toml_of(secs):
    """{section: {key: text | bool | {key: text}}} -> the text of a typeshare.toml"""
    out = []
    for sec, kv in secs.items():
        out.append("[%s]" % sec)
        for k, v in kv.items():
            if not isinstance(v, dict):
                out.append("%s = %s" % (k, "true" if v is True else "false" if v is False else json.dumps(v)))
        for k, v in kv.items():
            if isinstance(v, dict):
                out.append("[%s.%s]" % (sec, k))
                out += ["%s = %s" % (json.dumps(kk), json.dumps(vv)) for kk, vv in v.items()]
        out.append("")
    return "\n".join(out)


def nested_user_members(rng):
    """a user type alone and below 1-3 stacked constructors (sequence, optional, map value / key, array, slice, erased pointer,
    argument of another user type), a user type applied to a user type and a parameter, a primitive / a parameter for contrast,
    and up to three members of one of the families of `family`"""
    u, v = rng.sample(USER, 2)
    U = t_path(u)
    wraps = [lambda x: t_path("Vec", [x]), lambda x: t_path("Option", [x]), lambda x: t_path("HashMap", [t_path("String"), x]),
             lambda x: ("array", x, 2), lambda x: t_path("Box", [x]), lambda x: t_path(v, [x]), lambda x: ("ref", ("slice", x), False)]
    out, cur = [U], U
    for _ in range(rng.randint(2, 3)):
        cur = rng.choice(wraps)(cur)
        out.append(cur)
    out.append(t_path(v, [U, t_path("T")]))
    out.append(t_path("HashMap", [rng.choice([t_path("String"), U]), t_path("Vec", [t_path("Option", [U])])]))
    out.append(t_path(rng.choice(["u32", "String", "T"])))
    out += family(rng, rng.choice(FAMILY_KINDS[:-1]))[:3]
    return out


def _setting_value(rng, name, tag, used):
    """a value for setting `name` that no other setting / route of the scenario has (so a value that arrives at the wrong place, or
    from the wrong source, shows)"""
    while True:
        if name.endswith("prefix"):
            v = rng.choice(PREFIX_VALUES)
        elif name.endswith("package"):
            v = "%s.%s%d.%s" % (rng.choice(["com", "org", "net"]), tag, rng.randint(0, 99), name[:2]) if name != "go-package" \
                else "%s%s%d" % (name[:2], tag, rng.randint(0, 99))
        else:
            v = "%sMod%d" % (tag.title(), rng.randint(0, 99))
        if v not in used:
            used.add(v)
            return v


def cli_scenario(rng, lang, route, company, no_file):
    """one way for the settings to arrive. `route`: where the primary setting of `lang` comes from (option / file / both / absent);
    `company`: which options *of the other languages* stand on the same command line (none / all / some); `no_file`: there is no
    typeshare.toml at all (every setting is an option or the default)."""
    used, opt, fil = set(), {}, {}
    for name, _long, _short, (sec, _key), _idx in CLI_SETTINGS:
        own = sec == lang
        if own:
            r = route if name == PRIMARY.get(lang) else rng.choice(["option", "file", "both", "absent"])
            if r == "absent" and REQUIRED.get(lang) == name:
                r = "both-same"
        else:
            r = {"none": "absent", "all": "option", "some": rng.choice(["absent", "option"])}[company]
            if rng.random() < 0.6:
                r = {"absent": "file", "option": "both"}[r]
        if no_file:
            r = {"file": "absent", "both": "option", "both-same": "option"}.get(r, r)
        if r in ("option", "both", "both-same"):
            opt[name] = _setting_value(rng, name, "opt", used)
        if r in ("file", "both"):
            fil[name] = _setting_value(rng, name, "file", used)
        if r == "both-same":
            fil[name] = opt[name]
        if r == "both" and name.endswith("prefix") and rng.random() < 0.2:
            opt[name] = ""                    # an option that is given but empty is still given
    eff = {name: opt[name] if name in opt else fil.get(name, "") for name, *_ in CLI_SETTINGS}
    return opt, fil, eff


def cli_tokens(rng, lang, opt, out_group, cfg_group, root):
    """the command line as a list of groups (one option with its value each) in a random order, each option in one of its
    spellings (long, long=value, short), the scanned directory at a random place"""
    groups = [rng.choice([["--lang", lang], ["-l", lang], ["--lang=" + lang]]), out_group]
    if cfg_group:
        groups.append(cfg_group)
    for name, long_, short, _sk, _idx in CLI_SETTINGS:
        if name in opt:
            v = opt[name]
            forms = [[long_, v]]
            if v != "":
                forms.append(["%s=%s" % (long_, v)])
            if short:
                forms.append([short, v])
            groups.append(rng.choice(forms))
    rng.shuffle(groups)
    groups.insert(rng.choice([0, len(groups), rng.randint(0, len(groups))]), [root])
    return groups


def effective_cfg(lang, eff, tm, nps):
    c = {"type_mappings": dict(tm), "version_header": True}
    if lang == "kotlin":
        c.update(package=eff["java-package"], module_name=eff["kotlin-module"], prefix=eff["kotlin-prefix"])
    elif lang == "swift":
        c.update(prefix=eff["swift-prefix"])
    elif lang == "scala":
        c.update(package=eff["scala-package"], module_name=eff["scala-module"])
    elif lang == "go":
        c.update(package=eff["go-package"], no_pointer_slice=nps)
    return c


def _read_outputs(sc, folder, lang):
    if folder:
        d = sc.path("out")
        return {fn: open(os.path.join(d, fn), encoding="utf-8").read() for fn in sorted(os.listdir(d))} if os.path.isdir(d) else {}
    p = sc.path("out." + EXT[lang])
    return {"": open(p, encoding="utf-8").read()} if os.path.exists(p) else {}


def _cli_run(sc, groups, cwd):
    args = [a for g_ in groups for a in g_]
    return args, run_cli(args, cwd=cwd)


def cli_settings_part(check):
    """the way a setting travels from the command line / typeshare.toml to the back end (the real binary): the settings the expected
    translation depends on - the Kotlin / Swift prefix, each language's own type_mappings table, Go's no_pointer_slice - and the package
    / module names arrive by every route: option, typeshare.toml (named by -c or found in an ancestor directory), both (the option
    wins, an empty option too), neither; alone, and *together with the options of the other languages on the same command line*
    (none / every one of the seven options at once / a random subset; the file has a section for every language, with other
    prefixes and with type_mappings tables that map the same keys to other names), in a random order of the options and in the
    reverse order, long / long=value / short spellings, single-file and folder output, all six languages.  The program uses user
    types alone and below 1-3 constructors as fields, variant fields, newtype payloads and alias targets.  Demands, judged on the
    files the binary wrote: every use site parses back to the tree `expected` demands under the *effective* settings (prefixed user
    type names at every depth, the language's own mappings) and equals the in-process translation of the expression under them;
    aliases are defined under the effective prefix; the files equal what the back end writes in-process when handed the effective
    settings; the order of the options does not matter.  The Lean configuration model gives the effective settings and the Lean
    back-end models are run under them."""
    rng = check.rng
    g = Gen(rng)
    reps = 12 if check.thorough else 2
    scen = []
    for rep in range(reps):
        for lang in LANGS:
            for route in ("option", "file", "both", "absent"):
                for company in ("none", "all", "some"):
                    folder = rng.random() < 0.3
                    no_file = route in ("option", "absent") and rng.random() < 0.35
                    opt, fil, eff = cli_scenario(rng, lang, route, company, no_file)
                    members = nested_user_members(rng)
                    tm = rand_cfg(rng, lang, rng.choice(members))["type_mappings"] if rng.random() < 0.5 and not no_file else {}
                    nps = rng.random() < 0.5 and not no_file
                    cfg = effective_cfg(lang, eff, tm, nps)
                    members = [m for m in members if translatable(lang, cfg, ["T"], m)]
                    if len(members) < 2:
                        check.count("cli-settings-family-too-small-after-dropping-refused-members")
                        continue
                    order = rng.sample(range(1, 90), len(members))
                    crates = rng.sample(["alpha", "beta", "gamma"], rng.randint(2, 3)) if folder else [""]
                    jobs, sites, names = neighbour_program(rng, members, order, rng.choice(["fields", "mixed"]), [True] * len(members), crates)
                    # typeshare.toml: a section for every language; the other languages' tables map the same keys (and a user type)
                    # to other names, so a table / a value that reaches the wrong back end shows
                    secs = {}
                    for M in rng.sample(LANGS, len(LANGS)):
                        sec = {}
                        for name, _l, _s, (s_, key), _i in CLI_SETTINGS:
                            if s_ == M and name in fil:
                                sec[key] = fil[name]
                        if M == "go":
                            sec["no_pointer_slice"] = nps if lang == "go" else rng.random() < 0.5
                        table = dict(tm) if M == lang else {k: "Other" + M.title() for k in tm}
                        if M != lang and rng.random() < 0.5:
                            table[rng.choice(USER)] = "Wrong" + M.title()
                        if table or rng.random() < 0.5:
                            sec["type_mappings"] = table
                        if sec or rng.random() < 0.5:
                            secs[M] = sec
                    has_file = not no_file
                    discover = rng.choice(["-c", "ancestor"]) if has_file else "no-file"
                    scen.append(dict(lang=lang, route=route, company=company, folder=folder, opt=opt, fil=fil, eff=eff, tm=tm, nps=nps,
                                     cfg=cfg, members=members, order=order, jobs=jobs, sites=sites, names=names,
                                     toml=toml_of(secs) if has_file else None, discover=discover))
    # in-process: the programs under the effective settings, each member alone, the Lean models
    reqs, alone, allnames, cfgreqs = [], [], set(), []
    for s in scen:
        mreq, rreq, texts = l2.requests(s["lang"], s["cfg"], s["jobs"], g, multi_file=s["folder"])
        s["texts"] = texts
        reqs.append((mreq, rreq))
        alone += [mk_requests(s["lang"], s["cfg"], ["T"], m)[1] for m in s["members"]]
        allnames |= s["names"]
        file7 = [s["fil"].get(name, "") for name, *_ in CLI_SETTINGS] if s["toml"] is not None else None
        cfgreqs.append([S("config"), file7, [s["opt"].get(name) for name, *_ in CLI_SETTINGS], s["lang"] == "go"])
    mans = model([m for m, _ in reqs], names=allnames | set(USER))
    cans = model(cfgreqs, with_unicode=False)
    rans = runner([r for _, r in reqs])
    aans = runner(alone)
    pos, mismatch = 0, None
    for s, ma, ca, ra in zip(scen, mans, cans, rans):
        lang, cfg, members, order, eff = s["lang"], s["cfg"], s["members"], s["order"], s["eff"]
        single = aans[pos:pos + len(members)]
        pos += len(members)
        runs = []
        with Scratch() as sc:
            root = "ws" if s["folder"] else "ws/proj"
            for j, t in zip(s["jobs"], s["texts"]):
                sc.write("%s/%s" % (root, j["path"]), t)
            cfg_group = None
            if s["toml"] is not None:
                if s["discover"] == "-c":
                    sc.write("cfg/settings.toml", s["toml"])
                    cfg_group = rng.choice([["-c", sc.path("cfg/settings.toml")], ["--config-file", sc.path("cfg/settings.toml")]])
                else:
                    sc.write("ws/typeshare.toml", s["toml"])
            out_group = ["-d", sc.path("out")] if s["folder"] else ["-o", sc.path("out." + EXT[lang])]
            groups = cli_tokens(rng, lang, s["opt"], out_group, cfg_group, sc.path(root))
            args, r = _cli_run(sc, groups, sc.path(root))
            outs = _read_outputs(sc, s["folder"], lang)
            runs.append((args, r, outs))
            if len(s["opt"]) >= 2:
                # the same options in the reverse order, into a fresh destination
                shutil.rmtree(sc.path("out"), ignore_errors=True)
                if os.path.exists(sc.path("out." + EXT[lang])):
                    os.remove(sc.path("out." + EXT[lang]))
                args2, r2 = _cli_run(sc, list(reversed(groups)), sc.path(root))
                runs.append((args2, r2, _read_outputs(sc, s["folder"], lang)))
            scratch = sc.dir
        show = lambda a: " ".join(x.replace(scratch, "$S") if x else '""' for x in a)
        given = sorted(s["opt"])
        check.saw(("cli-settings", lang, s["route"], s["company"], tuple(s["texts"]), json.dumps(cfg, sort_keys=True), s["toml"]), nontrivial=True)
        check.count("cli-settings-" + lang)
        check.count("cli-settings-primary-route-" + s["route"])
        check.count("cli-settings-other-languages-options-" + s["company"])
        check.count("cli-settings-options-on-one-command-line-%d" % len(given))
        check.count("cli-settings-config-" + s["discover"])
        check.count("cli-settings-output-" + ("folder" if s["folder"] else "file"))
        if "swift-prefix" in s["opt"] and "kotlin-prefix" in s["opt"]:
            check.count("cli-settings-both-prefix-options-" + lang)
        if any(v == "" for v in s["opt"].values()):
            check.count("cli-settings-empty-option-over-file-value")
        if s["tm"]:
            check.count("cli-settings-own-type-mappings-table")
        how = "`%s`%s" % (show(runs[0][0]), "" if s["toml"] is None else " with a typeshare.toml (%s) holding %s" % (
            s["discover"], ", ".join("%s = %r" % (n, v) for n, v in sorted(s["fil"].items())) or "no shared setting"))
        settings_txt = ", ".join("%s = %r" % (k, v) for k, v in sorted(cfg.items()) if k not in ("version_header",))
        case = {"lang": lang, "command_line": [x.replace(scratch, "$S") for x in runs[0][0]], "cwd": "$S/" + root,
                "typeshare_toml": s["toml"], "config_found_by": s["discover"],
                "sources": {"%s/%s" % (root, j["path"]): t for j, t in zip(s["jobs"], s["texts"])},
                "options": s["opt"], "file_values": s["fil"], "effective_settings": cfg,
                "members_in_declaration_and_name_order": [render_type(members[i]) for i in sorted(range(len(members)), key=lambda i: order[i])]}
        # the Lean configuration model agrees with the precedence rule the effective settings were computed by
        if ca.get("ok") != [eff[name] for name, *_ in CLI_SETTINGS] and mismatch is None:
            mismatch = ("the Lean configuration model gives the effective settings %s, the precedence rule (option, else file, else empty) "
                        "gives %s for %s" % (ca, eff, how), case, None, ca,
                        "correspondence of Config.overrideConfiguration with the rule of tools/c05.py (C20_override)")
        if "ok" not in ra:
            check.violation("%s refuses in-process a program all of whose types it translates alone (%s): %s"
                            % (lang, ", ".join("`%s`" % render_type(m) for m in members), ra), case=case, impl=ra, model=ma, failing_input=True)
            return True
        args, r, outs = runs[0]
        impl = {"rc": r["rc"], "stderr": (r["err"] or "")[-600:], "files": outs}
        if r["rc"] != 0 or not outs:
            check.violation("%s: the binary run as %s exits with %s and writes %d file(s); in-process the back end generates the program under the "
                            "effective settings (%s)" % (lang, how, r["rc"], len(outs), settings_txt), case=case, impl=impl, model=ma, failing_input=True)
            return True
        lines = [l.rstrip(",") for _fn, text_ in sorted(outs.items()) for l in text_.split("\n")]
        pfx = cfg.get("prefix", "")
        other_pfx = [p for p in dict.fromkeys(list(s["opt"].values()) + list(s["fil"].values()) + [""]) if p != pfx]
        for i, site, name, sc_ in s["sites"]:
            syn = members[i]
            rust = render_type(syn)
            a = norm_ans(single[i])
            check.count("cli-settings-sites")
            where = "%s `%s`" % (site, name)
            cands = site_texts(lang, site, name, pfx, sc_, lines)
            parsed = []
            for c in cands:
                try:
                    parse_target(lang, c)
                    parsed.append(c)
                except PErr:
                    pass
            if not parsed and lang in PREFIXES and site != "field":
                for p in other_pfx:
                    if site_texts(lang, site, name, p, sc_, lines):
                        check.violation("%s run as %s: the %s is defined as `%s%s`; the effective prefix is %r (%s)"
                                        % (lang, how, where, p, name, pfx, settings_txt),
                                        case=dict(case, site=name, rust_type=rust), impl=impl, model=ma, failing_input=True)
                        return True
            if not parsed:
                check.violation("%s run as %s: no line of the output carries a %s type expression for the %s of type `%s` (candidates %s; "
                                "in-process under the effective settings it translates to %s)" % (lang, how, lang, where, rust, cands, a.get("ok", a)),
                                case=dict(case, site=name, rust_type=rust), impl=impl, model=ma, failing_input=True)
                return True
            text = parsed[0]
            probs = oracle(lang, cfg, ["T"], syn, {"ok": text})
            wcase = dict(case, site=name, rust_type=rust, written=text, in_process=a.get("ok", a))
            unknown = [p for p, kid in probs if not (kid and check.known(kid, dict(wcase, problem=p)))]
            if unknown:
                check.violation("%s run as %s: the %s of type `%s` is written `%s`; under the effective settings (%s) the property demands "
                                "otherwise: %s" % (lang, how, where, rust, text, settings_txt, unknown[0]),
                                case=wcase, impl=impl, model=ma, failing_input=True)
                return True
            if "ok" not in a or a["ok"] != text:
                check.violation("%s run as %s: the %s of type `%s` is written `%s`; the back end handed the effective settings (%s) "
                                "translates `%s` to %s" % (lang, how, where, rust, text, settings_txt, rust, a.get("ok", a)),
                                case=wcase, impl=impl, model=ma, failing_input=True)
                return True
            check.count("cli-settings-sites-agree-with-expected-tree-and-in-process")
        # the files are what the back end writes when it is handed the effective settings
        for crate, want in ra["ok"].items():
            if crate.startswith("<post>/"):
                got = [t for fn, t in outs.items() if fn == crate[len("<post>/"):]]
            elif s["folder"]:
                got = [t for fn, t in outs.items() if fn.lower().startswith(crate.lower() + ".")]
            else:
                got = list(outs.values())
            if len(got) != 1 or got[0] != want:
                check.violation("%s run as %s: the file for `%s` differs from what the back end writes in-process under the effective "
                                "settings (%s): %s" % (lang, how, crate or "the single output", settings_txt,
                                                       l2.text_diff(want, got[0]).replace("model:", "in-process:").replace("impl :", "binary    :") if got else "no such file"),
                                case=case, impl=impl, model={"in_process": ra}, failing_input=True)
                return True
        check.count("cli-settings-files-equal-in-process-output")
        if len(runs) > 1:
            args2, r2, outs2 = runs[1]
            check.count("cli-settings-reversed-option-order")
            if r2["rc"] != 0 or outs2 != outs:
                diff = next((l2.text_diff(outs[k], outs2.get(k, "")) for k in outs if outs[k] != outs2.get(k)), "exit status %s" % r2["rc"])
                check.violation("%s: the same options in two orders give different output: `%s` vs `%s`: %s" % (lang, show(args), show(args2), diff),
                                case=dict(case, command_line_2=[x.replace(scratch, "$S") for x in args2]), impl=impl,
                                model={"rc": r2["rc"], "files": outs2}, failing_input=True)
                return True
        ma_n, ra_n = l2.norm(ma), l2.norm(ra)
        if ma_n != ra_n and mismatch is None:
            d = None
            if "ok" in ma_n and "ok" in ra_n:
                d = l2.text_diff("".join(v for _, v in sorted(ma_n["ok"].items())), "".join(v for _, v in sorted(ra_n["ok"].items())))
            mismatch = ("generate_types under the effective settings of a command line differs from the model (%s): %s" % (lang, d or (ma_n, ra_n)),
                        case, ra, ma, "correspondence L2 generate_types (use sites of formatType; theorem TsV.C05.C05_compositional)")
    if mismatch:
        what, case, ra, ma, broken = mismatch
        check.violation(what, case=case, impl=ra, model=ma, failing_input=False, broken=broken)
        return True
    return False


# ------------------------------------------------------------------ the check

WITNESSES = {
    "scala-unsigned-aliases": ("scala", "U53", "ULong"),
    "go-char-rune": ("go", "char", "rune"),
    "go-unit-struct": ("go", "()", "struct{}"),
}


def run(check):
    rng = check.rng
    check.rule = ("(a) all 15 parser primitives + the 4 rejected 64-bit names x 6 languages; (b) every type tree of depth <= 2 "
                  "(thorough: <= 3) over the basis {bool, String, u8, U53, f64, (), Foo, T, Foo<u8>} closed under Vec, [_;3], "
                  "&[_], Option, HashMap, Box, &, Bar<_>, for each language under a plain and a rich configuration (prefix, "
                  "mappings of Foo and Vec<u8>, no_pointer_slice), generics [T]; (c) random trees to depth 5 with all 11 "
                  "wrappers, path qualification, lifetimes, array lengths 0-16, random mapping tables whose keys are lookup "
                  "names of sub-trees of the tree itself, random prefixes / generic-parameter lists; (d) whole programs using a "
                  "random type as field, newtype payload, alias target and const type; (e) whole programs (one file, or 2-3 crates "
                  "of one multi-file run) whose fields, newtype payloads and alias targets are the 3-7 members of a family of type "
                  "expressions equal up to one component (array length, what is below an Option, generic arguments, map key vs "
                  "value, element, sequence kind, erased wrappers, nesting depth, `T` declared or not), in an order and its reverse, "
                  "each use site judged by the expected tree of its own expression and against the translation obtained alone; "
                  "(f) the binary: 6 languages x {option, typeshare.toml, both, neither} for the language's primary setting (prefix / "
                  "package) x {no, all seven, some} options of the other languages on the same command line, random order and its "
                  "reverse, three option spellings, -c / ancestor search, -o / -d, per-language type_mappings tables: user types at "
                  "nesting depth 0-3 at every use site judged by the expected tree under the effective settings, files equal to the "
                  "in-process output under them; "
                  "non-trivial = the type has a constructor or the configuration has a mapping")
    # (a) primitives
    cases = []
    for lang in LANGS:
        for p in PRIMS15 + UNSUPPORTED64 + ["str"]:
            syn = ("tuple", []) if p == "()" else ("ref", t_path("str"), False) if p == "str" else t_path(p)
            cases.append((lang, cfg_for(lang), [], syn))
    if run_batch(check, cases, "prim"):
        return
    # (b) exhaustive trees
    depth = 3 if check.thorough else 2
    ts = trees(depth, wide_maps=(depth == 2))
    rich = {"Foo": "Mapped", "Vec<u8>": "Bytes"}
    cases = []
    for lang in LANGS:
        for t in ts:
            cases.append((lang, cfg_for(lang), ["T"], t))
        for t in (trees(2, wide_maps=False) if not check.thorough else trees(2)):
            cases.append((lang, cfg_for(lang, rich, prefix="Pf", nps=True), ["T"], t))
    check.extra["exhaustive_trees"] = len(ts)
    check.exhaustive = True
    if run_batch(check, cases, "exh"):
        return
    # (c) random trees, random configurations
    n = 30000 if check.thorough else 5000
    cases = []
    for i in range(n):
        lang = LANGS[i % 6]
        syn = rand_tree(rng, rng.randint(1, 5))
        cfg = rand_cfg(rng, lang, syn)
        gens = rng.choice([[], ["T"], ["T", "U"], ["K", "T", "U"], ["T", "Foo"]])
        cases.append((lang, cfg, gens, syn))
    if run_batch(check, cases, "rand"):
        return
    # (d) use sites
    if use_sites(check, 1200 if check.thorough else 300):
        return
    if helper_generics_part(check):
        return
    if definition_generics_part(check):
        return
    # (e) several neighbouring type expressions in one run
    if neighbours_part(check):
        return
    # (f) the binary: the settings the expected translation depends on, arriving by every route
    if cli_settings_part(check):
        return
    # Go's acronym pass runs over whole formatted type expressions: a user type must come out the same at every position of a
    # type expression (alone, element, map key / value, generic argument) as where it is defined (the part is shared with C09)
    import c09
    c09.go_acronym_part(check)
    if check.has_failing():
        return
    # known findings: replay the stored witnesses
    for kid, (lang, prim, target) in WITNESSES.items():
        syn = ("tuple", []) if prim == "()" else t_path(prim)
        m, r, text = mk_requests(lang, cfg_for(lang), [], syn)
        ra = runner([r])[0]
        probs = oracle(lang, cfg_for(lang), [], syn, ra)
        if probs:
            check.known(kid, {"lang": lang, "rust_type": text, "output": ra, "problem": probs[0][0]})
    check.assumptions += [
        "TINFO / TsV.C05L.tinfo state what each target primitive type holds (Kotlin, Swift, Scala, Go, TypeScript, Python "
        "language definitions; Scala's U* names as aliased by typeshare's own output; Go `int` taken at its guaranteed 32 bits)",
        "a user type is not named like a target container keyword (List, HashMap, Record, Vector, Map, Option, Dict, "
        "Optional, map): the generators draw user names from {Foo, Bar, Baz, Item, Node}",
        "TypeScript expresses Option above the type level (property C04); Go with no_pointer_slice writes Option<Vec<T>> as "
        "a slice: both are language facts the expected tree reproduces"]


def replay(check, case):
    """re-run a stored violation: ./check C05 --replay build/replay/C05-….json"""
    c = case.get("case") or {}
    if "request" in c:
        ra = norm_ans(runner([c["request"]])[0])
        print("implementation now answers:", ra)
        print("stored implementation answer:", case.get("implementation"))
        return 0 if ra != case.get("implementation") else 1
    if "command_line" in c:
        # a binary-level case: sources, typeshare.toml and the command line are stored with `$S` for the scratch directory
        build_cli()
        with Scratch() as sc:
            for rel, text in c["sources"].items():
                sc.write(rel, text)
            if c.get("typeshare_toml") is not None:
                sc.write("cfg/settings.toml" if c.get("config_found_by") == "-c" else "ws/typeshare.toml", c["typeshare_toml"])
            r = run_cli([x.replace("$S", sc.dir) for x in c["command_line"]], cwd=c["cwd"].replace("$S", sc.dir))
            folder = "-d" in c["command_line"]
            outs = _read_outputs(sc, folder, c["lang"])
        print("typeshare", " ".join(x or '""' for x in c["command_line"]), "-> exit", r["rc"])
        for fn, text in outs.items():
            print("----", fn or "output file")
            print(text)
        stored = (case.get("implementation") or {}).get("files")
        return 0 if outs != stored else 1
    print("replay supports format_type and binary-level cases only")
    return 2

