import TsV.Props.C11_Coverage
/-!
# C11_VariantOrder, lemmas — programs whose items mention the same types in another order

`SameShape a a'`: same original name, same generic parameters, the types mentioned are a permutation.
`Similar items items'`: position by position `SameShape`.  The reference relation of `Props/C11_Coverage.lean` and
the three decidable hypotheses of its theorems (`NamesDistinct`, `DepthOk`, `GenericsUsed`) cannot tell two similar
programs apart.  `variantTypes` / `isPayload`: what a variant contributes; unit variants contribute nothing.
-/
namespace TsV.C11_VariantOrder
open TsV TsV.Deps TsV.Topsort TsV.C11

/-- the types one variant of an algebraic enum mentions -/
def variantTypes : RustEnumVariant → List RustType
  | .tuple _ _ ty => [ty]
  | .anonymousStruct _ _ fs => fs.map (·.ty)
  | .unit _ _ => []

def isPayload : RustEnumVariant → Bool
  | .unit _ _ => false
  | _ => true

theorem itemTypes_enum (e : RustEnum) (k : Str × Str) (h : e.keys = some k) :
    itemTypes (.enum e) = e.variants.flatMap variantTypes := by
  simp only [itemTypes, h]
  rfl

theorem itemTypes_enum_unit (e : RustEnum) (h : e.keys = none) : itemTypes (.enum e) = [] := by
  simp only [itemTypes, h]

/-- unit variants contribute nothing, wherever they stand -/
theorem flatMap_filter_payload : ∀ vs : List RustEnumVariant,
    (vs.filter isPayload).flatMap variantTypes = vs.flatMap variantTypes
  | [] => rfl
  | v :: vs => by
    cases v <;> simp [List.filter_cons, isPayload, variantTypes, flatMap_filter_payload vs]

structure SameShape (a a' : RustItem) : Prop where
  name : a'.originalName = a.originalName
  types : (itemTypes a').Perm (itemTypes a)
  gens : itemGenerics a' = itemGenerics a

structure Similar (items items' : List RustItem) : Prop where
  length : items'.length = items.length
  shape : ∀ (k : Nat) (a a' : RustItem), items[k]? = some a → items'[k]? = some a' → SameShape a a'

theorem SameShape.refl (a : RustItem) : SameShape a a := ⟨rfl, List.Perm.refl _, rfl⟩

theorem SameShape.refs {a a' : RustItem} (h : SameShape a a') (x : Str) : x ∈ refsItem a' ↔ x ∈ refsItem a := by
  simp only [mem_refsItem]
  constructor
  · rintro ⟨t, ht, hx⟩; exact ⟨t, h.types.mem_iff.1 ht, hx⟩
  · rintro ⟨t, ht, hx⟩; exact ⟨t, h.types.mem_iff.2 ht, hx⟩

variable {items items' : List RustItem}

theorem Similar.get (h : Similar items items') {k : Nat} {a : RustItem} (ha : items[k]? = some a) :
    ∃ a', items'[k]? = some a' ∧ SameShape a a' := by
  have hk : k < items'.length := by rw [h.length]; exact (List.getElem?_eq_some_iff.1 ha).1
  exact ⟨items'[k], List.getElem?_eq_getElem hk, h.shape k a _ ha (List.getElem?_eq_getElem hk)⟩

theorem Similar.get' (h : Similar items items') {k : Nat} {a' : RustItem} (ha : items'[k]? = some a') :
    ∃ a, items[k]? = some a ∧ SameShape a a' := by
  have hk : k < items.length := by rw [← h.length]; exact (List.getElem?_eq_some_iff.1 ha).1
  exact ⟨items[k], List.getElem?_eq_getElem hk, h.shape k _ a' (List.getElem?_eq_getElem hk) ha⟩

theorem Similar.names (h : Similar items items') :
    items'.map RustItem.originalName = items.map RustItem.originalName := by
  apply List.ext_getElem?
  intro k
  simp only [List.getElem?_map]
  cases ha : items[k]? with
  | none =>
    have : items'[k]? = none := by
      rw [List.getElem?_eq_none_iff] at ha ⊢; rw [h.length]; exact ha
    simp [this]
  | some a =>
    obtain ⟨a', ha', hs⟩ := h.get ha
    simp [ha', hs.name]

theorem lookup_isSome_iff (items : List RustItem) (g : Str) :
    (lookup items g).isSome ↔ g ∈ items.map RustItem.originalName := by
  constructor
  · intro h
    obtain ⟨thing, ht⟩ := Option.isSome_iff_exists.1 h
    exact List.mem_map.2 ⟨thing, lookup_mem ht, lookup_name ht⟩
  · intro h
    obtain ⟨it, hit, hn⟩ := List.mem_map.1 h
    rw [← hn]; exact lookup_isSome_of_mem hit

/-- **the reference relation is the same** -/
theorem Similar.refers (h : Similar items items') (a b : Nat) : Refers items' a b ↔ Refers items a b := by
  simp only [refers_iff]
  constructor
  · rintro ⟨x', y', hx', hy', hm⟩
    obtain ⟨x, hx, sx⟩ := h.get' hx'
    obtain ⟨y, hy, sy⟩ := h.get' hy'
    exact ⟨x, y, hx, hy, by rw [← sy.name]; exact (sx.refs _).1 hm⟩
  · rintro ⟨x, y, hx, hy, hm⟩
    obtain ⟨x', hx', sx⟩ := h.get hx
    obtain ⟨y', hy', sy⟩ := h.get hy
    exact ⟨x', y', hx', hy', by rw [sy.name]; exact (sx.refs _).2 hm⟩

theorem Similar.reach (h : Similar items items') {a b : Nat} (r : RefReach items' a b) : RefReach items a b := by
  induction r with
  | single hr => exact .single ((h.refers _ _).1 hr)
  | step _ hr ih => exact .step ih ((h.refers _ _).1 hr)

theorem Similar.namesDistinct (h : Similar items items') (hd : NamesDistinct items) : NamesDistinct items' := by
  unfold NamesDistinct at *; rw [h.names]; exact hd

theorem Similar.depthOk (h : Similar items items') (hd : DepthOk items) : DepthOk items' := by
  intro it' hit' t ht
  obtain ⟨k, hk⟩ := List.mem_iff_getElem?.1 hit'
  obtain ⟨it, hit, hs⟩ := h.get' hk
  have := hd it (List.mem_iff_getElem?.2 ⟨k, hit⟩) t (hs.types.mem_iff.1 ht)
  simpa [fuelFor, h.length] using this

theorem Similar.genericsUsed (h : Similar items items') (hg : GenericsUsed items) : GenericsUsed items' := by
  intro it' hit' g hgm hl
  obtain ⟨k, hk⟩ := List.mem_iff_getElem?.1 hit'
  obtain ⟨it, hit, hs⟩ := h.get' hk
  rw [lookup_isSome_iff, h.names, ← lookup_isSome_iff] at hl
  exact (hs.refs g).2 (hg it (List.mem_iff_getElem?.2 ⟨k, hit⟩) g (by rw [← hs.gens]; exact hgm) hl)

/-- replacing one item by one of the same shape -/
theorem similar_set {i : Nat} {a a' : RustItem} (ha : items[i]? = some a) (hs : SameShape a a') :
    Similar items (items.set i a') := by
  refine ⟨by simp, ?_⟩
  intro k x x' hx hx'
  by_cases hik : i = k
  · subst hik
    have hi : i < items.length := (List.getElem?_eq_some_iff.1 ha).1
    rw [List.getElem?_set_self hi] at hx'
    rw [ha] at hx
    cases hx; cases hx'; exact hs
  · rw [List.getElem?_set_ne hik] at hx'
    rw [hx] at hx'; cases hx'; exact SameShape.refl _

/-- what `get_dependencies` pushes for an item without generic parameters of its own (struct, enum, const, plain
alias) are names its own types mention: the nested call after a push is a no-op (`depsItem_of_seen`), so nothing
transitive is recorded -/
theorem depsItem_direct (items : List RustItem) (f : Nat) (it : RustItem) (hgen : itemGenerics it = []) (x : Str)
    (hx : x ∈ (depsItem items f it ⟨[], []⟩).res) : x ∈ refsItem it := by
  cases f with
  | zero => rw [depsItem_zero] at hx; cases hx
  | succ f =>
    rw [depsItem_succ items f it ⟨[], []⟩ (by simp)] at hx
    rw [itemGenerics_eq] at hgen
    simp only [remove_res, hgen, gensFold, List.foldl_nil] at hx
    rcases typesFold_sound items f _ _ x hx with h | ⟨t, ht, hxt⟩
    · cases h
    · exact mem_refsItem.2 ⟨t, by rw [itemTypes_eq]; exact ht, hxt⟩

end TsV.C11_VariantOrder
