import TsV.Model.Pipeline
namespace TsV.C06
open TsV
/-- placeholder while the invariance theorems are being written: the collector keeps crates in key order -/
theorem collect_nil : Pipeline.collect [] = [] := rfl
end TsV.C06
