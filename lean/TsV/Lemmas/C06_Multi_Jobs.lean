import TsV.Lemmas.C06_Multi_Collect
import TsV.Model.Generate
/-!
# The job list of a multi-file run, up to arrival order and hash orders

`jobsWith σ m` is the list `(crate, data, scoped imports)` that `Generate.run` hands to the back ends in
multi-file mode, for the collected map `m`; `σ` is the iteration order of the `all_types` hash map, which only the
re-export fallback of `used_imports` (`firstOther`) looks at.
-/
namespace TsV.C06M
open TsV TsV.Pipeline TsV.Collect

/-! ### the fallback choice `firstOther` -/

/-- a crate other than `cur` that defines `name` -/
def cand (cur name : Str) (p : Str × List Str) : Bool := p.1 != cur && p.2.contains name

theorem firstOther_eq (all : List (Str × List Str)) (cur name : Str) :
    Generate.firstOther all cur name = (all.find? (cand cur name)).map (·.1) := rfl

theorem eq_of_length_le_one {α} : ∀ {l : List α}, l.length ≤ 1 → ∀ {x y}, x ∈ l → y ∈ l → x = y
  | [], _, _, _, hx, _ => by simp at hx
  | [z], _, x, y, hx, hy => by simp at hx hy; rw [hx, hy]
  | _ :: _ :: _, h, _, _, _, _ => by simp at h

/-- hash order of `all_types`: with at most one candidate every iteration order finds the same crate -/
theorem firstOther_perm (all all' : List (Str × List Str)) (cur name : Str) (hp : all.Perm all')
    (h1 : (all.filter (cand cur name)).length ≤ 1) :
    Generate.firstOther all cur name = Generate.firstOther all' cur name := by
  rw [firstOther_eq, firstOther_eq]
  apply find?_map_congr_mem _ _ _ _ (fun _ => hp.mem_iff)
  intro x hx y hy px py
  rw [eq_of_length_le_one h1 (List.mem_filter.2 ⟨hx, px⟩) (List.mem_filter.2 ⟨hy, py⟩)]

theorem AllRel.cand {cur name : Str} {x y : Str × List Str} (h : x.1 = y.1 ∧ ∀ t, t ∈ x.2 ↔ t ∈ y.2) :
    cand cur name x = cand cur name y := by
  unfold C06M.cand
  rw [h.1, contains_congr h.2]

theorem AllRel.firstOther (cur name : Str) : ∀ {all all' : List (Str × List Str)}, AllRel all all' →
    Generate.firstOther all cur name = Generate.firstOther all' cur name
  | [], [], _ => rfl
  | x :: t, y :: t', h => by
    have ih := AllRel.firstOther cur name h.2
    rw [firstOther_eq, firstOther_eq] at ih ⊢
    simp only [List.find?_cons, ← AllRel.cand (cur := cur) (name := name) h.1]
    cases hc : C06M.cand cur name x with
    | true => simp [h.1.1]
    | false => exact ih
  | [], _ :: _, h => h.elim
  | _ :: _, [], h => h.elim

theorem AllRel.filter_length (cur name : Str) : ∀ {all all' : List (Str × List Str)}, AllRel all all' →
    (all.filter (C06M.cand cur name)).length = (all'.filter (C06M.cand cur name)).length
  | [], [], _ => rfl
  | x :: t, y :: t', h => by
    have ih := AllRel.filter_length cur name h.2
    simp only [List.filter_cons, ← AllRel.cand (cur := cur) (name := name) h.1]
    cases hc : C06M.cand cur name x <;> simp [ih]
  | [], _ :: _, h => h.elim
  | _ :: _, [], h => h.elim

/-- for every import of `d` that falls back to the re-export search there is at most one candidate crate -/
def FallbackOK (all : List (Str × List Str)) (d : ParsedData) : Bool :=
  d.importTypes.all fun imp =>
    imp.baseCrate == d.crateName || !takesFallback all imp ||
      decide ((all.filter (cand d.crateName imp.typeName)).length ≤ 1)

/-- **the hypothesis on hash-order sensitive inputs** (decidable): every crate's import set is unambiguous
for `resolve_renamed` (`ImportsOK`) and for the re-export fallback of `used_imports` (`FallbackOK`) -/
def Unambiguous (m : List (Str × ParsedData)) : Bool :=
  ImportsUnambiguous m && m.all fun p => FallbackOK (allTypes m) p.2

/-! ### the job list -/

abbrev Job := Str × ParsedData × Option ScopedCrateTypes

/-- the jobs of a multi-file run on the collected map `m`; `σ` = iteration order of the `all_types` hash map -/
def jobsWith (σ : List (Str × List Str) → List (Str × List Str)) (m : List (Str × ParsedData)) : List Job :=
  let crates := reconcile m
  let all := allTypes crates
  crates.map fun (c, d) =>
    (c, d, some (usedImports d all d.importTypes (Generate.firstOther (σ all) d.crateName)))

/-- what a back end can see of a job: the sorted item lists, crate key, crate name, file name, mode and the
scoped imports (the hash sets `import_types` / `type_names` have been consumed by `used_imports`) -/
def jobView (j : Job) : Str × List RustStruct × List RustEnum × List RustTypeAlias × List RustConst ×
    Str × Str × Bool × Option ScopedCrateTypes :=
  (j.1, j.2.1.structs, j.2.1.enums, j.2.1.aliases, j.2.1.consts, j.2.1.crateName, j.2.1.fileName,
   j.2.1.multiFile, j.2.2)

theorem allRel_of_mapEq {m m' : List (Str × ParsedData)} (h : MapEq m m') : AllRel (allTypes m) (allTypes m') := by
  unfold allTypes AllRel
  apply Rel₂.map
  exact Rel₂.imp h fun p q _ _ hpq => ⟨hpq.1, hpq.2.typeNames⟩

theorem mem_reconcile {m : List (Str × ParsedData)} {x : Str × ParsedData} (hx : x ∈ reconcile m) :
    ∃ p ∈ m, x.2.importTypes = p.2.importTypes ∧ x.2.crateName = p.2.crateName := by
  rw [reconcile_eq] at hx
  obtain ⟨p, hp, rfl⟩ := List.mem_map.1 hx
  exact ⟨p, hp, rfl, rfl⟩

/-- **the job list is a function of the equivalence class of the collected map** -/
theorem jobs_congr {m m' : List (Str × ParsedData)} (h : MapEq m m') (wf : MapWF m)
    (hu : Unambiguous m = true) (σ σ' : List (Str × List Str) → List (Str × List Str))
    (hσ : ∀ l, (σ l).Perm l) (hσ' : ∀ l, (σ' l).Perm l) :
    (jobsWith σ m).map jobView = (jobsWith σ' m').map jobView := by
  unfold Unambiguous at hu
  simp only [Bool.and_eq_true] at hu
  have hrec := reconcile_mapEq h wf hu.1
  have hall : AllRel (allTypes m) (allTypes m') := allRel_of_mapEq h
  unfold jobsWith
  simp only [List.map_map, allTypes_reconcile]
  apply Rel₂.map_eq hrec
  intro x y hx _ hxy
  obtain ⟨p, hp, hpi, hpc⟩ := mem_reconcile hx
  have hfb := List.all_eq_true.1 hu.2 p hp
  unfold FallbackOK at hfb
  have husd : usedImports x.2 (allTypes m) x.2.importTypes (Generate.firstOther (σ (allTypes m)) x.2.crateName) =
      usedImports y.2 (allTypes m') y.2.importTypes (Generate.firstOther (σ' (allTypes m')) y.2.crateName) := by
    apply usedImports_congr x.2 y.2 hxy.crateName _ _ _ _ _ _ hxy.imports
    intro i hi hne
    apply contrib_congr _ _ _ _ _ hall
    intro htf
    have h1 := List.all_eq_true.1 hfb i (hpi ▸ hi)
    rw [← hpc] at h1
    have hne' : (i.baseCrate == x.2.crateName) = false := by simpa using hne
    simp only [hne', htf, Bool.not_true, Bool.or_false, Bool.false_or, decide_eq_true_eq] at h1
    have h2 : ((allTypes m').filter (cand x.2.crateName i.typeName)).length ≤ 1 := by
      rw [← hall.filter_length]; exact h1
    rw [firstOther_perm _ _ _ _ (hσ (allTypes m)) (by rw [((hσ (allTypes m)).filter _).length_eq]; exact h1),
      hall.firstOther, ← hxy.crateName,
      firstOther_perm _ _ _ _ (hσ' (allTypes m')) (by rw [((hσ' (allTypes m')).filter _).length_eq]; exact h2)]
  obtain ⟨c, d⟩ := x
  obtain ⟨c', d'⟩ := y
  simp only [Function.comp, jobView]
  simp only at husd
  rw [husd, hxy.structs, hxy.enums, hxy.aliases, hxy.consts, hxy.crateName, hxy.fileName, hxy.multiFile]
  have := hxy.key
  simp only at this
  rw [this]

/-- the hash sets and the recorded errors of the jobs agree as sets / up to order -/
theorem jobs_sets {m m' : List (Str × ParsedData)} (h : MapEq m m') (wf : MapWF m)
    (hu : Unambiguous m = true) :
    Rel₂ (fun p q : Str × ParsedData => (∀ i, i ∈ p.2.importTypes ↔ i ∈ q.2.importTypes) ∧
      (∀ t, t ∈ p.2.typeNames ↔ t ∈ q.2.typeNames) ∧ p.2.errors.Perm q.2.errors) (reconcile m) (reconcile m') := by
  unfold Unambiguous at hu
  simp only [Bool.and_eq_true] at hu
  exact Rel₂.imp (reconcile_mapEq h wf hu.1) fun _ _ _ _ hr => ⟨hr.imports, hr.typeNames, hr.errors⟩

/-- `check_parse_errors` takes the same branch -/
theorem allErrors_isEmpty_congr {m m' : List (Str × ParsedData)} (h : MapEq m m') (wf : MapWF m)
    (hu : Unambiguous m = true) :
    (allErrors (reconcile m)).isEmpty = (allErrors (reconcile m')).isEmpty := by
  have hp : (allErrors (reconcile m)).Perm (allErrors (reconcile m')) := by
    unfold allErrors
    exact Rel₂.flatMap_perm (jobs_sets h wf hu) fun _ _ _ _ hr => hr.2.2
  rw [Bool.eq_iff_iff]
  simp only [List.isEmpty_iff]
  exact ⟨fun e => by rw [e] at hp; exact hp.symm.eq_nil, fun e => by rw [e] at hp; exact hp.eq_nil⟩

/-- `Generate.run` in multi-file mode hands exactly `jobsWith id (collect arrivals)` to the back end -/
theorem run_multi_eq (E : Ext) (lang : Generate.LangCfg) (targetOs : List Str)
    (pick : List ImportedType → Option ImportedType) (files : List Generate.SourceFile) :
    Generate.run E lang true targetOs pick files =
      (Generate.parseAll E { ignoredTypes := Generate.ignoredTypes lang, multiFile := true, targetOs } pick files).bind
        fun arrivals =>
          let errs := allErrors (reconcile (collect arrivals))
          if !errs.isEmpty then .ok (.parseErrors errs)
          else
            (match lang with
            | .typescript cfg => Lang.TypeScript.generateAll E cfg true (jobsWith id (collect arrivals))
            | .kotlin cfg => Lang.Kotlin.generateAll E cfg true (jobsWith id (collect arrivals))
            | .swift cfg => Lang.Swift.generateAll E cfg true (jobsWith id (collect arrivals))
            | .scala cfg => Lang.Scala.generateAll E cfg true (jobsWith id (collect arrivals))
            | .go cfg => Lang.Go.generateAll E cfg true (jobsWith id (collect arrivals))
            | .python cfg => Lang.Python.generateAll E cfg true (jobsWith id (collect arrivals))).bind
              fun o => .ok (.outputs o) := rfl

end TsV.C06M
