"""C17 — re-running is idempotent and the output depends only on the latest inputs (cli/src/writer.rs)."""
import time
from common import *
from syn_gen import *
from gen import Gen, TYPE_WORDS

NEEDS = ("cli",)


def make_version(rng, crates):
    """one version of a workspace: crate -> source text (valid programs; disjoint type names per crate)"""
    words = rng.sample(TYPE_WORDS, 4 * len(crates))
    out = {}
    for i, c in enumerate(crates):
        g = Gen(rng, p_serialized_as=0.0, p_decorators=0.0, p_const=0.0, p_cfg=0.0)
        f = g.file(names=rng.sample(words[4 * i:4 * i + 4], rng.randint(1, 4)))
        out[c] = render_file(f)
    return out


def same_length_variant(rng, version):
    """the same workspace with one type name replaced by a different name of equal length everywhere:
    the generated text changes, its byte length does not"""
    import re
    out = dict(version)
    for crate, text in version.items():
        present = [w for w in TYPE_WORDS if re.search(r"\b%s\b" % w, text)]
        rng.shuffle(present)
        for w in present:
            cands = [c for c in TYPE_WORDS if len(c) == len(w) and c != w and not re.search(r"\b%s\b" % c, text)]
            if cands:
                out[crate] = re.sub(r"\b%s\b" % w, rng.choice(cands), text)
                return out
    return out


def write_tree(sc, root, version):
    """-> extra command-line arguments (the version's own typeshare.toml, if it has one)"""
    shutil.rmtree(sc.path(root), ignore_errors=True)
    extra = []
    for crate, text in version.items():
        if crate == "__toml__":
            extra = ["-c", sc.write("%s/typeshare.toml" % root, text)]
        else:
            # NEST_OUT: the sources have a directory called like the destination (`src/out/` next to `-d out`): names are only names
            sub = "out/" if NEST_OUT[0] and crate == sorted(c for c in version if c != "__toml__")[0] else ""
            sc.write("%s/%s/src/%slib.rs" % (root, crate, sub), text)
    if OLD_SOURCES[0]:
        # the inputs carry old time stamps (a checkout, `cp -p`, an unpacked archive): what is written must not depend on them
        for d, _, fs in os.walk(sc.path(root), topdown=False):
            for f in fs:
                os.utime(os.path.join(d, f), (1000000000, 1000000000))
            os.utime(d, (1000000000, 1000000000))
    return extra


OLD_SOURCES = [False]
NEST_OUT = [False]


def outputs_of(dirpath):
    res = {}
    if os.path.isdir(dirpath):
        for f in sorted(os.listdir(dirpath)):
            p = os.path.join(dirpath, f)
            st = os.stat(p)
            res[f] = (open(p, "rb").read().decode("utf-8", "replace"), st.st_mtime_ns)
    return res


def run(check):
    rng = check.rng
    nh = 120 if check.thorough else 24
    maxlen = 6 if check.thorough else 4
    check.rule = ("histories of 2-%d runs of the real binary alternating between 2-4 versions of a 1-3 crate workspace "
                  "(types added / removed / renamed / moved), single-file (-o) and multi-file (-d) mode, all six "
                  "languages; after every run the bytes and ns-mtimes of every output file are compared with the "
                  "Writer model fed with the output of a fresh-directory reference run; non-trivial = the history "
                  "repeats a version or returns to an earlier one" % maxlen)
    mismatches = 0
    for h in range(nh):
        OLD_SOURCES[0] = (h % 3 == 1)
        check.count("sources-with-old-time-stamps" if OLD_SOURCES[0] else "sources-freshly-written")
        NEST_OUT[0] = (h % 4 in (0, 3))
        check.count("sources-with-a-directory-named-like-the-destination" if NEST_OUT[0] else "sources-plain-directories")
        lang = LANGS[h % 6]
        multi = (h // 6) % 2 == 0
        crates = rng.sample(["alpha", "beta-x", "gamma"], rng.randint(1, 3)) if multi else ["one"]
        if multi and lang != "swift" and h % 4 == 0:
            # two crates whose names differ in letter-case convention only: two crates, two module files (Swift's PascalCase file
            # names collide here - C14's open finding swift-module-file-collision - so Swift is left out)
            crates = ["ApiV2", "api_v2"] + crates[:1]
        versions = [make_version(rng, crates) for _ in range(rng.randint(2, 4))]
        versions.append(same_length_variant(rng, versions[0]))      # equal output size, different bytes
        if multi and rng.random() < 0.5 and len(crates) > 1:
            versions.append({c: t for c, t in list(versions[0].items())[:-1]})     # a crate disappears
        # v0 plus one item that is emitted last (a unit enum sorting after everything) resp. first (an alias sorting before
        # everything): going back to v0 makes the new output a strict prefix resp. suffix of what is on disk
        c0 = sorted(versions[0])[-1]
        tail = dict(versions[0]); tail[c0] = versions[0][c0] + "\n#[typeshare]\npub enum ZzzTail {\n    Aa,\n    Bb,\n}\n"
        head = dict(versions[0]); head[c0] = versions[0][c0] + "\n#[typeshare]\npub type AaaHead = u8;\n"
        extra = []
        if rng.random() < 0.7:
            versions.append(tail); extra += [len(versions) - 1, 0]
        if rng.random() < 0.4:
            versions.append(head); extra += [len(versions) - 1, 0]
        samelen = [i for i, v in enumerate(versions) if i and v != versions[0] and
                   all(len(v.get(c, "")) == len(t) for c, t in versions[0].items())]
        hist = [0] + [rng.randrange(len(versions)) for _ in range(rng.randint(1, maxlen - 1))]
        if samelen:
            hist.insert(1, samelen[0])        # v0 -> its equal-length twin -> …
        hist += extra                         # … -> v0 + last / first item -> v0
        if lang == "swift" and multi:
            # the shared Codable.swift depends on the configuration only: a unit type in the sources and two settings of
            # swift.codablevoid_constraints, the second one giving a *shorter* file
            vu = dict(versions[0]); vu[c0] = versions[0][c0] + "\n#[typeshare]\npub struct UnitUser {\n    pub u: (),\n}\n"
            va = dict(vu); va["__toml__"] = "[swift]\ncodablevoid_constraints = [\"Equatable\", \"Hashable\"]\n"
            vb = dict(vu); vb["__toml__"] = "[swift]\ncodablevoid_constraints = [\"Equatable\"]\n"
            versions += [va, vb]
            ia, ib = len(versions) - 2, len(versions) - 1
            hist += [ia, ib, ib, ia]
        if rng.random() < 0.7:
            hist.insert(rng.randint(1, len(hist)), hist[rng.randrange(len(hist))])     # a return to an earlier version
        k = rng.randrange(len(hist))
        hist.insert(k, hist[k])                                                        # an immediate re-run on unchanged inputs
        check.saw((lang, multi, tuple(hist), json.dumps(versions, sort_keys=True)), nontrivial=len(set(hist)) < len(hist))
        check.count("%s-%s" % (lang, "multi" if multi else "single"))
        with Scratch() as sc:
            # reference outputs: each version generated into an empty location
            ref = {}
            for vi in sorted(set(hist)):
                cfg_args = write_tree(sc, "ws", versions[vi])
                tgt = ["-d", sc.path("ref%d" % vi)] if multi else ["-o", sc.path("ref%d/out.%s" % (vi, EXT[lang]))]
                r = run_cli(["--lang", lang] + tgt + lang_args(lang) + cfg_args + [sc.path("ws")], cwd=sc.dir)
                ref[vi] = (r["rc"], outputs_of(sc.path("ref%d" % vi)))
            fs_model = []          # [path, bytes, mtime] with abstract times = step index
            real_prev = {}
            # how the destination is spelled on the command line (the same file every time): absolute, relative with a directory
            # part, `./name`, or a bare file name resolved against the working directory
            spell = ["absolute", "bare", "relative", "dot"][(h // 12 + h) % 4]
            check.count("destination-spelled-" + spell)
            for step, vi in enumerate(hist):
                cfg_args = write_tree(sc, "ws", versions[vi])
                time.sleep(0.02)
                # the destination folder of the first run exists already (empty) or is made by typeshare itself
                if not (multi and spell != "bare" and h % 2 == 0):
                    os.makedirs(sc.path("out"), exist_ok=True)
                elif step == 0:
                    check.count("destination-folder-made-by-the-first-run")
                cwd = sc.dir
                if multi:
                    tgt = ["-d", sc.path("out")] if spell == "absolute" else ["-d", "out"] if spell == "relative" else ["-d", "./out"] if spell == "dot" else ["-d", "."]
                    cwd = sc.path("out") if spell == "bare" else sc.dir
                else:
                    fn = "out.%s" % EXT[lang]
                    tgt = {"absolute": ["-o", sc.path("out/" + fn)], "relative": ["-o", "out/" + fn], "dot": ["-o", "./" + fn], "bare": ["-o", fn]}[spell]
                    cwd = sc.path("out") if spell in ("dot", "bare") else sc.dir
                r = run_cli(["--lang", lang] + tgt + lang_args(lang) + cfg_args + [sc.path("ws")], cwd=cwd)
                real = outputs_of(sc.path("out"))
                rc_ref, outs_ref = ref[vi]
                # the model: Writer.run on the reference outputs (in path order = crate order)
                outs = sorted((f, b) for f, (b, _) in outs_ref.items())     # also the partial output of a run that fails midway
                ans = model([[S("writer-run"), [[p, b, m] for p, b, m in fs_model], step + 1, [[f, b] for f, b in outs]]],
                            with_unicode=False)[0]
                fs_model = ans["fs"]
                problem = None
                if r["rc"] != rc_ref:
                    problem = "exit status %s, reference run into an empty folder had %s" % (r["rc"], rc_ref)
                model_files = {p: (b, m) for p, b, m in fs_model}
                if problem is None and set(model_files) != set(real):
                    problem = "files %s, model predicts %s" % (sorted(real), sorted(model_files))
                if problem is None:
                    for f, (b, mt) in real.items():
                        mb, mm = model_files[f]
                        if b != mb:
                            problem = "%s does not have the content a fresh run produces" % f
                            break
                        rewritten = f not in real_prev or real_prev[f][1] != mt
                        predicted = (mm == step + 1)
                        if rewritten != predicted:
                            if rewritten and f == "Codable.swift" and check.known("swift-codable-rewritten", {"history": hist, "step": step}):
                                continue
                            problem = "%s was %s although the model predicts %s" % (
                                f, "rewritten (mtime changed)" if rewritten else "left untouched", "a write" if predicted else "no write")
                            break
                if problem:
                    mismatches += 1
                    failing = True
                    check.violation("history %s, step %d (%s, %s): %s" % (hist, step, lang, "-d" if multi else "-o", problem),
                                    case={"lang": lang, "multi_file": multi, "versions": versions, "history": hist, "step": step, "destination_spelled": spell},
                                    impl={"files": {f: {"mtime_ns": mt, "bytes": b[:2000]} for f, (b, mt) in real.items()}, "stderr": r["err"][-1000:]},
                                    model={"fs": fs_model, "actions": ans["actions"]}, failing_input=failing)
                    break
                real_prev = real
            if len(check.samples) < 3:
                check.sample({"lang": lang, "multi_file": multi, "history": hist, "files_after_last_run": sorted(real_prev)})
        if mismatches:
            break
    check.assumptions += ["the file system is modelled as a finite map path -> (bytes, mtime); generated bytes are taken from a fresh-directory reference run of the same binary",
                          "every back end writes a non-empty file for a non-empty crate (header or declaration); the empty-output hole of check_write_file is shown as a kernel-checked example"]
