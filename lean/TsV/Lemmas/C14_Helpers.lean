import TsV.Lemmas.C12_Swift
/-!
# C14, Swift's helper file — lemmas

`Swift::should_emit_codable_void` accumulates over the modules of a run (`C12L.Swift.used`: the
items of a module make the printer format `()`).  `Modules` describes the crate files of a run:
each is `begin_file`, the item blocks, and what `end_file` writes for the flag so far.
-/
namespace TsV.C14H
open TsV TsV.Lang TsV.Lang.Swift TsV.Outcome TsV.C12L TsV.C12L.Swift

abbrev Job := Str × ParsedData × Option Pipeline.ScopedCrateTypes

theorem bindPair {α β γ} {x : Outcome (α × β)} {f : α × β → Outcome γ} {r}
    (h : x.bind f = .ok r) : ∃ a b, x = .ok (a, b) ∧ f (a, b) = .ok r := by
  cases x with
  | ok p => exact ⟨p.1, p.2, rfl, h⟩
  | err e => cases h
  | panic s => cases h

/-- some module of the run mentions `CodableVoid` -/
def runUses (cfg : Cfg) (jobs : List Job) : Bool := jobs.any fun j => used cfg j.2.1

/-- `body` is what `write_items` prints for the module `d` (in some printer state) -/
def IsBody (U : UnicodeOps) (cfg : Cfg) (d : ParsedData) (body : Str) : Prop :=
  ∃ items st st', Pipeline.generateOrder d = some items ∧ writeItems U cfg items st = .ok (body, st')

/-- the crate files of a run that starts with the flag `st` -/
inductive Modules (U : UnicodeOps) (cfg : Cfg) (multi : Bool) : St → List Job → List (Str × Str) → Prop
  | nil (st : St) : Modules U cfg multi st [] []
  | cons {st : St} {c : Str} {d : ParsedData} {imps : Option Pipeline.ScopedCrateTypes} {rest : List Job}
      {outs : List (Str × Str)} {body : Str} :
      IsBody U cfg d body → Modules U cfg multi (st || used cfg d) rest outs →
      Modules U cfg multi st ((c, d, imps) :: rest)
        ((c, beginFile cfg ++ body ++ endFile cfg multi (st || used cfg d)) :: outs)

theorem generate_body (U : UnicodeOps) (cfg : Cfg) (multi : Bool) (d : ParsedData) (st0 : St) (text : Str) (st : St)
    (h : generate U cfg multi d st0 = .ok (text, st)) :
    st = (st0 || used cfg d) ∧ ∃ body, IsBody U cfg d body ∧ text = beginFile cfg ++ body ++ endFile cfg multi st := by
  have hst := (generate_spec U cfg multi d st0 text st h).1
  refine ⟨hst, ?_⟩
  unfold generate at h
  cases ho : Pipeline.generateOrder d with
  | none => rw [ho] at h; simp at h
  | some items =>
    rw [ho] at h
    obtain ⟨body, st1, h1, h2⟩ := bindPair h
    simp only [Outcome.ok.injEq, Prod.mk.injEq] at h2
    obtain ⟨rfl, rfl⟩ := h2
    exact ⟨body, ⟨items, st0, st1, ho, h1⟩, rfl⟩

theorem generateFrom_modules (U : UnicodeOps) (cfg : Cfg) (multi : Bool) :
    ∀ (jobs : List Job) (st0 : St) (outs : List (Str × Str)) (st : St),
      generateFrom U cfg multi jobs st0 = .ok (outs, st) →
      st = (st0 || runUses cfg jobs) ∧ Modules U cfg multi st0 jobs outs
  | [], st0, outs, st, h => by
    simp only [generateFrom, Outcome.ok.injEq, Prod.mk.injEq] at h
    obtain ⟨rfl, rfl⟩ := h
    exact ⟨by simp [runUses], .nil _⟩
  | (c, d, imps) :: rest, st0, outs, st, h => by
    simp only [generateFrom] at h
    obtain ⟨text, st1, h1, h⟩ := bindPair h
    obtain ⟨outs', st2, h2, h⟩ := bindPair h
    simp only [Outcome.ok.injEq, Prod.mk.injEq] at h
    obtain ⟨rfl, rfl⟩ := h
    obtain ⟨hst1, body, hb, rfl⟩ := generate_body U cfg multi d st0 text st1 h1
    obtain ⟨hst2, hm⟩ := generateFrom_modules U cfg multi rest st1 outs' st2 h2
    subst hst1
    exact ⟨by simp [hst2, runUses, Bool.or_assoc], .cons hb hm⟩

theorem Modules.names {U : UnicodeOps} {cfg : Cfg} {multi : Bool} {st : St} {jobs : List Job} {outs : List (Str × Str)}
    (h : Modules U cfg multi st jobs outs) : outs.map (·.1) = jobs.map (·.1) := by
  induction h with
  | nil => rfl
  | cons _ _ ih => simp [ih]

/-- folder output: `end_file` adds nothing to any crate module -/
theorem Modules.folder {U : UnicodeOps} {cfg : Cfg} {st : St} {jobs : List Job} {outs : List (Str × Str)}
    (h : Modules U cfg true st jobs outs) :
    ∀ p ∈ jobs.zip outs, p.2.1 = p.1.1 ∧ ∃ body, IsBody U cfg p.1.2.1 body ∧ p.2.2 = beginFile cfg ++ body := by
  induction h with
  | nil => intro p hp; simp at hp
  | @cons st c d imps rest outs body hb _ ih =>
    intro p hp
    simp only [List.zip_cons_cons, List.mem_cons] at hp
    rcases hp with rfl | hp
    · exact ⟨rfl, body, hb, by simp [endFile]⟩
    · exact ih p hp

theorem any_flatMap {α β} (l : List α) (f : α → List β) (p : β → Bool) :
    (l.flatMap f).any p = l.any fun a => (f a).any p := by
  induction l with
  | nil => rfl
  | cons a l ih => simp [List.flatMap_cons, List.any_append, ih]

/-- if the module of the single-file run holds the items of the folder run's modules (in any order),
the two runs agree on whether `CodableVoid` is mentioned -/
theorem used_eq_runUses (cfg : Cfg) (d : ParsedData) (jobs : List Job)
    (h : (itemsOf d).Perm (jobs.flatMap fun j => itemsOf j.2.1)) : used cfg d = runUses cfg jobs := by
  unfold used runUses
  rw [any_perm h, any_flatMap]
  rfl

end TsV.C14H
