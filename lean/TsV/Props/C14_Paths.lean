import TsV.Props.C14_Imports
import TsV.Lemmas.C14_Paths_Visit
/-!
# C14, import clause — qualified paths written inside types

`TsV.Props.C14_Imports` proves completeness of the import clause for references that a `use c::…;` tree brings
into scope, and leaves out **qualified paths written inside types**: `other_crate::T`, also inside generic
arguments (`crate::Wrap<other_crate::T>`, `Vec<other::T>`), references, arrays, slices and tuples.  The visitor
records those through `visit_path` (`Visitor.importOfPath` on every `syn::Path`, model: `Visitor.typePaths`,
`Visitor.addPaths`).  This file closes that gap.

1. `C14P.qualifiedRefs` (trusted specification, `Lemmas/C14_Paths_Spec.lean`): every `(first qualifier, last
   segment)` of a path with a non-empty qualifier list occurring anywhere in a type; `itemQualifiedRefs`,
   `fileQualifiedRefs` (annotated, accepted items), `fileQualifiedRefsAll` (all declaring items).
2. `visit_path_complete`: such a `(c, T)` is in the file's `import_types` as `⟨c, T⟩` — **at any nesting depth,
   in particular inside the generic arguments of a path that is itself qualified** — when `c` passes
   `accept_crate` and is not `crate`/`self`/`super`, `T` passes `accept_type`, `T` has no type mapping, `c ≠ T`.
   For `crate`/`self`/`super` the model resolves to the current crate: `visit_path_selfish`; both in one:
   `visit_path_resolved`.  The visitor does this for *every* struct / enum / alias / const item, annotated or
   not (`visit_path_complete_any`).
   **The model leaves no position of a `SynType` uncollected**: `visit_imports_exact` is an exact
   characterisation of `import_types` (imports of `use` trees + `importOfPath` of every visited path) and
   `visit_path_sound` is the converse of (2) for type paths.  What *is* outside: (a) single-file mode
   (`visit_path_single_file`: nothing is recorded), (b) a file whose `#![cfg(target_os)]` is rejected (hypothesis
   `isEmpty d = false`), (c) `c = T`, which `extract_root_and_types` rejects (`crate_candidate != type_candidate`) —
   impossible when no character is both upper- and lower-case (`crate_ne_type`), witness for a degenerate
   `UnicodeOps`: `witness_same_name`; (d) paths inside the type forms the abstract AST collapses to
   `SynType.other` (fn pointers, raw pointers, parenthesised types, `impl`/`dyn`, macros, never) and generic
   arguments of non-final segments: `qualifiedRefs` is `[]` there by definition, the model has no such paths.
3. `file_import_of_mem` / `import_complete_of_mem`: `file_import_named` / `import_complete` generalised to
   "`⟨c, T⟩ ∈ import_types` of the visit" instead of `FileImportsNamed`; `file_import_path`,
   **`import_complete_path`**: a type named only by a qualified path is imported from its crate in the job
   list; with `import_line_typescript` / `import_line_kotlin` the import line is in the generated text
   (examples at the end).
4. Non-vacuity: `struct S { q: crate::Wrap<beta::Inner> }` in crate `gamma` (`Wrap` local, `Inner` in `beta`)
   and `struct Holder { t: alpha::Target }` (the latter down to the Kotlin / TypeScript text).
5. The statement at full strength for qualified paths (`C14_paths_full` over `PathRef`), which is **false** on the
   model (`C14_paths_not_full`, witness `witness_path_serde_rename`: `alpha::Target` with
   `#[serde(rename = "Renamed")] struct Target` — the visit records `⟨alpha, Target⟩`, `used_imports` then looks
   the Rust name up among `alpha`'s output names; the same known class `Known_serde_rename` as for `use`), and
   `C14_paths_partial`: it holds for every reference in `C14.inScope` with `B ≠ T` outside that class.

Still `href : T ∈ allReferences …` is a hypothesis (as in `import_complete`): whether the generated item really
mentions `T` depends on `RustType::try_from` (`Vec<u8, b::T>` drops the second argument, `String<b::T>` all of
them) and on `serialized_as` / `skip`; `referenced_of_struct_field` etc. discharge it for a parsed item.
Not covered here either: `use {a::X, b::Y};` trees without a leading path segment.
-/
namespace TsV.C14
open TsV TsV.Syn TsV.Pipeline TsV.Visitor TsV.C06M TsV.C14I TsV.C14P

/-! ## 2. `visit_path` is complete on types -/

/-- **every qualified path of every declaring item, crate aliases resolved.**  In multi-file mode, for a visited
file (`isEmpty d = false`): a qualified reference `(c, T)` occurring anywhere in a type of a struct / enum /
alias / const item of the file (any module depth, annotated or not) is in `import_types` under the crate
`resolveBase cn c` — `c` itself, or the current crate for `crate` / `self` / `super` -/
theorem visit_path_resolved (E : Ext) (ctx : ParseContext) (hmf : ctx.multiFile = true) (cn fn fp : Str)
    (f : File) (d : ParsedData) (hv : visitFile E ctx cn fn fp f = .ok d) (hne : isEmpty d = false)
    (it : Item) (hit : it ∈ declItemsList f.items) (ty : SynType) (hty : ty ∈ itemTypes it)
    (c T : Str) (hq : (c, T) ∈ qualifiedRefs ty) (hc : acceptCrate E.U c = true)
    (hT : acceptType E.U T = true) (hmap : T ∉ ctx.ignoredTypes) (hcT : c ≠ T) :
    ⟨resolveBase cn c, T⟩ ∈ d.importTypes := by
  obtain ⟨qs, hp⟩ := qualifiedRefs_paths c T ty hq
  rw [visitFile_imports E ctx hmf cn fn fp f d hv hne]
  exact Or.inl ⟨_, file_declItem_path f it hit ty hty _ hp,
    importOfPath_qualified_some E ctx cn c qs T hc hT hmap hcT⟩

/-- the same for all declaring items of the file at once -/
theorem visit_path_complete_any (E : Ext) (ctx : ParseContext) (hmf : ctx.multiFile = true) (cn fn fp : Str)
    (f : File) (d : ParsedData) (hv : visitFile E ctx cn fn fp f = .ok d) (hne : isEmpty d = false)
    (c T : Str) (hq : (c, T) ∈ fileQualifiedRefsAll f) (hc : CrateInScope E.U c = true)
    (hT : acceptType E.U T = true) (hmap : T ∉ ctx.ignoredTypes) (hcT : c ≠ T) :
    ⟨c, T⟩ ∈ d.importTypes := by
  simp only [fileQualifiedRefsAll, itemQualifiedRefs, List.mem_flatMap] at hq
  obtain ⟨it, hit, ty, hty, hq⟩ := hq
  simp only [CrateInScope, Bool.and_eq_true, Bool.not_eq_true'] at hc
  have := visit_path_resolved E ctx hmf cn fn fp f d hv hne it hit ty hty c T hq hc.1 hT hmap hcT
  simpa [resolveBase, hc.2] using this

/-- the qualified references of the annotated, accepted items are among those of all declaring items -/
theorem fileQualifiedRefs_sub (ctx : ParseContext) (f : File) (x : Str × Str)
    (h : x ∈ fileQualifiedRefs ctx f) : x ∈ fileQualifiedRefsAll f := by
  simp only [fileQualifiedRefs, List.mem_flatMap] at h
  obtain ⟨it, hit, hx⟩ := h
  simp only [fileQualifiedRefsAll, List.mem_flatMap]
  exact ⟨it, annotatedList_sub_decl ctx it f.items hit, hx⟩

/-- **`visit_path_complete`.**  If `(c, T)` is a qualified reference of a type of an annotated, accepted item
of the file — at any nesting depth: `c::T`, `Vec<c::T>`, `crate::Wrap<c::T>`, `&[(u8, c::T); 4]` … —, `c`
passes `accept_crate` and is not `crate`/`self`/`super`, `T` passes `accept_type` and has no type mapping, and
`c ≠ T`, then `⟨c, T⟩` is in the `import_types` of the visit -/
theorem visit_path_complete (E : Ext) (ctx : ParseContext) (hmf : ctx.multiFile = true) (cn fn fp : Str)
    (f : File) (d : ParsedData) (hv : visitFile E ctx cn fn fp f = .ok d) (hne : isEmpty d = false)
    (c T : Str) (hq : (c, T) ∈ fileQualifiedRefs ctx f) (hc : CrateInScope E.U c = true)
    (hT : acceptType E.U T = true) (hmap : T ∉ ctx.ignoredTypes) (hcT : c ≠ T) :
    ⟨c, T⟩ ∈ d.importTypes :=
  visit_path_complete_any E ctx hmf cn fn fp f d hv hne c T (fileQualifiedRefs_sub ctx f _ hq) hc hT hmap hcT

/-- **`crate::T` / `self::T` / `super::T`**: what the model does for those — they pass `accept_crate` (lower-case,
not in the list of well-known crates) and are recorded under the *current* crate's name.  (`reconcile_referenced_
types` later drops the entry when the file itself defines `T`; `used_imports` ignores imports of the own crate.) -/
theorem visit_path_selfish (E : Ext) (ctx : ParseContext) (hmf : ctx.multiFile = true) (cn fn fp : Str)
    (f : File) (d : ParsedData) (hv : visitFile E ctx cn fn fp f = .ok d) (hne : isEmpty d = false)
    (c T : Str) (hq : (c, T) ∈ fileQualifiedRefsAll f) (hself : isSelfish c = true)
    (hlow : acceptCrate E.U c = true)
    (hT : acceptType E.U T = true) (hmap : T ∉ ctx.ignoredTypes) (hcT : c ≠ T) :
    ⟨cn, T⟩ ∈ d.importTypes := by
  simp only [fileQualifiedRefsAll, itemQualifiedRefs, List.mem_flatMap] at hq
  obtain ⟨it, hit, ty, hty, hq⟩ := hq
  have := visit_path_resolved E ctx hmf cn fn fp f d hv hne it hit ty hty c T hq hlow hT hmap hcT
  simpa [resolveBase, hself] using this

/-- `crate`, `self`, `super` pass `accept_crate` whenever the case table is right on ASCII -/
theorem acceptCrate_selfish (U : UnicodeOps) (hU : U.AsciiCorrect) (c : Str) (h : isSelfish c = true) :
    acceptCrate U c = true := by
  simp only [isSelfish, Bool.or_eq_true, beq_iff_eq] at h
  rcases h with (rfl | rfl) | rfl <;>
    (simp only [acceptCrate, Bool.and_eq_true, Bool.not_eq_true']
     refine ⟨by decide, ?_⟩
     rw [hU.lower _ (by decide)]; decide)

/-- the side condition `c ≠ T` holds whenever no character is both upper- and lower-case (true of Rust's
`char::is_uppercase` / `is_lowercase`: the Unicode properties `Uppercase` and `Lowercase` are disjoint) -/
def CaseDisjoint (U : UnicodeOps) : Prop := ∀ ch : Char, ¬ (U.isUpper ch = true ∧ U.isLower ch = true)

theorem crate_ne_type (U : UnicodeOps) (hU : CaseDisjoint U) (c T : Str) (hc : acceptCrate U c = true)
    (hT : acceptType U T = true) : c ≠ T := by
  rintro rfl
  cases c with
  | nil => simp [acceptCrate] at hc
  | cons ch r =>
    simp only [acceptCrate, acceptType, Bool.and_eq_true] at hc hT
    exact hU ch ⟨hT.1, hc.2⟩

theorem caseDisjoint_ascii : CaseDisjoint UnicodeOps.ascii := by
  rintro ch ⟨hu, hl⟩
  have : Str.isAsciiUpper ch = false := by
    have hl' : Str.isAsciiLower ch = true := hl
    unfold Str.isAsciiLower at hl'; split at hl' <;> first | decide | simp at hl'
  have hu' : Str.isAsciiUpper ch = true := hu
  rw [this] at hu'; exact absurd hu' (by decide)

/-- `visit_path_complete` with the side condition discharged -/
theorem visit_path_complete' (E : Ext) (hU : CaseDisjoint E.U) (ctx : ParseContext) (hmf : ctx.multiFile = true)
    (cn fn fp : Str) (f : File) (d : ParsedData) (hv : visitFile E ctx cn fn fp f = .ok d)
    (hne : isEmpty d = false) (c T : Str) (hq : (c, T) ∈ fileQualifiedRefs ctx f)
    (hc : CrateInScope E.U c = true) (hT : acceptType E.U T = true) (hmap : T ∉ ctx.ignoredTypes) :
    ⟨c, T⟩ ∈ d.importTypes := by
  have hc' := hc
  simp only [CrateInScope, Bool.and_eq_true] at hc'
  exact visit_path_complete E ctx hmf cn fn fp f d hv hne c T hq hc hT hmap (crate_ne_type E.U hU c T hc'.1 hT)

/-! ### nothing else: exact membership, and the converse for type paths -/

/-- **exact characterisation of a visit's `import_types`** (multi-file mode, visited file): the imports of the
`use` trees (`C14I.useImports`) and `importOfPath` of every visited path (`C14P.fileVisitedPaths`: attribute
paths, the paths of all field / alias / const types at any depth, the paths `Item.other` mentions) -/
theorem visit_imports_exact (E : Ext) (ctx : ParseContext) (hmf : ctx.multiFile = true) (cn fn fp : Str)
    (f : File) (d : ParsedData) (hv : visitFile E ctx cn fn fp f = .ok d) (hne : isEmpty d = false)
    (i : ImportedType) :
    i ∈ d.importTypes ↔
      (∃ p ∈ fileVisitedPaths f, importOfPath E ctx cn p = some i) ∨
      (∃ t ∈ useTreesList f.items, i ∈ useImports E ctx cn t) :=
  visitFile_imports E ctx hmf cn fn fp f d hv hne i

/-- **converse of `visit_path_resolved`**: an import that a path of a type `ty` produces is `⟨resolveBase cn c, T⟩`
for a qualified reference `(c, T)` of `ty` that meets all four conditions (so the conditions of
`visit_path_complete` are exactly the ones under which a type path is recorded) -/
theorem visit_path_sound (E : Ext) (ctx : ParseContext) (cn : Str) (ty : SynType) (p : List Str)
    (hp : p ∈ typePaths ty) (i : ImportedType) (h : importOfPath E ctx cn p = some i) :
    ∃ c T, (c, T) ∈ qualifiedRefs ty ∧ i = ⟨resolveBase cn c, T⟩ ∧ acceptCrate E.U c = true ∧
      acceptType E.U T = true ∧ T ∉ ctx.ignoredTypes ∧ c ≠ T := by
  rcases typePaths_refs p ty hp with ⟨T, rfl⟩ | ⟨c, qs, T, rfl, hq⟩
  · rw [importOfPath_single] at h; simp at h
  · exact ⟨c, T, hq, importOfPath_qualified_inv E ctx cn c qs T i h⟩

/-- outside (a): in single-file mode `visit_path` (and `visit_item_use`) return at once — the visit records no
import at all -/
theorem visit_path_single_file (E : Ext) (ctx : ParseContext) (hsf : ctx.multiFile = false) (cn fn fp : Str)
    (f : File) (d : ParsedData) (hv : visitFile E ctx cn fn fp f = .ok d) : d.importTypes = [] :=
  visitFile_single_imports E ctx hsf cn fn fp f d hv

/-! ## 3. through `parser::parse`, `reconcile` and the job list -/

/-- **`file_import_named`, generalised**: it only needs `⟨c, T⟩ ∈ import_types` of the visit — however the
import got there (`use` tree, qualified path in a type, attribute path, path in a function signature) -/
theorem file_import_of_mem (E : Ext) (ctx : ParseContext) (hmf : ctx.multiFile = true)
    (pick : List ImportedType → Option ImportedType) (hpick : ValidPick pick) (cn fn fp : Str)
    (f : File) (d : ParsedData) (hm : f.marker = true) (hv : visitFile E ctx cn fn fp f = .ok d)
    (c T : Str) (hmem : ⟨c, T⟩ ∈ d.importTypes)
    (href : T ∈ allReferences E.U d) (hloc : T ∉ d.typeNames)
    (huniq : ∀ j ∈ d.importTypes, j.typeName = T → j.baseCrate = c) :
    ∃ a, parseFile E ctx pick cn fn fp f = .ok (some a) ∧ a.crateName = cn ∧ a.typeNames = d.typeNames ∧
      ⟨c, T⟩ ∈ a.importTypes :=
  ⟨_, parseFile_of_visit E ctx hmf pick cn fn fp f d hm hv (isEmpty_false_of_ref E.U d T href),
    (visitFile_meta E ctx cn fn fp f d hv).1, rfl, reconcile_keeps_named E.U pick hpick d c T hmem href hloc huniq⟩

/-- **`import_complete`, generalised** in the same way: in a multi-file run whose files parse, a file `f` of
crate `A` whose visit holds the import `⟨B, T⟩`, with `T` referenced by a generated item of `f`, not defined in
`f`, not imported under another crate in `f`, `B ≠ A`; and a file `g` of crate `B` whose result defines the
output name `T`.  Then `A`'s job lists `T` under `B` in its scoped imports. -/
theorem import_complete_of_mem (E : Ext) (lang : Generate.LangCfg) (targetOs : List Str)
    (pick : List ImportedType → Option ImportedType) (hpick : ValidPick pick)
    (files : List Generate.SourceFile) (arrivals : List ParsedData)
    (hparse : Generate.parseAll E (runCtx lang targetOs) pick files = .ok arrivals)
    (f : Generate.SourceFile) (hf : f ∈ files) (hm : f.file.marker = true) (dA : ParsedData)
    (hv : visitFile E (runCtx lang targetOs) f.crateName f.fileName f.path f.file = .ok dA)
    (B T : Str) (hmem : ⟨B, T⟩ ∈ dA.importTypes)
    (href : T ∈ allReferences E.U dA) (hloc : T ∉ dA.typeNames)
    (huniq : ∀ j ∈ dA.importTypes, j.typeName = T → j.baseCrate = B)
    (hne : B ≠ f.crateName)
    (g : Generate.SourceFile) (hg : g ∈ files) (hgB : g.crateName = B) (dB : ParsedData)
    (hgp : parseFile E (runCtx lang targetOs) pick g.crateName g.fileName g.path g.file = .ok (some dB))
    (hdef : T ∈ dB.typeNames) :
    ImportedInJob arrivals f.crateName B T := by
  obtain ⟨a, hpa, hac, _, hai⟩ := file_import_of_mem E (runCtx lang targetOs) rfl pick hpick f.crateName f.fileName
    f.path f.file dA hm hv B T hmem href hloc huniq
  have hA := parseAll_mem E _ pick files arrivals hparse f hf a hpa
  have hBm := parseAll_mem E _ pick files arrivals hparse g hg dB hgp
  obtain ⟨dv, hdv, _, _, hdB⟩ := visit_of_parseFile E (runCtx lang targetOs) rfl pick _ _ _ _ dB hgp
  have hcB : dB.crateName = B := by
    rw [hdB, reconcile_crateName, (visitFile_meta E _ _ _ _ _ dv hdv).1, hgB]
  have := (imported_of_arrivals arrivals a dB hA hBm T (by rw [hcB]; exact hai) (by rw [hcB, hac]; exact hne)).1 hdef
  rw [hcB, hac] at this
  exact this

/-- **through `parser::parse`** for a qualified path: `T`, written as `c::…::T` somewhere in a type of an
annotated, accepted item, referenced by a generated item (`all_references`), not defined in the file and not
imported under another crate, is in the arrival's `import_types` with base crate `c` -/
theorem file_import_path (E : Ext) (ctx : ParseContext) (hmf : ctx.multiFile = true)
    (pick : List ImportedType → Option ImportedType) (hpick : ValidPick pick) (cn fn fp : Str)
    (f : File) (d : ParsedData) (hm : f.marker = true) (hv : visitFile E ctx cn fn fp f = .ok d)
    (c T : Str) (hq : (c, T) ∈ fileQualifiedRefs ctx f) (hc : CrateInScope E.U c = true) (hcT : c ≠ T)
    (hmap : T ∉ ctx.ignoredTypes) (href : T ∈ allReferences E.U d) (hloc : T ∉ d.typeNames)
    (huniq : ∀ j ∈ d.importTypes, j.typeName = T → j.baseCrate = c) :
    ∃ a, parseFile E ctx pick cn fn fp f = .ok (some a) ∧ a.crateName = cn ∧ a.typeNames = d.typeNames ∧
      ⟨c, T⟩ ∈ a.importTypes :=
  file_import_of_mem E ctx hmf pick hpick cn fn fp f d hm hv c T
    (visit_path_complete E ctx hmf cn fn fp f d hv (isEmpty_false_of_ref E.U d T href) c T hq hc
      ((mem_allReferences E.U d T).1 href).1 hmap hcT) href hloc huniq

/-- **C14, import clause, completeness (qualified path in a type).**  In a multi-file run whose files parse: a
file `f` of crate `A` with an annotated, accepted item in one of whose types the path `B::…::T` is written — at
any depth: as a field type, inside the generic arguments of another (possibly itself qualified) path, behind a
reference, in an array, slice or tuple (`fileQualifiedRefs`) —; `B ≠ A` a crate name `accept_crate` accepts (not
`crate`/`self`/`super`), `B ≠ T`; `T` without a type mapping, referenced by a generated item of `f`
(`all_references`), not defined in `f`, no import of another crate in `f` with the same name; and a file `g` of
crate `B` whose result defines a type with output name `T`.  No `use` item is needed.  Then crate `A` has a
job, and its scoped imports — what the TypeScript / Kotlin back end prints as the import clause
(`import_line_typescript`, `import_line_kotlin`) — list `T` under `B`. -/
theorem import_complete_path (E : Ext) (lang : Generate.LangCfg) (targetOs : List Str)
    (pick : List ImportedType → Option ImportedType) (hpick : ValidPick pick)
    (files : List Generate.SourceFile) (arrivals : List ParsedData)
    (hparse : Generate.parseAll E (runCtx lang targetOs) pick files = .ok arrivals)
    (f : Generate.SourceFile) (hf : f ∈ files) (hm : f.file.marker = true) (dA : ParsedData)
    (hv : visitFile E (runCtx lang targetOs) f.crateName f.fileName f.path f.file = .ok dA)
    (B T : Str) (hq : (B, T) ∈ fileQualifiedRefs (runCtx lang targetOs) f.file)
    (hB : CrateInScope E.U B = true) (hBT : B ≠ T)
    (hmap : T ∉ Generate.ignoredTypes lang)
    (href : T ∈ allReferences E.U dA) (hloc : T ∉ dA.typeNames)
    (huniq : ∀ j ∈ dA.importTypes, j.typeName = T → j.baseCrate = B)
    (hne : B ≠ f.crateName)
    (g : Generate.SourceFile) (hg : g ∈ files) (hgB : g.crateName = B) (dB : ParsedData)
    (hgp : parseFile E (runCtx lang targetOs) pick g.crateName g.fileName g.path g.file = .ok (some dB))
    (hdef : T ∈ dB.typeNames) :
    ImportedInJob arrivals f.crateName B T :=
  import_complete_of_mem E lang targetOs pick hpick files arrivals hparse f hf hm dA hv B T
    (visit_path_complete E (runCtx lang targetOs) rfl _ _ _ _ dA hv (isEmpty_false_of_ref E.U dA T href) B T hq hB
      ((mem_allReferences E.U dA T).1 href).1 hmap hBT)
    href hloc huniq hne g hg hgB dB hgp hdef

/-- `import_complete` itself is the instance of `import_complete_of_mem` for a named `use` -/
example (E : Ext) (lang : Generate.LangCfg) (targetOs : List Str)
    (pick : List ImportedType → Option ImportedType) (hpick : ValidPick pick)
    (files : List Generate.SourceFile) (arrivals : List ParsedData)
    (hparse : Generate.parseAll E (runCtx lang targetOs) pick files = .ok arrivals)
    (f : Generate.SourceFile) (hf : f ∈ files) (hm : f.file.marker = true) (dA : ParsedData)
    (hv : visitFile E (runCtx lang targetOs) f.crateName f.fileName f.path f.file = .ok dA)
    (B T : Str) (huse : FileImportsNamed f.file B T = true) (hB : CrateInScope E.U B = true)
    (hmap : T ∉ Generate.ignoredTypes lang)
    (href : T ∈ allReferences E.U dA) (hloc : T ∉ dA.typeNames)
    (huniq : ∀ j ∈ dA.importTypes, j.typeName = T → j.baseCrate = B)
    (hne : B ≠ f.crateName)
    (g : Generate.SourceFile) (hg : g ∈ files) (hgB : g.crateName = B) (dB : ParsedData)
    (hgp : parseFile E (runCtx lang targetOs) pick g.crateName g.fileName g.path g.file = .ok (some dB))
    (hdef : T ∈ dB.typeNames) :
    ImportedInJob arrivals f.crateName B T :=
  import_complete_of_mem E lang targetOs pick hpick files arrivals hparse f hf hm dA hv B T
    (visit_import_named E (runCtx lang targetOs) rfl _ _ _ _ dA hv (isEmpty_false_of_ref E.U dA T href) B T huse hB
      ((mem_allReferences E.U dA T).1 href).1 hmap)
    href hloc huniq hne g hg hgB dB hgp hdef

/-! ## 4. non-vacuity -/

/-- `q: crate::Wrap<beta::Inner>` -/
def tyWrapInner : SynType := .path [s%"crate"] s%"Wrap" [.path [s%"beta"] s%"Inner" []]

/-- the specification on types: nested, behind a reference, in arrays / slices / tuples, inside `Vec<…>`;
unqualified names and `SynType.other` contribute nothing -/
example : qualifiedRefs tyWrapInner = [(s%"crate", s%"Wrap"), (s%"beta", s%"Inner")] := by decide +kernel
example : qualifiedRefs (.path [] s%"Vec" [.path [s%"other", s%"m"] s%"T" []]) = [(s%"other", s%"T")] := by
  decide +kernel
example : qualifiedRefs (.reference (.array (.tuple [.path [] s%"u8" [], .slice (.path [s%"a"] s%"X" []),
    .path [s%"b"] s%"Y" [.path [s%"c"] s%"Z" []], .other]) (some 4))) =
    [(s%"a", s%"X"), (s%"b", s%"Y"), (s%"c", s%"Z")] := by decide +kernel

/-- crate `beta`: `#[typeshare] struct Inner { x: u8 }` -/
def qSrcBeta : Generate.SourceFile :=
  mkSrc s%"beta" [.struct [tsAttr] s%"Inner" [] (.named [fld s%"x" s%"u8"])]

/-- crate `gamma`: `#[typeshare] struct Wrap<T> { v: T }  #[typeshare] struct S { q: crate::Wrap<beta::Inner> }`
— no `use` item at all -/
def qSrcGamma : Generate.SourceFile :=
  mkSrc s%"gamma" [.struct [tsAttr] s%"Wrap" [.type s%"T"] (.named [fld s%"v" s%"T"]),
    .struct [tsAttr] s%"S" [] (.named [⟨[], some s%"q", tyWrapInner⟩])]

/-- crate `delta`: `#[typeshare] struct Holder { t: alpha::Target }` — the plain case, no `use` item -/
def qSrcDelta : Generate.SourceFile :=
  mkSrc s%"delta" [.struct [tsAttr] s%"Holder" [] (.named [⟨[], some s%"t", .path [s%"alpha"] s%"Target" []⟩])]

example : (useTreesList qSrcGamma.file.items).length = 0 ∧ (useTreesList qSrcDelta.file.items).length = 0 := by
  decide +kernel

example : fileQualifiedRefs (runCtx wLang []) qSrcGamma.file = [(s%"crate", s%"Wrap"), (s%"beta", s%"Inner")] := by
  decide +kernel
example : fileQualifiedRefs (runCtx wLang []) qSrcDelta.file = [(s%"alpha", s%"Target")] := by decide +kernel

theorem q_parse_gamma : Generate.parseAll wE (runCtx wLang []) wPick [qSrcBeta, qSrcGamma] =
    .ok (arrivalsOf [qSrcBeta, qSrcGamma]) := eq_ok_getOk (by decide +kernel)
theorem q_visit_gamma :
    visitFile wE (runCtx wLang []) qSrcGamma.crateName qSrcGamma.fileName qSrcGamma.path qSrcGamma.file =
      .ok (visitOf qSrcGamma) := eq_ok_getOk (by decide +kernel)
theorem q_visit_beta :
    visitFile wE (runCtx wLang []) qSrcBeta.crateName qSrcBeta.fileName qSrcBeta.path qSrcBeta.file =
      .ok (visitOf qSrcBeta) := eq_ok_getOk (by decide +kernel)

/-- what the visit of `gamma` records: `crate::Wrap` under the current crate, `beta::Inner` under `beta` … -/
example : (visitOf qSrcGamma).importTypes = [⟨s%"gamma", s%"Wrap"⟩, ⟨s%"beta", s%"Inner"⟩] := by decide +kernel

/-- … as `visit_path_complete'` says for the nested `beta::Inner` (its hypotheses are met) … -/
example : (⟨s%"beta", s%"Inner"⟩ : ImportedType) ∈ (visitOf qSrcGamma).importTypes :=
  visit_path_complete' wE caseDisjoint_ascii (runCtx wLang []) rfl _ _ _ _ _ q_visit_gamma (by decide +kernel)
    s%"beta" s%"Inner" (by decide +kernel) (by decide +kernel) (by decide +kernel) (by decide +kernel)

/-- … and `visit_path_selfish` for `crate::Wrap` -/
example : (⟨s%"gamma", s%"Wrap"⟩ : ImportedType) ∈ (visitOf qSrcGamma).importTypes :=
  visit_path_selfish wE (runCtx wLang []) rfl _ _ _ _ _ q_visit_gamma (by decide +kernel)
    s%"crate" s%"Wrap" (by decide +kernel) (by decide +kernel)
    (acceptCrate_selfish _ UnicodeOps.ascii_correct _ (by decide +kernel)) (by decide +kernel) (by decide +kernel)
    (by decide +kernel)

/-- **`struct S { q: crate::Wrap<beta::Inner> }` in crate `gamma`: `Inner` is imported from `beta`** — by
`import_complete_path`, all of whose hypotheses hold -/
theorem q_nested_imported : ImportedInJob (arrivalsOf [qSrcBeta, qSrcGamma]) s%"gamma" s%"beta" s%"Inner" :=
  import_complete_path wE wLang [] wPick validPick_head _ _ q_parse_gamma qSrcGamma (by simp) rfl _ q_visit_gamma
    s%"beta" s%"Inner" (by decide +kernel) (by decide +kernel) (by decide +kernel) (by decide +kernel)
    (by decide +kernel) (by decide +kernel) (by decide +kernel) (by decide +kernel)
    qSrcBeta (by simp) rfl _
    (parseFile_of_visit wE (runCtx wLang []) rfl wPick _ _ _ _ _ rfl q_visit_beta (by decide +kernel))
    (by decide +kernel)

/-- the conclusion is what the model computes: `gamma` imports exactly `Inner` from `beta` (`Wrap` is local) -/
example : importsOf (arrivalsOf [qSrcBeta, qSrcGamma]) =
    [(s%"beta", some []), (s%"gamma", some [(s%"beta", [s%"Inner"])])] := by decide +kernel

/-! ### the plain case `alpha::Target`, down to the generated text -/

theorem q_parse_delta : Generate.parseAll wE (runCtx wLang []) wPick [srcAlpha, qSrcDelta] =
    .ok (arrivalsOf [srcAlpha, qSrcDelta]) := eq_ok_getOk (by decide +kernel)
theorem q_visit_delta :
    visitFile wE (runCtx wLang []) qSrcDelta.crateName qSrcDelta.fileName qSrcDelta.path qSrcDelta.file =
      .ok (visitOf qSrcDelta) := eq_ok_getOk (by decide +kernel)

/-- `import_complete_path` for any language without type mappings for `Target` (here stated for the two with an
import clause in the examples below) -/
theorem q_plain_imported (lang : Generate.LangCfg) (hl : Generate.ignoredTypes lang = [])
    (hparse : Generate.parseAll wE (runCtx lang []) wPick [srcAlpha, qSrcDelta] =
      .ok (arrivalsOf [srcAlpha, qSrcDelta])) :
    ImportedInJob (arrivalsOf [srcAlpha, qSrcDelta]) s%"delta" s%"alpha" s%"Target" := by
  have hctx : runCtx lang [] = runCtx wLang [] := by unfold runCtx; rw [hl]; rfl
  refine import_complete_path wE lang [] wPick validPick_head _ _ hparse qSrcDelta (by simp) rfl (visitOf qSrcDelta)
    (by rw [hctx]; exact q_visit_delta)
    s%"alpha" s%"Target" (by rw [hctx]; decide +kernel) (by decide +kernel) (by decide +kernel)
    (by rw [hl]; simp) (by decide +kernel) (by decide +kernel) (by decide +kernel) (by decide +kernel)
    srcAlpha (by simp) rfl (reconcileReferencedTypes wE.U wPick (visitOf srcAlpha)) ?_ (by decide +kernel)
  rw [hctx]
  exact parseFile_of_visit wE (runCtx wLang []) rfl wPick _ _ _ _ _ rfl plain_visit_alpha (by decide +kernel)

example : ImportedInJob (arrivalsOf [srcAlpha, qSrcDelta]) s%"delta" s%"alpha" s%"Target" :=
  q_plain_imported wLang rfl q_parse_delta

example : importsOf (arrivalsOf [srcAlpha, qSrcDelta]) =
    [(s%"alpha", some []), (s%"delta", some [(s%"alpha", [s%"Target"])])] := by decide +kernel

theorem q_kt_parse : Generate.parseAll wE (runCtx (.kotlin wKt) []) wPick [srcAlpha, qSrcDelta] =
    .ok (arrivalsOf [srcAlpha, qSrcDelta]) := eq_ok_getOk (by decide +kernel)

def qJobs : List Job := jobsWith id (collect (arrivalsOf [srcAlpha, qSrcDelta]))

theorem qJobs_order0 : Pipeline.generateOrder (qJobs.headD dfltJob).2.1 =
    some [(C12L.itemsOf (qJobs.headD dfltJob).2.1).headD default] :=
  generateOrder_single _ _ (list_len1 _ _ (by decide +kernel)) (by decide +kernel)
theorem qJobs_order1 : Pipeline.generateOrder (qJobs.tail.headD dfltJob).2.1 =
    some [(C12L.itemsOf (qJobs.tail.headD dfltJob).2.1).headD default] :=
  generateOrder_single _ _ (list_len1 _ _ (by decide +kernel)) (by decide +kernel)
theorem qJobs_noErrors :
    (allErrors (reconcile (collect (arrivalsOf [srcAlpha, qSrcDelta])))).isEmpty = true := by decide +kernel

/-- the Kotlin run on `[alpha, delta]` succeeds and writes these two files -/
theorem q_kt_run : isOutputs (Generate.run wE (.kotlin wKt) true [] wPick [srcAlpha, qSrcDelta]) = true ∧
    outsOf (Generate.run wE (.kotlin wKt) true [] wPick [srcAlpha, qSrcDelta]) =
    [(s%"alpha", s%"package com.example.alpha\n\nimport kotlinx.serialization.Serializable\nimport kotlinx.serialization.SerialName\n\n\n@Serializable\ndata class Target (\n\tval x: UByte\n)\n\n"),
     (s%"delta", s%"package com.example.delta\n\nimport kotlinx.serialization.Serializable\nimport kotlinx.serialization.SerialName\n\nimport com.example.alpha.Target\n\n@Serializable\ndata class Holder (\n\tval t: Target\n)\n\n")] := by
  have hp : Generate.parseAll wE
      { ignoredTypes := Generate.ignoredTypes (.kotlin wKt), multiFile := true, targetOs := [] }
      wPick [srcAlpha, qSrcDelta] = .ok (arrivalsOf [srcAlpha, qSrcDelta]) := q_kt_parse
  have h0 := qJobs_order0
  have h1 := qJobs_order1
  unfold qJobs at h0 h1
  rw [run_multi_eq, hp]
  simp only [Outcome.bind, qJobs_noErrors, Bool.not_true, Bool.false_eq_true, if_false, Lang.Kotlin.generateAll]
  rw [list_len2 (jobsWith id (collect (arrivalsOf [srcAlpha, qSrcDelta]))) dfltJob (by decide +kernel)]
  simp only [kt_generateFrom_cons, Lang.Kotlin.generate, h0, h1]
  constructor <;> decide +kernel

/-- the TypeScript run succeeds and writes these two files -/
theorem q_ts_run : isOutputs (Generate.run wE wLang true [] wPick [srcAlpha, qSrcDelta]) = true ∧
    outsOf (Generate.run wE wLang true [] wPick [srcAlpha, qSrcDelta]) =
    [(s%"alpha", s%"\nexport interface Target {\n\tx: number;\n}\n\n"),
     (s%"delta", s%"import { Target } from \"./alpha\";\n\nexport interface Holder {\n\tt: Target;\n}\n\n")] := by
  have hp : Generate.parseAll wE
      { ignoredTypes := Generate.ignoredTypes (.typescript {}), multiFile := true, targetOs := [] }
      wPick [srcAlpha, qSrcDelta] = .ok (arrivalsOf [srcAlpha, qSrcDelta]) := q_parse_delta
  have h0 := qJobs_order0
  have h1 := qJobs_order1
  unfold qJobs at h0 h1
  unfold wLang
  rw [run_multi_eq, hp]
  simp only [Outcome.bind, qJobs_noErrors, Bool.not_true, Bool.false_eq_true, if_false,
    Lang.TypeScript.generateAll]
  rw [list_len2 (jobsWith id (collect (arrivalsOf [srcAlpha, qSrcDelta]))) dfltJob (by decide +kernel)]
  simp only [ts_generateFrom_cons, Lang.TypeScript.generate, h0, h1]
  constructor <;> decide +kernel

/-- `import_complete_path` + `import_line_kotlin`: `delta`'s Kotlin file contains `import com.example.alpha.Target` -/
example : ∃ text, (s%"delta", text) ∈ outsOf (Generate.run wE (.kotlin wKt) true [] wPick [srcAlpha, qSrcDelta]) ∧
    s%"import com.example.alpha.Target\n" <:+: text :=
  import_line_kotlin wE wKt [] wPick [srcAlpha, qSrcDelta] _ _ q_kt_parse (eq_outputs q_kt_run.1)
    s%"delta" s%"alpha" s%"Target" (q_plain_imported (.kotlin wKt) rfl q_kt_parse)

/-- `import_complete_path` + `import_line_typescript`: `delta`'s file contains `import { …, Target, … } from "./alpha";` -/
example : ∃ text, (s%"delta", text) ∈ outsOf (Generate.run wE wLang true [] wPick [srcAlpha, qSrcDelta]) ∧
    ∃ tys, s%"Target" ∈ tys ∧ tsImportLine s%"alpha" tys <:+: text :=
  import_line_typescript wE {} [] wPick [srcAlpha, qSrcDelta] _ _ q_parse_delta (eq_outputs q_ts_run.1)
    s%"delta" s%"alpha" s%"Target" (q_plain_imported wLang rfl q_parse_delta)

/-! ### the side condition `c ≠ T` -/

/-- a degenerate case table in which every character is both upper- and lower-case -/
def wBothU : UnicodeOps := { UnicodeOps.ascii with isUpper := fun _ => true, isLower := fun _ => true }
def wBothE : Ext := { U := wBothU, parseType := fun _ => none }
/-- `#[typeshare] struct S { q: x::x }` -/
def qSrcSame : Generate.SourceFile :=
  mkSrc s%"gamma" [.struct [tsAttr] s%"S" [] (.named [⟨[], some s%"q", .path [s%"x"] s%"x" []⟩])]

/-- **why `c ≠ T` is a hypothesis**: `extract_root_and_types` rejects a path whose first and last segment are
equal.  With a case table that is not `CaseDisjoint` all other hypotheses of `visit_path_complete` can hold for
`x::x`, and nothing is recorded.  (Not reachable with Rust's `char::is_uppercase`/`is_lowercase`.) -/
theorem witness_same_name :
    (s%"x", s%"x") ∈ fileQualifiedRefs (runCtx wLang []) qSrcSame.file ∧
    CrateInScope wBothE.U s%"x" = true ∧ acceptType wBothE.U s%"x" = true ∧
    s%"x" ∉ (runCtx wLang []).ignoredTypes ∧
    ∃ d, visitFile wBothE (runCtx wLang []) qSrcSame.crateName qSrcSame.fileName qSrcSame.path qSrcSame.file = .ok d ∧
      isEmpty d = false ∧ d.importTypes = [] := by
  refine ⟨by decide +kernel, by decide +kernel, by decide +kernel, by decide +kernel, _,
    eq_ok_getOk (o := visitFile wBothE (runCtx wLang []) qSrcSame.crateName qSrcSame.fileName qSrcSame.path
      qSrcSame.file) (by decide +kernel), by decide +kernel, by decide +kernel⟩

/-! ### why "referenced" stays a hypothesis -/

/-- a qualified path can be written (and is recorded by `visit_path`) in a position `RustType::try_from` drops:
the second argument of `Vec`, any argument of `String`.  Then no generated item mentions `X`,
`reconcile_referenced_types` removes the import again, and rightly nothing is imported. -/
example : qualifiedRefs (.path [] s%"Vec" [.path [] s%"u8" [], .path [s%"b"] s%"X" []]) = [(s%"b", s%"X")] ∧
    (getOk (RustTypes.tryFrom (.path [] s%"Vec" [.path [] s%"u8" [], .path [s%"b"] s%"X" []]))).allIds =
      [s%"Vec", s%"u8"] ∧
    (getOk (RustTypes.tryFrom (.path [] s%"String" [.path [s%"b"] s%"X" []]))).allIds = [s%"String"] := by
  decide +kernel

/-! ## 5. the statement at full strength for qualified paths, the known class, and what holds outside it -/

/-- a generated item of file `f` (crate `A`) names, by the qualified path `B::…::T` written in one of the types of
an annotated, accepted item, the typeshared type `tid` that file `g` of another crate `B` declares under the Rust
name `T` -/
structure PathRef (E : Ext) (ctx : ParseContext) (files : List Generate.SourceFile)
    (f g : Generate.SourceFile) (dA dB : ParsedData) (T : Str) (tid : Id) : Prop where
  fIn : f ∈ files
  gIn : g ∈ files
  fMarker : f.file.marker = true
  gMarker : g.file.marker = true
  fVisit : visitFile E ctx f.crateName f.fileName f.path f.file = .ok dA
  gVisit : visitFile E ctx g.crateName g.fileName g.path g.file = .ok dB
  otherCrate : g.crateName ≠ f.crateName
  written : (g.crateName, T) ∈ fileQualifiedRefs ctx f.file
  referenced : T ∈ allReferences E.U dA
  declared : tid ∈ typeIds dB
  declaredAs : tid.original = T

/-- **C14, import clause, qualified paths, at full strength**: every such reference yields an import of the
type's *output* name from `B` in the job of `A` -/
def C14_paths_full : Prop :=
  ∀ (E : Ext) (lang : Generate.LangCfg) (targetOs : List Str) (pick : List ImportedType → Option ImportedType)
    (files : List Generate.SourceFile) (arrivals : List ParsedData),
    ValidPick pick → Generate.parseAll E (runCtx lang targetOs) pick files = .ok arrivals →
    ∀ (f g : Generate.SourceFile) (dA dB : ParsedData) (T : Str) (tid : Id),
      PathRef E (runCtx lang targetOs) files f g dA dB T tid →
      ImportedInJob arrivals f.crateName g.crateName tid.renamed

/-- **partial**: the full statement holds for every qualified-path reference in scope (`C14.inScope`: the crate
name passes `accept_crate` and is not `crate`/`self`/`super`; neither `T` nor `*` has a type mapping; the file
does not itself emit a type named `T`; no import of the file carries `T` with another base crate), with
`B ≠ T`, outside the known class `Known_serde_rename` (the type's output name differs from its Rust name and no
`use B::*;` rescues it — the same defect as for `use B::T;`: `used_imports` looks the *Rust* name up among the
crate's *output* names) -/
theorem C14_paths_partial (E : Ext) (lang : Generate.LangCfg) (targetOs : List Str)
    (pick : List ImportedType → Option ImportedType) (hpick : ValidPick pick)
    (files : List Generate.SourceFile) (arrivals : List ParsedData)
    (hparse : Generate.parseAll E (runCtx lang targetOs) pick files = .ok arrivals)
    (f g : Generate.SourceFile) (dA dB : ParsedData) (T : Str) (tid : Id)
    (h : PathRef E (runCtx lang targetOs) files f g dA dB T tid)
    (hs : inScope E lang dA g.crateName T = true) (hBT : g.crateName ≠ T)
    (k : Known_serde_rename f.file g.crateName tid = false) :
    ImportedInJob arrivals f.crateName g.crateName tid.renamed := by
  simp only [inScope, Bool.and_eq_true, Bool.not_eq_true', List.all_eq_true, Bool.or_eq_true, bne_iff_ne, ne_eq,
    beq_iff_eq] at hs
  obtain ⟨⟨⟨⟨hcrate, hmapN⟩, hmapS⟩, hlocN⟩, huniq⟩ := hs
  have hneB : isEmpty dB = false := isEmpty_false_of_typeId dB tid h.declared
  have hgp := parseFile_of_visit E (runCtx lang targetOs) rfl pick g.crateName g.fileName g.path g.file dB
    h.gMarker h.gVisit hneB
  have hdef : tid.renamed ∈ (reconcileReferencedTypes E.U pick dB).typeNames :=
    visitFile_namesRecorded E _ _ _ _ _ dB h.gVisit tid h.declared
  by_cases hglob : FileImportsGlob f.file g.crateName = true
  · exact import_complete_glob E lang targetOs pick files arrivals hparse f h.fIn h.fMarker dA h.fVisit
      (isEmpty_false_of_ref E.U dA T h.referenced) g.crateName hglob hcrate (by simpa using hmapS)
      h.otherCrate g h.gIn rfl _ hgp tid.renamed hdef
  · have hglob' : FileImportsGlob f.file g.crateName = false := by simpa using hglob
    have hren : tid.renamed = T := by
      simp only [Known_serde_rename, hglob', Bool.not_false, Bool.and_true] at k
      rw [← h.declaredAs]; simpa using k
    rw [hren]
    exact import_complete_path E lang targetOs pick hpick files arrivals hparse f h.fIn h.fMarker dA h.fVisit
      g.crateName T h.written hcrate hBT (by simpa using hmapN) h.referenced (by simpa using hlocN)
      (by
        intro j hj hjn
        rcases huniq j hj with h1 | h1
        · exact absurd hjn h1
        · exact h1)
      h.otherCrate g h.gIn rfl _ hgp (by rw [← hren]; exact hdef)

/-! ### in scope: `alpha::Target` through `C14_paths_partial` -/

theorem q_plain_pathRef : PathRef wE (runCtx wLang []) [srcAlpha, qSrcDelta] qSrcDelta srcAlpha
    (visitOf qSrcDelta) (visitOf srcAlpha) s%"Target" ⟨s%"Target", s%"Target", false⟩ where
  fIn := by simp
  gIn := by simp
  fMarker := rfl
  gMarker := rfl
  fVisit := q_visit_delta
  gVisit := plain_visit_alpha
  otherCrate := by decide
  written := by decide +kernel
  referenced := by decide +kernel
  declared := by decide +kernel
  declaredAs := rfl

example : ImportedInJob (arrivalsOf [srcAlpha, qSrcDelta]) s%"delta" s%"alpha" s%"Target" :=
  C14_paths_partial wE wLang [] wPick validPick_head _ _ q_parse_delta _ _ _ _ _ _ q_plain_pathRef
    (by decide +kernel) (by decide +kernel) (by decide +kernel)

/-- … and the nested `crate::Wrap<beta::Inner>` -/
theorem q_nested_pathRef : PathRef wE (runCtx wLang []) [qSrcBeta, qSrcGamma] qSrcGamma qSrcBeta
    (visitOf qSrcGamma) (visitOf qSrcBeta) s%"Inner" ⟨s%"Inner", s%"Inner", false⟩ where
  fIn := by simp
  gIn := by simp
  fMarker := rfl
  gMarker := rfl
  fVisit := q_visit_gamma
  gVisit := q_visit_beta
  otherCrate := by decide
  written := by decide +kernel
  referenced := by decide +kernel
  declared := by decide +kernel
  declaredAs := rfl

example : ImportedInJob (arrivalsOf [qSrcBeta, qSrcGamma]) s%"gamma" s%"beta" s%"Inner" :=
  C14_paths_partial wE wLang [] wPick validPick_head _ _ q_parse_gamma _ _ _ _ _ _ q_nested_pathRef
    (by decide +kernel) (by decide +kernel) (by decide +kernel)

/-! ### the known class: `#[serde(rename = "Renamed")] struct Target`, named as `alpha::Target` -/

theorem q_ren_parse : Generate.parseAll wE (runCtx wLang []) wPick [srcAlphaRenamed, qSrcDelta] =
    .ok (arrivalsOf [srcAlphaRenamed, qSrcDelta]) := eq_ok_getOk (by decide +kernel)

theorem q_ren_pathRef : PathRef wE (runCtx wLang []) [srcAlphaRenamed, qSrcDelta] qSrcDelta srcAlphaRenamed
    (visitOf qSrcDelta) (visitOf srcAlphaRenamed) s%"Target" ⟨s%"Target", s%"Renamed", true⟩ where
  fIn := by simp
  gIn := by simp
  fMarker := rfl
  gMarker := rfl
  fVisit := q_visit_delta
  gVisit := ren_visit_alpha
  otherCrate := by decide
  written := by decide +kernel
  referenced := by decide +kernel
  declared := by decide +kernel
  declaredAs := rfl

theorem q_ren_imports : importsOf (arrivalsOf [srcAlphaRenamed, qSrcDelta]) =
    [(s%"alpha", some []), (s%"delta", some [])] := by decide +kernel

/-- the visit *does* record `⟨alpha, Target⟩` (so `visit_path_complete` is not what fails) … -/
example : (visitOf qSrcDelta).importTypes = [⟨s%"alpha", s%"Target"⟩] := by decide +kernel

/-- … **completeness fails on a serde-renamed type named by a qualified path**: everything is in scope, the
reference is in the known class, and nothing is imported into `delta` -/
theorem witness_path_serde_rename :
    PathRef wE (runCtx wLang []) [srcAlphaRenamed, qSrcDelta] qSrcDelta srcAlphaRenamed
      (visitOf qSrcDelta) (visitOf srcAlphaRenamed) s%"Target" ⟨s%"Target", s%"Renamed", true⟩ ∧
    inScope wE wLang (visitOf qSrcDelta) s%"alpha" s%"Target" = true ∧
    Known_serde_rename qSrcDelta.file s%"alpha" ⟨s%"Target", s%"Renamed", true⟩ = true ∧
    ¬ ImportedInJob (arrivalsOf [srcAlphaRenamed, qSrcDelta]) s%"delta" s%"alpha" s%"Renamed" := by
  refine ⟨q_ren_pathRef, by decide +kernel, by decide +kernel, ?_⟩
  apply not_imported_of_importsOf
  rw [q_ren_imports]
  decide

/-- **the statement at full strength is false on the model** -/
theorem C14_paths_not_full : ¬ C14_paths_full := by
  intro h
  exact witness_path_serde_rename.2.2.2
    (h wE wLang [] wPick _ _ validPick_head q_ren_parse _ _ _ _ _ _ q_ren_pathRef)

end TsV.C14
