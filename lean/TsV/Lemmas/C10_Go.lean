import TsV.Lemmas.C10_Lex
import TsV.Lemmas.Outcome
import TsV.Model.Lang.Go
/-!
# C10 — Go: every declaration the model renders is lexically well-formed

Scope restriction: `uppercase_acronyms = []` (the acronym pass splices strings produced by the
external Unicode upper-casing at byte offsets; without entries it is the identity).
-/
namespace TsV.C10Go
open TsV TsV.Lang TsV.C10Lex TsV.Lang.Go

/-- Go's lexer: generics are `[…]`, the back-tick delimits raw strings (struct tags) -/
def G : LexCfg := ⟨false, true⟩

structure CfgOk (cfg : Cfg) : Prop where
  acronyms : cfg.uppercaseAcronyms = []
  maps : ∀ p ∈ cfg.typeMappings, wellBracketed G p.2 = true

theorem CfgOk.mapped {cfg : Cfg} (H : CfgOk cfg) {k v : Str} (h : mapGet cfg.typeMappings k = some v) : NB G v := by
  obtain ⟨p, hp, rfl⟩ := mapGet_mem h
  exact nb_of_wb (H.maps p hp)

theorem acr_id (U : UnicodeOps) {cfg : Cfg} (H : CfgOk cfg) (name : Str) : acr U cfg name = .ok name := by
  simp [acr, convertAcronyms, H.acronyms, pure]

theorem raw_body : ∀ (s : Str) (stk : List Char), '`' ∉ s → Run G s ⟨.raw, stk⟩ ⟨.raw, stk⟩
  | [], _, _ => rfl
  | c :: cs, stk, h => by
    have hc : c ≠ '`' := fun e => h (by simp [e])
    have ih := raw_body cs stk (fun e => h (by simp [e]))
    unfold Run at *
    simp only [scan, step, hc, if_false]
    exact ih

theorem KeyStr.no_tick {s : Str} (h : KeyStr s) : '`' ∉ s := by
  intro hm; have := h _ hm; revert this; decide

/-! ## `{:?}` on keys -/

theorem debugChar_key (c : Char) (h : keyChar c = true) :
    (if c = '"' then ['\\', '"'] else if c = '\\' then ['\\', '\\']
      else if c = '\n' then ['\\', 'n'] else if c = '\r' then ['\\', 'r']
      else if c = '\t' then ['\\', 't'] else if c.toNat = 0 then ['\\', '0']
      else if c.toNat < 32 || c.toNat = 127 then s%"\\u{" ++ hexOf c.toNat ++ s%"}"
      else [c]) = [c] := by
  simp only [keyChar, identChar, Bool.or_eq_true, beq_iff_eq] at h
  rcases h with (((h | h) | h) | h) | h
  · unfold Str.isAsciiLower at h; split at h <;> first | rfl | simp at h
  · unfold Str.isAsciiUpper at h; split at h <;> first | rfl | simp at h
  · unfold Str.isAsciiDigit at h; split at h <;> first | rfl | simp at h
  · subst h; rfl
  · subst h; rfl

theorem debugStr_key {s : Str} (h : KeyStr s) : debugStr s = s%"\"" ++ s ++ s%"\"" := by
  unfold debugStr
  congr 2
  induction s with
  | nil => rfl
  | cons c t ih =>
    rw [List.flatMap_cons, debugChar_key c (h c (by simp)), ih (fun d hd => h d (by simp [hd]))]
    rfl

theorem debugInner_key {s : Str} (h : KeyStr s) : debugInner s = s := by
  unfold debugInner
  rw [debugStr_key h]
  simp

/-! ## types -/

theorem bracket_nb (ps : List Str) (h : ∀ p ∈ ps, NB G p) : NB G (bracket ps) :=
  NB.square (NB.intercalate _ nb_commaSep ps h)

theorem special_ok {cfg : Cfg} (H : CfgOk cfg) (t : RustType) (st : Imports)
    (k : Imports → Outcome (Str × Imports)) (s : Str) (st' : Imports)
    (h : special cfg t st k = .ok (s, st')) : NB G s ∨ ∃ st1, k st1 = .ok (s, st') := by
  unfold special at h
  split at h
  · rename_i m hm; cases h; exact .inl (H.mapped hm)
  · exact .inr ⟨st, h⟩

theorem primType_nb (p : Prim) : NB G (primType p).1 := by
  cases p <;> exact fun _ => rfl

mutual
  theorem formatType_nb {cfg : Cfg} (H : CfgOk cfg) :
      ∀ (t : RustType) (st : Imports) (s : Str) (st' : Imports), TypeOk t → formatType cfg t st = .ok (s, st') → NB G s
    | .simple id, st, s, st', ht, h => by
      simp only [formatType] at h; cases h
      cases hm : mapGet cfg.typeMappings id with
      | some m => simpa [hm] using H.mapped hm
      | none => simpa [hm] using (KeyStr.nb (ht id (by simp [typeNames])))
    | .generic id ps, st, s, st', ht, h => by
      simp only [formatType] at h
      split at h
      · rename_i m hm; cases h; exact H.mapped hm
      · rename_i hnone
        obtain ⟨strs, st1, hs, h⟩ := obind_pair_ok h
        cases h
        have hall := formatTypes_nb H ps st strs st1 (fun n hn => ht n (by simp [typeNames, hn])) hs
        refine NB.append ?_ ?_
        · simpa [hnone] using (KeyStr.nb (ht id (by simp [typeNames])))
        · split
          · exact NB.nil
          · exact bracket_nb strs hall
    | .vec r, st, s, st', ht, h => by
      simp only [formatType] at h
      rcases special_ok H _ st _ s st' h with hn | ⟨st1, hk⟩
      · exact hn
      · obtain ⟨a, b, ha, hf⟩ := obind_pair_ok hk
        cases hf
        refine NB.append ?_ (formatType_nb H r st1 a _ (by simpa [TypeOk, typeNames] using ht) ha)
        nb_lit
    | .slice r, st, s, st', ht, h => by
      simp only [formatType] at h
      rcases special_ok H _ st _ s st' h with hn | ⟨st1, hk⟩
      · exact hn
      · obtain ⟨a, b, ha, hf⟩ := obind_pair_ok hk
        cases hf
        refine NB.append ?_ (formatType_nb H r st1 a _ (by simpa [TypeOk, typeNames] using ht) ha)
        nb_lit
    | .array r n, st, s, st', ht, h => by
      simp only [formatType] at h
      rcases special_ok H _ st _ s st' h with hn | ⟨st1, hk⟩
      · exact hn
      · obtain ⟨a, b, ha, hf⟩ := obind_pair_ok hk
        cases hf
        exact (NB.square (Plain.nb (natToStr_plain G n))).append
          (formatType_nb H r st1 a _ (by simpa [TypeOk, typeNames] using ht) ha)
    | .option r, st, s, st', ht, h => by
      simp only [formatType] at h
      rcases special_ok H _ st _ s st' h with hn | ⟨st1, hk⟩
      · exact hn
      · obtain ⟨a, b, ha, hf⟩ := obind_pair_ok hk
        cases hf
        refine NB.append ?_ (formatType_nb H r st1 a _ (by simpa [TypeOk, typeNames] using ht) ha)
        split
        · exact NB.nil
        · nb_lit
    | .hashMap k v, st, s, st', ht, h => by
      simp only [formatType] at h
      rcases special_ok H _ st _ s st' h with hn | ⟨st1, hk⟩
      · exact hn
      · obtain ⟨ks, st2, hks, hk⟩ := obind_pair_ok hk
        obtain ⟨vs, st3, hvs, hk⟩ := obind_pair_ok hk
        cases hk
        have hkn := formatType_nb H k st1 ks st2 (fun n hn => ht n (by simp [typeNames, hn])) hks
        have hvn := formatType_nb H v st2 vs _ (fun n hn => ht n (by simp [typeNames, hn])) hvs
        intro stk
        have r1 : Run G s%"map[" ⟨.code, stk⟩ ⟨.code, '[' :: stk⟩ := rfl
        have r3 : Run G s%"]" ⟨.code, '[' :: stk⟩ ⟨.code, stk⟩ := rfl
        exact ((r1.append (hkn _)).append r3).append (hvn _)
    | .prim p, st, s, st', _, h => by
      simp only [formatType] at h
      rcases special_ok H _ st _ s st' h with hn | ⟨st1, hk⟩
      · exact hn
      · have := primType_nb p
        split at hk <;> (cases hk; simp_all)
  theorem formatTypes_nb {cfg : Cfg} (H : CfgOk cfg) :
      ∀ (ts : List RustType) (st : Imports) (ss : List Str) (st' : Imports), TypesOk ts →
        formatTypes cfg ts st = .ok (ss, st') → ∀ s ∈ ss, NB G s
    | [], st, ss, st', _, h => by simp only [formatTypes] at h; cases h; simp
    | t :: ts, st, ss, st', ht, h => by
      simp only [formatTypes] at h
      obtain ⟨a, st1, ha, h⟩ := obind_pair_ok h
      obtain ⟨as, st2, has, h⟩ := obind_pair_ok h
      cases h
      intro s hs
      simp only [List.mem_cons] at hs
      rcases hs with rfl | hs
      · exact formatType_nb H t st _ st1 (fun n hn => ht n (by simp [typeNamesList, hn])) ha
      · exact formatTypes_nb H ts st1 as _ (fun n hn => ht n (by simp [typeNamesList, hn])) has s hs
end

/-! ## comments, fields, structs -/

def DocsOk (cs : List Str) : Prop := ∀ c ∈ cs, '\n' ∉ c
instance (cs : List Str) : Decidable (DocsOk cs) := by unfold DocsOk; infer_instance

theorem comments_nb (n : Nat) (cs : List Str) (h : DocsOk cs) : NB G (comments n cs) := by
  unfold comments
  apply NB.flatMap
  intro c hc
  have e : tabs n ++ s%"// " ++ c ++ nl = tabs n ++ (s%"//" ++ (s%" " ++ c) ++ s%"\n") := by simp [nl]
  rw [e]
  refine (NB.tabs n).append (NB.lineComment _ ?_)
  have := h c hc
  simp [this]

abbrev FieldOk := FieldScope Lang.go G DocsOk
abbrev StructOk := StructScope Lang.go G DocsOk
abbrev AliasOk := AliasScope DocsOk
abbrev VariantOk := VariantScope Lang.go G DocsOk
abbrev EnumOk := EnumScope Lang.go G DocsOk

structure GoFieldOk (f : GoField) : Prop where
  docs : DocsOk f.comments
  name : NB G f.name
  ty : NB G f.ty
  json : '`' ∉ f.jsonName

theorem renderField_nb (f : GoField) (h : GoFieldOk f) : NB G (renderField f) := by
  unfold renderField
  intro stk
  have r0 := comments_nb 1 _ h.docs stk
  have r1 : Run G s%"\t" ⟨.code, stk⟩ ⟨.code, stk⟩ := rfl
  have r3 : Run G s%" " ⟨.code, stk⟩ ⟨.code, stk⟩ := rfl
  have r5 : Run G s%" `json:\"" ⟨.code, stk⟩ ⟨.raw, stk⟩ := rfl
  have r6 := raw_body f.jsonName stk h.json
  have r7 : Run G (if f.omitempty = true then s%",omitempty" else []) ⟨.raw, stk⟩ ⟨.raw, stk⟩ := by split <;> rfl
  have r8 : Run G s%"\"`\n" ⟨.raw, stk⟩ ⟨.code, stk⟩ := rfl
  exact (((((((r0.append r1).append (h.name _)).append r3).append (h.ty _)).append r5).append r6).append r7).append r8

theorem fieldFacts_ok (U : UnicodeOps) {cfg : Cfg} (H : CfgOk cfg) (f : RustField) (hf : FieldOk f) (st : Imports)
    (g : GoField) (st' : Imports) (h : fieldFacts U cfg f st = .ok (g, st')) : GoFieldOk g := by
  unfold fieldFacts at h
  obtain ⟨typeName, st1, hty, h⟩ := obind_pair_ok h
  simp only [acr_id U H, fieldName, Outcome.bind] at h
  cases h
  refine ⟨hf.docs, IdentStr.nb (toPascal_ident hf.original), ?_, ?_⟩
  · refine NB.append ?_ ?_
    · split
      · nb_lit
      · exact NB.nil
    · split at hty
      · rename_i t ht; cases hty; exact nb_of_wb (hf.override _ ht)
      · exact formatType_nb H f.ty st typeName _ hf.ty hty
  · rw [debugInner_key hf.key]; exact KeyStr.no_tick hf.key

theorem fieldsFacts_ok (U : UnicodeOps) {cfg : Cfg} (H : CfgOk cfg) : ∀ (fs : List RustField) (st : Imports)
    (gs : List GoField) (st' : Imports), (∀ f ∈ fs, FieldOk f) → fieldsFacts U cfg fs st = .ok (gs, st') →
    ∀ g ∈ gs, GoFieldOk g
  | [], st, gs, st', _, h => by simp only [fieldsFacts] at h; cases h; simp
  | f :: fs, st, gs, st', hf, h => by
    simp only [fieldsFacts] at h
    obtain ⟨g, st1, hg, h⟩ := obind_pair_ok h
    obtain ⟨rest, st2, hrest, h⟩ := obind_pair_ok h
    cases h
    intro x hx
    simp only [List.mem_cons] at hx
    rcases hx with rfl | hx
    · exact fieldFacts_ok U H f (hf f (by simp)) st _ st1 hg
    · exact fieldsFacts_ok U H fs st1 rest _ (fun y hy => hf y (by simp [hy])) hrest x hx

structure GoStructOk (d : GoStruct) : Prop where
  docs : DocsOk d.comments
  name : NB G d.name
  generics : ∀ g ∈ d.generics, IdentStr g
  fields : ∀ f ∈ d.fields, GoFieldOk f

theorem renderStruct_nb (d : GoStruct) (h : GoStructOk d) : NB G (renderStruct d) := by
  unfold renderStruct
  intro stk
  have r0 := comments_nb 0 _ h.docs stk
  have r1 : Run G s%"type " ⟨.code, stk⟩ ⟨.code, stk⟩ := rfl
  have r3 : NB G (if d.generics.isEmpty = true then [] else
      s%"[" ++ Str.intercalate s%", " (d.generics.map (· ++ s%" any")) ++ s%"]") := by
    split
    · exact NB.nil
    · refine NB.square (NB.intercalate _ nb_commaSep _ ?_)
      intro x hx
      simp only [List.mem_map] at hx
      obtain ⟨g, hg, rfl⟩ := hx
      refine NB.append (IdentStr.nb (h.generics g hg)) ?_
      nb_lit
  have r4 : Run G s%" struct {\n" ⟨.code, stk⟩ ⟨.code, '{' :: stk⟩ := rfl
  have r5 := NB.flatMap (cfg := G) renderField d.fields (fun f hf => renderField_nb f (h.fields f hf)) ('{' :: stk)
  have r6 : Run G s%"}\n" ⟨.code, '{' :: stk⟩ ⟨.code, stk⟩ := rfl
  exact (((((r0.append r1).append (h.name _)).append (r3 _)).append r4).append r5).append r6

theorem structFacts_ok (U : UnicodeOps) {cfg : Cfg} (H : CfgOk cfg) (rs : RustStruct) (hs : StructOk rs) (st : Imports)
    (d : GoStruct) (st' : Imports) (h : structFacts U cfg rs st = .ok (d, st')) : GoStructOk d := by
  unfold structFacts at h
  simp only [acr_id U H, Outcome.bind] at h
  obtain ⟨fields, st1, hf, h⟩ := obind_pair_ok h
  cases h
  exact ⟨hs.docs, KeyStr.nb hs.name, hs.generics, fieldsFacts_ok U H rs.fields st fields _ hs.fields hf⟩

theorem writeStruct_nb (U : UnicodeOps) {cfg : Cfg} (H : CfgOk cfg) (rs : RustStruct) (hs : StructOk rs) (st : Imports)
    (text : Str) (st' : Imports) (h : writeStruct U cfg rs st = .ok (text, st')) : NB G text := by
  unfold writeStruct at h
  obtain ⟨d, st1, hd, h⟩ := obind_pair_ok h
  cases h
  exact renderStruct_nb d (structFacts_ok U H rs hs st d _ hd)

/-! ## aliases and constants -/

theorem writeAlias_nb (U : UnicodeOps) {cfg : Cfg} (H : CfgOk cfg) (a : RustTypeAlias) (ha : AliasOk a) (st : Imports)
    (text : Str) (st' : Imports) (h : writeAlias U cfg a st = .ok (text, st')) : NB G text := by
  unfold writeAlias aliasFacts at h
  simp only [acr_id U H, Outcome.bind] at h
  obtain ⟨d, st1, hd, h⟩ := obind_pair_ok h
  cases h
  obtain ⟨ty, st2, hty, hd⟩ := obind_pair_ok hd
  cases hd
  unfold renderAlias
  nb_pieces
  · exact comments_nb 0 _ ha.docs
  · nb_lit
  · exact KeyStr.nb ha.renamed
  · nb_lit
  · exact formatType_nb H a.ty st ty _ ha.ty hty
  · nb_lit

theorem writeConst_nb {U : UnicodeOps} {cfg : Cfg} (H : CfgOk cfg) (c : RustConst) (hc : ConstScope c) (st : Imports)
    (text : Str) (st' : Imports) (h : writeConst U cfg c st = .ok (text, st')) : NB G text := by
  unfold writeConst constFacts at h
  obtain ⟨d, st1, hd, h⟩ := obind_pair_ok h
  cases h
  obtain ⟨ty, st2, hty, hd⟩ := obind_pair_ok hd
  cases hd
  unfold renderValue
  nb_pieces
  · nb_lit
  · exact IdentStr.nb (toPascal_ident hc.name)
  · nb_lit
  · exact formatType_nb H c.ty st ty _ hc.ty hty
  · nb_lit
  · exact Plain.nb (natToStr_plain G c.expr)
  · nb_lit


/-! ## unit enums -/

theorem renderUnitEnum_nb (e : GoUnitEnum) (hd : DocsOk e.comments) (hn : NB G e.name)
    (hc : ∀ c ∈ e.consts, DocsOk c.comments ∧ NB G c.name ∧ NB G c.ty) : NB G (renderUnitEnum e) := by
  unfold renderUnitEnum
  intro stk
  have r0 := comments_nb 0 _ hd stk
  have r1 : Run G s%"type " ⟨.code, stk⟩ ⟨.code, stk⟩ := rfl
  have r3 : Run G s%" string\n" ⟨.code, stk⟩ ⟨.code, stk⟩ := rfl
  have r4 : Run G s%"const (" ⟨.code, stk⟩ ⟨.code, '(' :: stk⟩ := rfl
  have r5 : NB G (e.consts.flatMap fun c =>
      nl ++ comments 1 c.comments ++ s%"\t" ++ c.name ++ s%" " ++ c.ty ++ s%" = " ++ debugStr c.wire) := by
    apply NB.flatMap
    intro c hcm
    obtain ⟨h1, h2, h3⟩ := hc c hcm
    nb_pieces
    · exact NB.nl
    · exact comments_nb 1 _ h1
    · nb_lit
    · exact h2
    · nb_lit
    · exact h3
    · nb_lit
    · exact NB.debugStr _
  have r6 : Run G s%"\n)\n" ⟨.code, '(' :: stk⟩ ⟨.code, stk⟩ := rfl
  exact (((((r0.append r1).append (hn _)).append r3).append r4).append (r5 _)).append r6

theorem unitConsts_ok (U : UnicodeOps) {cfg : Cfg} (H : CfgOk cfg) (original : Str) (ho : IdentStr original) :
    ∀ (vs : List RustEnumVariant) (cs : List GoConst), (∀ v ∈ vs, VariantOk v) → unitConsts U cfg original vs = .ok cs →
      ∀ c ∈ cs, DocsOk c.comments ∧ NB G c.name ∧ NB G c.ty
  | [], cs, _, h => by simp only [unitConsts] at h; cases h; simp
  | .unit id dcs :: vs, cs, hv, h => by
    simp only [unitConsts, acr_id U H, Outcome.bind] at h
    obtain ⟨rest, hr, h⟩ := obind_ok h
    cases h
    intro c hc
    simp only [List.mem_cons] at hc
    rcases hc with rfl | hc
    · have hvo := hv (.unit id dcs) (by simp)
      exact ⟨hvo.1, IdentStr.nb (IdentStr.append ho hvo.2.1), IdentStr.nb ho⟩
    · exact unitConsts_ok U H original ho vs rest (fun w hw => hv w (by simp [hw])) hr c hc
  | .tuple _ _ _ :: _, cs, _, h => by simp [unitConsts] at h
  | .anonymousStruct _ _ _ :: _, cs, _, h => by simp [unitConsts] at h

/-! ## algebraic enums -/

structure AlgVariantOk (v : GoAlgVariant) : Prop where
  docs : DocsOk v.comments
  name : NB G v.name
  constName : NB G v.constName
  payload : ∀ p, v.payload = some p → NB G p.ty

structure AlgEnumOk (e : GoAlgEnum) : Prop where
  docs : DocsOk e.comments
  anonymous : ∀ s ∈ e.anonymous, GoStructOk s
  name : NB G e.name
  short : NB G e.short
  keyType : NB G e.keyType
  tagField : NB G e.tagField
  contentField : NB G e.contentField
  tagKey : KeyStr e.tagKey
  contentKey : KeyStr e.contentKey
  variants : ∀ v ∈ e.variants, AlgVariantOk v

theorem renderDecodeCase_nb (e : GoAlgEnum) (he : AlgEnumOk e) (v : GoAlgVariant) (hv : AlgVariantOk v) :
    NB G (renderDecodeCase e v) := by
  unfold renderDecodeCase
  refine NB.append (NB.append (NB.append ?_ hv.constName) ?_) ?_
  · nb_lit
  · nb_lit
  · split
    · rename_i p hp
      nb_pieces
      · nb_lit
      · exact hv.payload p hp
      · nb_lit
      · exact he.short
      · nb_lit
      · exact he.contentField
      · nb_lit
    · nb_lit

theorem renderAccessor_nb (e : GoAlgEnum) (he : AlgEnumOk e) (v : GoAlgVariant) (hv : AlgVariantOk v) :
    NB G (renderAccessor e v) := by
  unfold renderAccessor
  split
  · rename_i p hp
    have hty := hv.payload p hp
    intro stk
    have r1 : Run G s%"func (" ⟨.code, stk⟩ ⟨.code, '(' :: stk⟩ := rfl
    have r3 : Run G s%" " ⟨.code, '(' :: stk⟩ ⟨.code, '(' :: stk⟩ := rfl
    have r5 : Run G s%") " ⟨.code, '(' :: stk⟩ ⟨.code, stk⟩ := rfl
    have r7 : Run G s%"() " ⟨.code, stk⟩ ⟨.code, stk⟩ := rfl
    have r8 : Run G (if p.byPointer = true then s%"*" else []) ⟨.code, stk⟩ ⟨.code, stk⟩ := by split <;> rfl
    have r10 : Run G s%" {\n" ⟨.code, stk⟩ ⟨.code, '{' :: stk⟩ := rfl
    have r11 : Run G s%"\tres, _ := " ⟨.code, '{' :: stk⟩ ⟨.code, '{' :: stk⟩ := rfl
    have r13 : Run G s%"." ⟨.code, '{' :: stk⟩ ⟨.code, '{' :: stk⟩ := rfl
    have r15 : Run G s%".(*" ⟨.code, '{' :: stk⟩ ⟨.code, '(' :: '{' :: stk⟩ := rfl
    have r17 : Run G s%")\n" ⟨.code, '(' :: '{' :: stk⟩ ⟨.code, '{' :: stk⟩ := rfl
    have r18 : Run G s%"\treturn " ⟨.code, '{' :: stk⟩ ⟨.code, '{' :: stk⟩ := rfl
    have r19 : Run G (if p.byPointer = true then [] else s%"*") ⟨.code, '{' :: stk⟩ ⟨.code, '{' :: stk⟩ := by split <;> rfl
    have r20 : Run G s%"res\n}\n" ⟨.code, '{' :: stk⟩ ⟨.code, stk⟩ := rfl
    exact ((((((((((((((((((r1.append (he.short _)).append r3).append (he.name _)).append r5).append (hv.name _)).append r7).append
      r8).append (hty _)).append r10).append r11).append (he.short _)).append r13).append (he.contentField _)).append r15).append
      (hty _)).append r17).append r18).append r19).append r20
  · exact NB.nil

theorem renderConstructor_nb (e : GoAlgEnum) (he : AlgEnumOk e) (v : GoAlgVariant) (hv : AlgVariantOk v) :
    NB G (renderConstructor e v) := by
  unfold renderConstructor
  split
  · rename_i p hp
    have hty := hv.payload p hp
    intro stk
    have r1 : Run G s%"func New" ⟨.code, stk⟩ ⟨.code, stk⟩ := rfl
    have r3 : Run G s%"(content " ⟨.code, stk⟩ ⟨.code, '(' :: stk⟩ := rfl
    have r4 : Run G (if p.byPointer = true then s%"*" else []) ⟨.code, '(' :: stk⟩ ⟨.code, '(' :: stk⟩ := by split <;> rfl
    have r6 : Run G s%") " ⟨.code, '(' :: stk⟩ ⟨.code, stk⟩ := rfl
    have r8 : Run G s%" {\n" ⟨.code, stk⟩ ⟨.code, '{' :: stk⟩ := rfl
    have r9 : Run G s%"    return " ⟨.code, '{' :: stk⟩ ⟨.code, '{' :: stk⟩ := rfl
    have r11 : Run G s%"{\n" ⟨.code, '{' :: stk⟩ ⟨.code, '{' :: '{' :: stk⟩ := rfl
    have r12 : Run G s%"        " ⟨.code, '{' :: '{' :: stk⟩ ⟨.code, '{' :: '{' :: stk⟩ := rfl
    have r14 : Run G s%": " ⟨.code, '{' :: '{' :: stk⟩ ⟨.code, '{' :: '{' :: stk⟩ := rfl
    have r16 : Run G s%",\n" ⟨.code, '{' :: '{' :: stk⟩ ⟨.code, '{' :: '{' :: stk⟩ := rfl
    have r19 : Run G (if p.byPointer = true then [] else s%"&") ⟨.code, '{' :: '{' :: stk⟩ ⟨.code, '{' :: '{' :: stk⟩ := by
      split <;> rfl
    have r20 : Run G s%"content,\n" ⟨.code, '{' :: '{' :: stk⟩ ⟨.code, '{' :: '{' :: stk⟩ := rfl
    have r21 : Run G s%"    }\n}\n" ⟨.code, '{' :: '{' :: stk⟩ ⟨.code, stk⟩ := rfl
    exact ((((((((((((((((((((r1.append (hv.constName _)).append r3).append r4).append (hty _)).append r6).append (he.name _)).append
      r8).append r9).append (he.name _)).append r11).append r12).append (he.tagField _)).append r14).append (hv.constName _)).append
      r16).append r12).append (he.contentField _)).append r14).append r19).append r20).append r21
  · intro stk
    have r1 : Run G s%"func New" ⟨.code, stk⟩ ⟨.code, stk⟩ := rfl
    have r3 : Run G s%"() " ⟨.code, stk⟩ ⟨.code, stk⟩ := rfl
    have r8 : Run G s%" {\n" ⟨.code, stk⟩ ⟨.code, '{' :: stk⟩ := rfl
    have r9 : Run G s%"    return " ⟨.code, '{' :: stk⟩ ⟨.code, '{' :: stk⟩ := rfl
    have r11 : Run G s%"{\n" ⟨.code, '{' :: stk⟩ ⟨.code, '{' :: '{' :: stk⟩ := rfl
    have r12 : Run G s%"        " ⟨.code, '{' :: '{' :: stk⟩ ⟨.code, '{' :: '{' :: stk⟩ := rfl
    have r14 : Run G s%": " ⟨.code, '{' :: '{' :: stk⟩ ⟨.code, '{' :: '{' :: stk⟩ := rfl
    have r16 : Run G s%",\n" ⟨.code, '{' :: '{' :: stk⟩ ⟨.code, '{' :: '{' :: stk⟩ := rfl
    have r21 : Run G s%"    }\n}\n" ⟨.code, '{' :: '{' :: stk⟩ ⟨.code, stk⟩ := rfl
    exact (((((((((((r1.append (hv.constName _)).append r3).append (he.name _)).append r8).append r9).append (he.name _)).append
      r11).append r12).append (he.tagField _)).append r14).append (hv.constName _)).append r16 |>.append r21

theorem renderUnmarshal_nb (e : GoAlgEnum) (he : AlgEnumOk e) : NB G (renderUnmarshal e) := by
  unfold renderUnmarshal
  intro stk
  have r1 : Run G s%"func (" ⟨.code, stk⟩ ⟨.code, '(' :: stk⟩ := rfl
  have r3 : Run G s%" *" ⟨.code, '(' :: stk⟩ ⟨.code, '(' :: stk⟩ := rfl
  have r5 : Run G s%") UnmarshalJSON(data []byte) error {\n" ⟨.code, '(' :: stk⟩ ⟨.code, '{' :: stk⟩ := rfl
  have r6 : Run G s%"\tvar enum struct {\n" ⟨.code, '{' :: stk⟩ ⟨.code, '{' :: '{' :: stk⟩ := rfl
  have r7 : Run G s%"\t\tTag    " ⟨.code, '{' :: '{' :: stk⟩ ⟨.code, '{' :: '{' :: stk⟩ := rfl
  have r9 : Run G s%"   `json:\"" ⟨.code, '{' :: '{' :: stk⟩ ⟨.raw, '{' :: '{' :: stk⟩ := rfl
  have r10 := raw_body e.tagKey ('{' :: '{' :: stk) (KeyStr.no_tick he.tagKey)
  have r11 : Run G s%"\"`\n" ⟨.raw, '{' :: '{' :: stk⟩ ⟨.code, '{' :: '{' :: stk⟩ := rfl
  have r12 : Run G s%"\t\tContent json.RawMessage `json:\"" ⟨.code, '{' :: '{' :: stk⟩ ⟨.raw, '{' :: '{' :: stk⟩ := rfl
  have r13 := raw_body e.contentKey ('{' :: '{' :: stk) (KeyStr.no_tick he.contentKey)
  have r15 : Run G s%"\t}\n" ⟨.code, '{' :: '{' :: stk⟩ ⟨.code, '{' :: stk⟩ := rfl
  have r16 : Run G s%"\tif err := json.Unmarshal(data, &enum); err != nil {\n\t\treturn err\n\t}\n\n"
      ⟨.code, '{' :: stk⟩ ⟨.code, '{' :: stk⟩ := rfl
  have r17 : Run G s%"\t" ⟨.code, '{' :: stk⟩ ⟨.code, '{' :: stk⟩ := rfl
  have r19 : Run G s%"." ⟨.code, '{' :: stk⟩ ⟨.code, '{' :: stk⟩ := rfl
  have r21 : Run G s%" = enum.Tag\n" ⟨.code, '{' :: stk⟩ ⟨.code, '{' :: stk⟩ := rfl
  have r22 : Run G s%"\tswitch " ⟨.code, '{' :: stk⟩ ⟨.code, '{' :: stk⟩ := rfl
  have r26 : Run G s%" {\n" ⟨.code, '{' :: stk⟩ ⟨.code, '{' :: '{' :: stk⟩ := rfl
  have r27 := NB.flatMap (cfg := G) (renderDecodeCase e) e.variants
    (fun v hv => renderDecodeCase_nb e he v (he.variants v hv)) ('{' :: '{' :: stk)
  have r28 : Run G s%"\n\t}\n" ⟨.code, '{' :: '{' :: stk⟩ ⟨.code, '{' :: stk⟩ := rfl
  have r29 : Run G s%"\tif err := json.Unmarshal(enum.Content, &" ⟨.code, '{' :: stk⟩ ⟨.code, '(' :: '{' :: stk⟩ := rfl
  have r31 : Run G s%"." ⟨.code, '(' :: '{' :: stk⟩ ⟨.code, '(' :: '{' :: stk⟩ := rfl
  have r33 : Run G s%"); err != nil {\n" ⟨.code, '(' :: '{' :: stk⟩ ⟨.code, '{' :: '{' :: stk⟩ := rfl
  have r34 : Run G s%"\t\treturn err\n\t}\n\n\treturn nil\n}\n" ⟨.code, '{' :: '{' :: stk⟩ ⟨.code, stk⟩ := rfl
  exact (((((((((((((((((((((((((((r1.append (he.short _)).append r3).append (he.name _)).append r5).append r6).append r7).append
    (he.keyType _)).append r9).append r10).append r11).append r12).append r13).append r11).append r15).append r16).append r17).append
    (he.short _)).append r19).append (he.tagField _)).append r21).append r22).append (he.short _)).append r19).append
    (he.tagField _)).append r26).append r27).append r28).append r29 |>.append (he.short _) |>.append r31
    |>.append (he.contentField _) |>.append r33 |>.append r34

theorem renderMarshal_nb (e : GoAlgEnum) (he : AlgEnumOk e) : NB G (renderMarshal e) := by
  unfold renderMarshal
  intro stk
  have r1 : Run G s%"func (" ⟨.code, stk⟩ ⟨.code, '(' :: stk⟩ := rfl
  have r3 : Run G s%" " ⟨.code, '(' :: stk⟩ ⟨.code, '(' :: stk⟩ := rfl
  have r5 : Run G s%") MarshalJSON() ([]byte, error) {\n" ⟨.code, '(' :: stk⟩ ⟨.code, '{' :: stk⟩ := rfl
  have r6 : Run G s%"    var enum struct {\n" ⟨.code, '{' :: stk⟩ ⟨.code, '{' :: '{' :: stk⟩ := rfl
  have r7 : Run G s%"\t\tTag    " ⟨.code, '{' :: '{' :: stk⟩ ⟨.code, '{' :: '{' :: stk⟩ := rfl
  have r9 : Run G s%"   `json:\"" ⟨.code, '{' :: '{' :: stk⟩ ⟨.raw, '{' :: '{' :: stk⟩ := rfl
  have r10 := raw_body e.tagKey ('{' :: '{' :: stk) (KeyStr.no_tick he.tagKey)
  have r11 : Run G s%"\"`\n" ⟨.raw, '{' :: '{' :: stk⟩ ⟨.code, '{' :: '{' :: stk⟩ := rfl
  have r12 : Run G s%"\t\tContent interface{} `json:\"" ⟨.code, '{' :: '{' :: stk⟩ ⟨.raw, '{' :: '{' :: stk⟩ := rfl
  have r13 := raw_body e.contentKey ('{' :: '{' :: stk) (KeyStr.no_tick he.contentKey)
  have r14 : Run G s%",omitempty\"`\n" ⟨.raw, '{' :: '{' :: stk⟩ ⟨.code, '{' :: '{' :: stk⟩ := rfl
  have r15 : Run G s%"    }\n" ⟨.code, '{' :: '{' :: stk⟩ ⟨.code, '{' :: stk⟩ := rfl
  have r16 : Run G s%"    enum.Tag = " ⟨.code, '{' :: stk⟩ ⟨.code, '{' :: stk⟩ := rfl
  have r18 : Run G s%"." ⟨.code, '{' :: stk⟩ ⟨.code, '{' :: stk⟩ := rfl
  have r20 : Run G s%"\n" ⟨.code, '{' :: stk⟩ ⟨.code, '{' :: stk⟩ := rfl
  have r21 : Run G s%"    enum.Content = " ⟨.code, '{' :: stk⟩ ⟨.code, '{' :: stk⟩ := rfl
  have r25 : Run G s%"    return json.Marshal(enum)\n}\n" ⟨.code, '{' :: stk⟩ ⟨.code, stk⟩ := rfl
  exact ((((((((((((((((((((((r1.append (he.short _)).append r3).append (he.name _)).append r5).append r6).append r7).append
    (he.keyType _)).append r9).append r10).append r11).append r12).append r13).append r14).append r15).append r16).append
    (he.short _)).append r18).append (he.tagField _)).append r20).append r21).append (he.short _)).append r18).append
    (he.contentField _) |>.append r20 |>.append r25

theorem renderAlgEnum_nb (e : GoAlgEnum) (he : AlgEnumOk e) : NB G (renderAlgEnum e) := by
  unfold renderAlgEnum
  intro stk
  have r0 := NB.flatMap (cfg := G) renderStruct e.anonymous (fun s hs => renderStruct_nb s (he.anonymous s hs)) stk
  have r1 := comments_nb 0 _ he.docs stk
  have r2 : Run G s%"type " ⟨.code, stk⟩ ⟨.code, stk⟩ := rfl
  have r4 : Run G s%" string\n" ⟨.code, stk⟩ ⟨.code, stk⟩ := rfl
  have r5 : Run G s%"const (\n" ⟨.code, stk⟩ ⟨.code, '(' :: stk⟩ := rfl
  have r6 : NB G (e.variants.flatMap fun v =>
      comments 1 v.comments ++ s%"\t" ++ v.constName ++ s%" " ++ e.keyType ++ s%" = " ++ debugStr v.wire ++ nl) := by
    apply NB.flatMap
    intro v hv
    have hvo := he.variants v hv
    nb_pieces
    · exact comments_nb 1 _ hvo.docs
    · nb_lit
    · exact hvo.constName
    · nb_lit
    · exact he.keyType
    · nb_lit
    · exact NB.debugStr _
    · exact NB.nl
  have r7 : Run G s%")\n" ⟨.code, '(' :: stk⟩ ⟨.code, stk⟩ := rfl
  have r9 : Run G s%" struct{ \n" ⟨.code, stk⟩ ⟨.code, '{' :: stk⟩ := rfl
  have r10 : Run G s%"\t" ⟨.code, '{' :: stk⟩ ⟨.code, '{' :: stk⟩ := rfl
  have r12 : Run G s%" " ⟨.code, '{' :: stk⟩ ⟨.code, '{' :: stk⟩ := rfl
  have r14 : Run G s%" `json:" ⟨.code, '{' :: stk⟩ ⟨.raw, '{' :: stk⟩ := rfl
  have r15 : Run G (debugStr e.tagKey) ⟨.raw, '{' :: stk⟩ ⟨.raw, '{' :: stk⟩ := by
    rw [debugStr_key he.tagKey]
    refine raw_body _ _ ?_
    have := KeyStr.no_tick he.tagKey
    simp [this]
  have r16 : Run G s%"`\n" ⟨.raw, '{' :: stk⟩ ⟨.code, '{' :: stk⟩ := rfl
  have r18 : Run G s%" interface{}\n" ⟨.code, '{' :: stk⟩ ⟨.code, '{' :: stk⟩ := rfl
  have r19 : Run G s%"}\n" ⟨.code, '{' :: stk⟩ ⟨.code, stk⟩ := rfl
  have rn : Run G nl ⟨.code, stk⟩ ⟨.code, stk⟩ := rfl
  have r20 := renderUnmarshal_nb e he stk
  have r21 := renderMarshal_nb e he stk
  have r22 := NB.flatMap (cfg := G) (renderAccessor e) e.variants (fun v hv => renderAccessor_nb e he v (he.variants v hv)) stk
  have r23 := NB.flatMap (cfg := G) (renderConstructor e) e.variants
    (fun v hv => renderConstructor_nb e he v (he.variants v hv)) stk
  exact ((((((((((((((((((((((((((r0.append r1).append r2).append (he.keyType _)).append r4).append r5).append (r6 _)).append r7).append
    r2).append (he.name _)).append r9).append r10).append (he.tagField _)).append r12).append (he.keyType _)).append r14).append
    r15).append r16).append r10).append (he.contentField _)).append r18).append r19).append rn).append r20).append rn).append
    r21).append rn).append r22 |>.append rn |>.append r23 |>.append rn

end TsV.C10Go
