import TsV.Model.Visitor
import TsV.Model.Deps
/-!
# Model of the glue between parsing and printing
`cli/src/parse.rs` (collector fold), `core/src/reconcile.rs`, `cli/src/parse.rs::all_types`,
`cli/src/main.rs::check_parse_errors`, `language/mod.rs::{generate_types (ordering), used_imports}`.
-/
namespace TsV.Pipeline
open TsV

/-- `impl AddAssign<ParsedData> for ParsedData` -/
def addAssign (a b : ParsedData) : ParsedData :=
  { structs := a.structs ++ b.structs, enums := a.enums ++ b.enums, aliases := a.aliases ++ b.aliases,
    consts := a.consts ++ b.consts,
    importTypes := b.importTypes.foldl (fun acc i => Visitor.insertSet i acc) a.importTypes,
    typeNames := b.typeNames.foldl (fun acc i => Visitor.insertSet i acc) a.typeNames,
    errors := a.errors ++ b.errors,
    fileName := b.fileName, crateName := b.crateName, multiFile := b.multiFile }

/-- insert into a `BTreeMap<CrateName, ParsedData>` kept as a list sorted by key -/
def upsert (m : List (Str × ParsedData)) (d : ParsedData) : List (Str × ParsedData) :=
  match m with
  | [] => [(d.crateName, addAssign {} d)]
  | (k, v) :: rest =>
    if k == d.crateName then (k, addAssign v d) :: rest
    else if Str.lt d.crateName k then (d.crateName, addAssign {} d) :: (k, v) :: rest
    else (k, v) :: upsert rest d

/-- the collector thread: fold the per-file results in arrival order -/
def collect (arrivals : List ParsedData) : List (Str × ParsedData) := arrivals.foldl upsert []

/-- `RenamedTypes`: original name ↦ (crate ↦ new name); later entries overwrite earlier ones -/
abbrev Renames := List (Str × Str × Str)     -- (original, crate, renamed), in insertion order

def collectSerdeRenames (m : List (Str × ParsedData)) : Renames :=
  m.flatMap fun (crate, d) =>
    (d.structs.filterMap fun s => if s.id.serdeRename then some (s.id.original, crate, s.id.renamed) else none) ++
    (d.enums.filterMap fun e => if e.id.serdeRename then some (e.id.original, crate, e.id.renamed) else none) ++
    (d.aliases.filterMap fun a => if a.id.serdeRename then some (a.id.original, crate, a.id.renamed) else none)

/-- `name_map.get(crate)`: the last insertion for (original, crate) -/
def renameOf (r : Renames) (original crate : Str) : Option Str :=
  (r.reverse.find? fun e => e.1 == original && e.2.1 == crate).map (·.2.2)

def hasRename (r : Renames) (original : Str) : Bool := r.any (·.1 == original)

/-- `Iterator::min_by_key` on (key, value) pairs whose key is a `String` (compared by `Str.lt` =
Rust's `String: Ord`): the *first* entry, in the order of the list, among those with the smallest
key (`reduce` keeps the current minimum unless the next key is strictly smaller) -/
def minByKey {α} : List (Str × α) → Option (Str × α)
  | [] => none
  | x :: xs => some (xs.foldl (fun m y => if Str.lt y.1 m.1 then y else m) x)

/-- `resolve_renamed`.  `imports` is the `HashSet` in *some* iteration order (a parameter of the
model).  Among the imports of `id` whose crate renames the type, the one with the smallest crate
name decides (`filter_map(..).min_by_key(|(base_crate, _)| *base_crate)`, since the `fix:` commit
"resolve a type name imported from several crates the same way in every run"; it was `find_map`,
the first such import in iteration order). -/
def resolveRenamed (crate : Str) (r : Renames) (imports : List ImportedType) (id : Str) : Option Str :=
  if !hasRename r id then none
  else
    match minByKey ((imports.filter (·.typeName == id)).filterMap fun i =>
        (renameOf r id i.baseCrate).map fun n => (i.baseCrate, n)) with
    | some (_, n) => some n
    | none => renameOf r id crate

mutual
  /-- `check_type`: `Simple` ids and (since the `fix:` commit 944b749) the head of a `Generic`
  application are rewritten -/
  def checkType (crate : Str) (r : Renames) (imports : List ImportedType) : RustType → RustType
    | .generic id ps => match resolveRenamed crate r imports id with
      | some n => .generic n (checkTypes crate r imports ps)
      | none => .generic id (checkTypes crate r imports ps)
    | .vec t => .vec (checkType crate r imports t)
    | .array t n => .array (checkType crate r imports t) n
    | .slice t => .slice (checkType crate r imports t)
    | .hashMap k v => .hashMap (checkType crate r imports k) (checkType crate r imports v)
    | .option t => .option (checkType crate r imports t)
    | .prim p => .prim p
    | .simple id => match resolveRenamed crate r imports id with
      | some n => .simple n
      | none => .simple id
  def checkTypes (crate : Str) (r : Renames) (imports : List ImportedType) : List RustType → List RustType
    | [] => []
    | t :: ts => checkType crate r imports t :: checkTypes crate r imports ts
end

def checkField (crate : Str) (r : Renames) (imports : List ImportedType) (f : RustField) : RustField :=
  { f with ty := checkType crate r imports f.ty }

def checkVariant (crate : Str) (r : Renames) (imports : List ImportedType) : RustEnumVariant → RustEnumVariant
  | .unit i c => .unit i c
  | .tuple i c t => .tuple i c (checkType crate r imports t)
  | .anonymousStruct i c fs => .anonymousStruct i c (fs.map (checkField crate r imports))

/-- stable sort by original name (`Vec::sort` with the `Ord` impls of rust_types.rs) -/
def sortBy {α} (key : α → Str) (l : List α) : List α := l.mergeSort fun a b => Str.le (key a) (key b)

/-- `reconcile_aliases` for one crate -/
def reconcileOne (r : Renames) (crate : Str) (d : ParsedData) : ParsedData :=
  let imports := d.importTypes
  { d with
    structs := sortBy (·.id.original) (d.structs.map fun s => { s with fields := s.fields.map (checkField crate r imports) }),
    enums := sortBy (·.id.original) (d.enums.map fun e => { e with variants := e.variants.map (checkVariant crate r imports) }),
    aliases := sortBy (·.id.original) (d.aliases.map fun a => { a with ty := checkType crate r imports a.ty }),
    -- consts are sorted too since the `fix:` commit 7643332 (their types are not reconciled)
    consts := sortBy (·.id.original) d.consts }

/-- `reconcile_aliases` -/
def reconcile (m : List (Str × ParsedData)) : List (Str × ParsedData) :=
  let r := collectSerdeRenames m
  m.map fun (crate, d) => (crate, reconcileOne r crate d)

/-- `check_parse_errors`: all recorded errors, in crate order -/
def allErrors (m : List (Str × ParsedData)) : List (ErrKind × Str) := m.flatMap (·.2.errors)

/-- `all_types`: crate ↦ set of (renamed) type names -/
def allTypes (m : List (Str × ParsedData)) : List (Str × List Str) := m.map fun (c, d) => (c, d.typeNames)

/-- the order `generate_types` writes in: aliases, structs, enums, consts, then `topsort` -/
def generateOrder (d : ParsedData) : Option (List RustItem) :=
  Deps.topsort (d.aliases.map .alias ++ d.structs.map .struct ++ d.enums.map .enum ++ d.consts.map .const)

/-- `BTreeMap<&CrateName, BTreeSet<&str>>` as a sorted association list of sorted lists -/
abbrev ScopedCrateTypes := List (Str × List Str)

def scopedInsert (m : ScopedCrateTypes) (crate ty : Str) (orInsert : Bool) : ScopedCrateTypes :=
  match m with
  | [] => if orInsert then [(crate, [ty])] else []
  | (k, v) :: rest =>
    if k == crate then (k, Parser.insertSorted Str.lt ty v) :: rest
    else if Str.lt crate k then (if orInsert then (crate, [ty]) :: (k, v) :: rest else (k, v) :: rest)
    else (k, v) :: scopedInsert rest crate ty orInsert

/-- `entry(crate).or_insert_with(BTreeSet::new)`: make sure the (sorted) map has an entry for `crate` -/
def scopedEnsure (m : ScopedCrateTypes) (crate : Str) : ScopedCrateTypes :=
  match m with
  | [] => [(crate, [])]
  | (k, v) :: rest =>
    if k == crate then (k, v) :: rest
    else if Str.lt crate k then (crate, []) :: (k, v) :: rest
    else (k, v) :: scopedEnsure rest crate

/-- `used_imports`.  `data.import_types` and `all_types` are hash containers: `imports` is the set
in some iteration order and `firstOther name` is "the crate ≠ current with the smallest name whose
type set contains `name`" (only consulted by the re-export fallback; `Generate.firstOther` computes
it from the map in some iteration order). -/
def usedImports (d : ParsedData) (all : List (Str × List Str)) (imports : List ImportedType)
    (firstOther : Str → Option Str) : ScopedCrateTypes :=
  let fallback (m : ScopedCrateTypes) (name : Str) : ScopedCrateTypes :=
    match firstOther name with
    | some c => scopedInsert m c name true
    | none => m
  (imports.filter (·.baseCrate != d.crateName)).foldl (fun m imp =>
    match all.find? (·.1 == imp.baseCrate) with
    | some (_, names) =>
      if imp.typeName == s%"*" then
        -- `and_modify(extend).or_insert_with(all)`: the entry holds every type of that crate afterwards
        names.foldl (fun m n => scopedInsert m imp.baseCrate n true) (scopedEnsure m imp.baseCrate)
      else if names.contains imp.typeName then scopedInsert m imp.baseCrate imp.typeName true
      else fallback m imp.typeName
    | none => fallback m imp.typeName) []

end TsV.Pipeline
