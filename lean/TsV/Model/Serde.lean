import TsV.Model.Outcome
import TsV.Model.Unicode
/-!
# Specification side: `serde_derive/src/internals/case.rs` (1.0.214), ported

This is the oracle of C16/C01/C02.  It is itself tied to code: the correspondence check compiles the
vendored `case.rs` unchanged into the runner and compares it with these definitions.
-/
namespace TsV.Serde
open TsV Str

inductive Rule
  | none | lower | upper | pascal | camel | snake | screamingSnake | kebab | screamingKebab
deriving DecidableEq, Repr

/-- `RenameRule::from_str` (`none` here = serde's parse error) -/
def Rule.ofStr (v : Str) : Option Rule :=
  if v = s%"lowercase" then some .lower
  else if v = s%"UPPERCASE" then some .upper
  else if v = s%"PascalCase" then some .pascal
  else if v = s%"camelCase" then some .camel
  else if v = s%"snake_case" then some .snake
  else if v = s%"SCREAMING_SNAKE_CASE" then some .screamingSnake
  else if v = s%"kebab-case" then some .kebab
  else if v = s%"SCREAMING-KEBAB-CASE" then some .screamingKebab
  else Option.none

def lowerFirst : Str → Outcome Str
  | [] => .panic s%"case.rs"
  | c :: rest => if c.toNat < 128 then .ok (asciiLower c :: rest) else .panic s%"case.rs"

def variantSnakeGo (U : UnicodeOps) : Bool → Str → Str
  | _, [] => []
  | first, ch :: rest =>
    (if !first && U.isUpper ch then ['_'] else []) ++ asciiLower ch :: variantSnakeGo U false rest

def variantSnake (U : UnicodeOps) (v : Str) : Str := variantSnakeGo U true v

/-- `RenameRule::apply_to_variant` -/
def applyVariant (U : UnicodeOps) (r : Rule) (v : Str) : Outcome Str :=
  match r with
  | .none | .pascal => .ok v
  | .lower => .ok (toAsciiLower v)
  | .upper => .ok (toAsciiUpper v)
  | .camel => lowerFirst v
  | .snake => .ok (variantSnake U v)
  | .screamingSnake => .ok (toAsciiUpper (variantSnake U v))
  | .kebab => .ok (replaceChar (variantSnake U v) '_' ['-'])
  | .screamingKebab => .ok (replaceChar (toAsciiUpper (variantSnake U v)) '_' ['-'])

def fieldPascalGo : Bool → Str → Str
  | _, [] => []
  | cap, ch :: rest =>
    if ch = '_' then fieldPascalGo true rest
    else if cap then asciiUpper ch :: fieldPascalGo false rest
    else ch :: fieldPascalGo false rest

def fieldPascal (f : Str) : Str := fieldPascalGo true f

/-- `RenameRule::apply_to_field` -/
def applyField (r : Rule) (f : Str) : Outcome Str :=
  match r with
  | .none | .lower | .snake => .ok f
  | .upper => .ok (toAsciiUpper f)
  | .pascal => .ok (fieldPascal f)
  | .camel => lowerFirst (fieldPascal f)
  | .screamingSnake => .ok (toAsciiUpper f)
  | .kebab => .ok (replaceChar f '_' ['-'])
  | .screamingKebab => .ok (replaceChar (toAsciiUpper f) '_' ['-'])

end TsV.Serde
