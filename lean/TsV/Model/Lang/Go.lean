import TsV.Model.Lang.Common
/-!
# Model of `core/src/language/go.rs`

`Go` overrides `Language::generate_types`: the items are rendered into a buffer first (filling the
`imports` set on the way) and the import block is written between the `package` line and that
buffer.  The only mutable printer state is `imports : BTreeSet<String>`; it is never cleared, so it
is threaded through the items of a file *and* through the files of a run (`generateFrom`).

Every declaration is first turned into a fact record (`GoField`, `GoStruct`, `GoConst`,
`GoUnitEnum`, `GoAlgVariant`, `GoAlgEnum`, …) that says what is bound — names, types, wire names —
and then rendered (`render*`); the `UnmarshalJSON` / `MarshalJSON` bodies are templates over the
record's holes.

`convert_acronyms_to_uppercase` mixes byte offsets (`match_indices`) with character counts
(`chars().nth`, `replace_range(i..i + chars().count())`); it is modelled on UTF-8 byte offsets and
can therefore panic (`String::replace_range` off a character boundary) exactly where Rust does.
That makes every printer function an `Outcome`.
-/
namespace TsV.Lang.Go
open TsV TsV.Lang

structure Cfg where
  typeMappings : List (Str × Str) := []
  versionHeader : Option Str := none     -- `some version` when the header is written
  package : Str := []
  uppercaseAcronyms : List Str := []
  noPointerSlice : Bool := false

/-- `imports: BTreeSet<String>` as a sorted duplicate-free list -/
abbrev Imports := List Str

/-- `add_import` -/
def addImport (st : Imports) (name : Str) : Imports := Parser.insertSorted Str.lt name st

/-! ## `format_type` -/

/-- `format_generic_parameters`: `[A, B]` -/
def bracket (ps : List Str) : Str := s%"[" ++ Str.intercalate s%", " ps ++ s%"]"

/-- the type-mapping prelude of `format_special_type` (looked up by `Display` of the special type);
a mapped type returns before any import is recorded -/
def special (cfg : Cfg) (t : RustType) (st : Imports) (k : Imports → Outcome (Str × Imports)) :
    Outcome (Str × Imports) :=
  match mapGet cfg.typeMappings t.display with
  | some m => .ok (m, st)
  | none => k st

/-- the leaf arms of `format_special_type`: Go type and the import it needs -/
def primType : Prim → Str × Option Str
  | .unit => (s%"struct{}", none)
  | .string => (s%"string", none)
  | .char => (s%"rune", none)
  | .i8 | .u8 | .u16 | .i32 | .i16 | .isize | .usize => (s%"int", none)
  | .u32 => (s%"uint32", none)
  | .i54 | .i64 => (s%"int64", none)
  | .u53 | .u64 => (s%"uint64", none)
  | .bool => (s%"bool", none)
  | .f32 => (s%"float32", none)
  | .f64 => (s%"float64", none)
  | .dateTime => (s%"time.Time", some s%"time")

mutual
  /-- `Language::format_type` for Go (default `format_simple_type` / `format_generic_type`, Go's
  `format_special_type`).  The `generic_types` argument is ignored by every arm, so it is dropped.
  No arm produces a `RustTypeFormatError` (`GenericsForbiddenInGo` is never constructed). -/
  def formatType (cfg : Cfg) : RustType → Imports → Outcome (Str × Imports)
    | .simple id, st => .ok ((mapGet cfg.typeMappings id).getD id, st)
    | .generic id ps, st =>
      match mapGet cfg.typeMappings id with
      | some m => .ok (m, st)
      | none =>
        (formatTypes cfg ps st).bind fun (strs, st) =>
          .ok ((mapGet cfg.typeMappings id).getD id ++ (if strs.isEmpty then [] else bracket strs), st)
    | t@(.vec r), st => special cfg t st fun st =>
        (formatType cfg r st).bind fun (s, st) => .ok (s%"[]" ++ s, st)
    | t@(.array r n), st => special cfg t st fun st =>
        (formatType cfg r st).bind fun (s, st) => .ok (s%"[" ++ Str.natToStr n ++ s%"]" ++ s, st)
    | t@(.slice r), st => special cfg t st fun st =>
        (formatType cfg r st).bind fun (s, st) => .ok (s%"[]" ++ s, st)
    | t@(.option r), st => special cfg t st fun st =>
        (formatType cfg r st).bind fun (s, st) =>
          .ok ((if r.isVec && cfg.noPointerSlice then [] else s%"*") ++ s, st)
    | t@(.hashMap k v), st => special cfg t st fun st =>
        (formatType cfg k st).bind fun (ks, st) =>
        (formatType cfg v st).bind fun (vs, st) => .ok (s%"map[" ++ ks ++ s%"]" ++ vs, st)
    | t@(.prim p), st => special cfg t st fun st =>
        match primType p with
        | (g, some imp) => .ok (g, addImport st imp)
        | (g, none) => .ok (g, st)
  def formatTypes (cfg : Cfg) : List RustType → Imports → Outcome (List Str × Imports)
    | [], st => .ok ([], st)
    | t :: ts, st =>
      (formatType cfg t st).bind fun (s, st) =>
      (formatTypes cfg ts st).bind fun (ss, st) => .ok (s :: ss, st)
end

/-! ## `convert_acronyms_to_uppercase` -/

/-- UTF-8 length in bytes -/
def utf8Len (s : Str) : Nat := s.foldl (fun n c => n + c.utf8Size) 0

/-- all character boundaries of `s` as byte offsets from `off` (what `match_indices("")` yields) -/
def boundaries : Nat → Str → List Nat
  | off, [] => [off]
  | off, c :: t => off :: boundaries (off + c.utf8Size) t

/-- `name.match_indices(pat)`: byte offsets of the non-overlapping matches, left to right -/
def matchIndices (name pat : Str) : List Nat :=
  if pat.isEmpty then boundaries 0 name else go name.length 0 name
where
  go : Nat → Nat → Str → List Nat
    | 0, _, _ => []
    | _, _, [] => []
    | fuel+1, off, s@(c :: t) =>
      if Str.startsWith s pat then off :: go fuel (off + utf8Len pat) (s.drop pat.length)
      else go fuel (off + c.utf8Size) t

/-- split at a byte offset; `none` when the offset is not a character boundary (or past the end) -/
def splitAtByte : Str → Nat → Option (Str × Str)
  | s, 0 => some ([], s)
  | [], _+1 => none
  | c :: t, n+1 =>
    if c.utf8Size ≤ n+1 then (splitAtByte t (n+1 - c.utf8Size)).map fun (a, b) => (c :: a, b)
    else none

/-- `String::replace_range(lo..hi, rep)` (`lo ≤ hi`): the range check of `slice::range` comes first
(not `#[track_caller]`: reported inside `core`), then the two `is_char_boundary` assertions
(`#[track_caller]`: reported at go.rs:600).  In `convertAcronyms` the first branch is kept for
fidelity only: `res` never gets shorter than `name` (k matched characters = k replaced bytes are
replaced by the ≥ k bytes of the upper-cased pattern), so `hi ≤ |name| ≤ |res|`. -/
def replaceRange (res : Str) (lo hi : Nat) (rep : Str) : Outcome Str :=
  if utf8Len res < hi then .panic s%"index.rs:1020"
  else
    match splitAtByte res lo with
    | none => .panic s%"go.rs:600"
    | some (a, rest) =>
      match splitAtByte rest (hi - lo) with
      | none => .panic s%"go.rs:600"
      | some (_, b) => .ok (a ++ rep ++ b)

/-- one acronym: the matches are searched in the *original* `name` (byte offset `i`), the test
`name.chars().nth(i + acronym_len)` indexes *characters* with that byte offset, and the replacement
is applied to `res` at *bytes* `i .. i + acronym_len` where `acronym_len` is a character count -/
def applyAcronym (U : UnicodeOps) (name : Str) (res : Str) (a : Str) : Outcome Str :=
  let pat := Rename.toPascal U a
  let len := pat.length
  (matchIndices name pat).foldlM (init := res) fun res i =>
    if ((name[i + len]?).map fun c => !U.isLower c).getD true then
      replaceRange res i (i + len) (U.upperStr pat)
    else .ok res

/-- `convert_acronyms_to_uppercase(acronyms, name)` -/
def convertAcronyms (U : UnicodeOps) (acronyms : List Str) (name : Str) : Outcome Str :=
  acronyms.foldlM (init := name) (applyAcronym U name)

/-- `Go::acronyms_to_uppercase` -/
def acr (U : UnicodeOps) (cfg : Cfg) (name : Str) : Outcome Str :=
  convertAcronyms U cfg.uppercaseAcronyms name

/-- `Go::format_field_name(name, exported = true)` -/
def fieldName (U : UnicodeOps) (cfg : Cfg) (name : Str) : Outcome Str := acr U cfg (Rename.toPascal U name)

/-! ## comments -/

/-- `write_comments` -/
def comments (indent : Nat) (cs : List Str) : Str :=
  cs.flatMap fun c => tabs indent ++ s%"// " ++ c ++ nl

/-! ## structs -/

/-- what one struct field line binds -/
structure GoField where
  comments : List Str
  name : Str          -- exported Go field name
  ty : Str            -- Go type as printed, including a leading `*`
  jsonName : Str      -- the key inside the json tag (already escaped like `{:?}`)
  omitempty : Bool
deriving Repr, Inhabited, DecidableEq

def renderField (f : GoField) : Str :=
  comments 1 f.comments ++ s%"\t" ++ f.name ++ s%" " ++ f.ty ++ s%" `json:\"" ++ f.jsonName ++
    (if f.omitempty then s%",omitempty" else []) ++ s%"\"`\n"

/-- `&formatted[1..formatted.len() - 1]` of `format!("{:?}", s)` -/
def debugInner (s : Str) : Str := ((debugStr s).drop 1).dropLast

/-- `write_field` as a fact record plus the state update.  A `#[typeshare(go(type = ".."))]`
override bypasses `format_type`, hence records no import. -/
def fieldFacts (U : UnicodeOps) (cfg : Cfg) (f : RustField) (st : Imports) : Outcome (GoField × Imports) :=
  (match typeOverride f .go with
   | some t => Outcome.ok (t, st)
   | none => formatType cfg f.ty st).bind fun (typeName, st) =>
  (acr U cfg typeName).bind fun goType =>
  (fieldName U cfg f.id.original).bind fun name =>
    .ok ({ comments := f.comments, name,
           ty := (if f.hasDefault && !f.ty.isOptional then s%"*" else []) ++ goType,
           jsonName := debugInner f.id.renamed,
           omitempty := f.ty.isOptional || f.hasDefault }, st)

def fieldsFacts (U : UnicodeOps) (cfg : Cfg) : List RustField → Imports → Outcome (List GoField × Imports)
  | [], st => .ok ([], st)
  | f :: fs, st =>
    (fieldFacts U cfg f st).bind fun (g, st) =>
    (fieldsFacts U cfg fs st).bind fun (gs, st) => .ok (g :: gs, st)

/-- what a `type X struct` declaration binds -/
structure GoStruct where
  comments : List Str
  name : Str                -- declared under `acr(id.renamed)`
  generics : List Str       -- `[T any, U any]`
  fields : List GoField
deriving Repr, Inhabited, DecidableEq

def renderStruct (d : GoStruct) : Str :=
  comments 0 d.comments ++ s%"type " ++ d.name ++
    (if d.generics.isEmpty then [] else
      s%"[" ++ Str.intercalate s%", " (d.generics.map (· ++ s%" any")) ++ s%"]") ++
    s%" struct {\n" ++ d.fields.flatMap renderField ++ s%"}\n"

/-- `write_struct` -/
def structFacts (U : UnicodeOps) (cfg : Cfg) (rs : RustStruct) (st : Imports) : Outcome (GoStruct × Imports) :=
  (acr U cfg rs.id.renamed).bind fun name =>
  (fieldsFacts U cfg rs.fields st).bind fun (fields, st) =>
    .ok ({ comments := rs.comments, name, generics := rs.genericTypes, fields }, st)

def writeStruct (U : UnicodeOps) (cfg : Cfg) (rs : RustStruct) (st : Imports) : Outcome (Str × Imports) :=
  (structFacts U cfg rs st).bind fun (d, st) => .ok (renderStruct d, st)

/-! ## aliases and constants -/

structure GoAlias where
  comments : List Str
  name : Str          -- declared under `acr(id.renamed)` (since the `fix:` commit 0c924cd)
  ty : Str
deriving Repr, Inhabited, DecidableEq

def renderAlias (a : GoAlias) : Str :=
  comments 0 a.comments ++ s%"type " ++ a.name ++ s%" " ++ a.ty ++ s%"\n\n"

/-- `write_type_alias` (the alias' own generic parameters are dropped) -/
def aliasFacts (U : UnicodeOps) (cfg : Cfg) (a : RustTypeAlias) (st : Imports) : Outcome (GoAlias × Imports) :=
  (acr U cfg a.id.renamed).bind fun name =>
  (formatType cfg a.ty st).bind fun (ty, st) =>
    .ok ({ comments := a.comments, name, ty }, st)

def writeAlias (U : UnicodeOps) (cfg : Cfg) (a : RustTypeAlias) (st : Imports) : Outcome (Str × Imports) :=
  (aliasFacts U cfg a st).bind fun (d, st) => .ok (renderAlias d, st)

structure GoValue where
  name : Str          -- `id.renamed.to_pascal_case()` (no acronym pass)
  ty : Str
  value : Nat
deriving Repr, Inhabited, DecidableEq

def renderValue (c : GoValue) : Str :=
  s%"const " ++ c.name ++ s%" " ++ c.ty ++ s%" = " ++ Str.natToStr c.value ++ s%"\n"

/-- `write_const` -/
def constFacts (U : UnicodeOps) (cfg : Cfg) (c : RustConst) (st : Imports) : Outcome (GoValue × Imports) :=
  (formatType cfg c.ty st).bind fun (ty, st) =>
    .ok ({ name := Rename.toPascal U c.id.renamed, ty, value := c.expr }, st)

def writeConst (U : UnicodeOps) (cfg : Cfg) (c : RustConst) (st : Imports) : Outcome (Str × Imports) :=
  (constFacts U cfg c st).bind fun (d, st) => .ok (renderValue d, st)

/-! ## enums -/

/-- one line of a `const ( … )` block: `\tName Type = "wire"` -/
structure GoConst where
  comments : List Str
  name : Str
  ty : Str
  wire : Str          -- `id.renamed`, printed with `{:?}`
deriving Repr, Inhabited, DecidableEq

/-- what a unit enum binds: `type T string` and one string constant per variant -/
structure GoUnitEnum where
  comments : List Str
  name : Str          -- declared under `acr(id.original)`
  consts : List GoConst
deriving Repr, Inhabited, DecidableEq

def renderUnitEnum (e : GoUnitEnum) : Str :=
  comments 0 e.comments ++ s%"type " ++ e.name ++ s%" string\n" ++ s%"const (" ++
    (e.consts.flatMap fun c =>
      nl ++ comments 1 c.comments ++ s%"\t" ++ c.name ++ s%" " ++ c.ty ++ s%" = " ++ debugStr c.wire) ++
    s%"\n)\n"

/-- the closure of the `RustEnum::Unit` arm; a non-unit variant hits `unreachable!()` -/
def unitConsts (U : UnicodeOps) (cfg : Cfg) (original : Str) : List RustEnumVariant → Outcome (List GoConst)
  | [] => .ok []
  | .unit id cs :: vs =>
    (acr U cfg original).bind fun en =>
    (acr U cfg id.original).bind fun vn =>
    (unitConsts U cfg original vs).bind fun rest =>
      .ok ({ comments := cs, name := en ++ vn, ty := en, wire := id.renamed } :: rest)
  | _ :: _ => .panic s%"go.rs:301"

/-- the payload of an algebraic variant -/
structure GoPayload where
  ty : Str            -- `formatted_variant_type`
  /-- `("*", "", "")`: accessor returns and constructor takes a pointer (anonymous struct variants
  and payload types that are structs or aliases of structs); otherwise `("", "*", "&")` -/
  byPointer : Bool
deriving Repr, Inhabited, DecidableEq

structure GoAlgVariant where
  comments : List Str
  name : Str          -- `variant_name` = accessor method name
  constName : Str     -- `variant_type_const`
  wire : Str          -- `id.renamed`
  payload : Option GoPayload
deriving Repr, Inhabited, DecidableEq

/-- what an algebraic enum binds -/
structure GoAlgEnum where
  comments : List Str
  anonymous : List GoStruct   -- named types of the struct variants, written first
  name : Str                  -- `struct_name` = `acr(id.original)`
  short : Str                 -- receiver name
  keyType : Str               -- `variant_key_type`
  tagField : Str
  contentField : Str
  tagKey : Str
  contentKey : Str
  variants : List GoAlgVariant
deriving Repr, Inhabited, DecidableEq

def renderDecodeCase (e : GoAlgEnum) (v : GoAlgVariant) : Str :=
  s%"\tcase " ++ v.constName ++ s%":\n" ++
  match v.payload with
  | some p => s%"\t\tvar res " ++ p.ty ++ s%"\n\t\t" ++ e.short ++ s%"." ++ e.contentField ++ s%" = &res\n"
  | none => s%"\t\treturn nil\n"

def renderAccessor (e : GoAlgEnum) (v : GoAlgVariant) : Str :=
  match v.payload with
  | some p =>
    s%"func (" ++ e.short ++ s%" " ++ e.name ++ s%") " ++ v.name ++ s%"() " ++
      (if p.byPointer then s%"*" else []) ++ p.ty ++ s%" {\n" ++
    s%"\tres, _ := " ++ e.short ++ s%"." ++ e.contentField ++ s%".(*" ++ p.ty ++ s%")\n" ++
    s%"\treturn " ++ (if p.byPointer then [] else s%"*") ++ s%"res\n}\n"
  | none => []

def renderConstructor (e : GoAlgEnum) (v : GoAlgVariant) : Str :=
  match v.payload with
  | some p =>
    s%"func New" ++ v.constName ++ s%"(content " ++ (if p.byPointer then s%"*" else []) ++ p.ty ++ s%") " ++
      e.name ++ s%" {\n" ++
    s%"    return " ++ e.name ++ s%"{\n" ++
    s%"        " ++ e.tagField ++ s%": " ++ v.constName ++ s%",\n" ++
    s%"        " ++ e.contentField ++ s%": " ++ (if p.byPointer then [] else s%"&") ++ s%"content,\n" ++
    s%"    }\n}\n"
  | none =>
    s%"func New" ++ v.constName ++ s%"() " ++ e.name ++ s%" {\n" ++
    s%"    return " ++ e.name ++ s%"{\n" ++
    s%"        " ++ e.tagField ++ s%": " ++ v.constName ++ s%",\n" ++
    s%"    }\n}\n"

/-- the `UnmarshalJSON` method: holes are receiver, type, key type, tag / content keys and fields,
and the decode cases -/
def renderUnmarshal (e : GoAlgEnum) : Str :=
  s%"func (" ++ e.short ++ s%" *" ++ e.name ++ s%") UnmarshalJSON(data []byte) error {\n" ++
  s%"\tvar enum struct {\n" ++
  s%"\t\tTag    " ++ e.keyType ++ s%"   `json:\"" ++ e.tagKey ++ s%"\"`\n" ++
  s%"\t\tContent json.RawMessage `json:\"" ++ e.contentKey ++ s%"\"`\n" ++
  s%"\t}\n" ++
  s%"\tif err := json.Unmarshal(data, &enum); err != nil {\n\t\treturn err\n\t}\n\n" ++
  s%"\t" ++ e.short ++ s%"." ++ e.tagField ++ s%" = enum.Tag\n" ++
  s%"\tswitch " ++ e.short ++ s%"." ++ e.tagField ++ s%" {\n" ++
  e.variants.flatMap (renderDecodeCase e) ++ s%"\n\t}\n" ++
  s%"\tif err := json.Unmarshal(enum.Content, &" ++ e.short ++ s%"." ++ e.contentField ++ s%"); err != nil {\n" ++
  s%"\t\treturn err\n\t}\n\n\treturn nil\n}\n"

/-- the `MarshalJSON` method -/
def renderMarshal (e : GoAlgEnum) : Str :=
  s%"func (" ++ e.short ++ s%" " ++ e.name ++ s%") MarshalJSON() ([]byte, error) {\n" ++
  s%"    var enum struct {\n" ++
  s%"\t\tTag    " ++ e.keyType ++ s%"   `json:\"" ++ e.tagKey ++ s%"\"`\n" ++
  s%"\t\tContent interface{} `json:\"" ++ e.contentKey ++ s%",omitempty\"`\n" ++
  s%"    }\n" ++
  s%"    enum.Tag = " ++ e.short ++ s%"." ++ e.tagField ++ s%"\n" ++
  s%"    enum.Content = " ++ e.short ++ s%"." ++ e.contentField ++ s%"\n" ++
  s%"    return json.Marshal(enum)\n}\n"

def renderAlgEnum (e : GoAlgEnum) : Str :=
  e.anonymous.flatMap renderStruct ++
  comments 0 e.comments ++
  s%"type " ++ e.keyType ++ s%" string\n" ++ s%"const (\n" ++
  (e.variants.flatMap fun v =>
    comments 1 v.comments ++ s%"\t" ++ v.constName ++ s%" " ++ e.keyType ++ s%" = " ++ debugStr v.wire ++ nl) ++
  s%")\n" ++
  s%"type " ++ e.name ++ s%" struct{ \n" ++
  s%"\t" ++ e.tagField ++ s%" " ++ e.keyType ++ s%" `json:" ++ debugStr e.tagKey ++ s%"`\n" ++
  s%"\t" ++ e.contentField ++ s%" interface{}\n" ++
  s%"}\n" ++
  nl ++ renderUnmarshal e ++ nl ++ renderMarshal e ++ nl ++
  e.variants.flatMap (renderAccessor e) ++ nl ++
  e.variants.flatMap (renderConstructor e) ++ nl

/-- `make_anonymous_struct_name(variant_name)` -/
def anonName (U : UnicodeOps) (cfg : Cfg) (e : RustEnum) (variantName : Str) : Outcome Str :=
  acr U cfg (e.id.original ++ variantName ++ s%"Inner")

/-- `write_types_for_anonymous_structs`: the struct is *declared* under
`make_anonymous_struct_name(variant.id.original)` -/
def anonStructs (U : UnicodeOps) (cfg : Cfg) (e : RustEnum) :
    List (Id × List RustField) → Imports → Outcome (List GoStruct × Imports)
  | [], st => .ok ([], st)
  | (id, fs) :: rest, st =>
    (anonName U cfg e id.original).bind fun structName =>
    (structFacts U cfg (anonymousStruct e structName id.original fs) st).bind fun (d, st) =>
    (anonStructs U cfg e rest st).bind fun (ds, st) => .ok (d :: ds, st)

/-- the loop body over the variants of an algebraic enum.  A struct variant *refers* to its named
type as `make_anonymous_struct_name(acr(variant.id.original))`. -/
def algVariant (U : UnicodeOps) (cfg : Cfg) (e : RustEnum) (structName tagKey : Str) (customStructs : List Str)
    (v : RustEnumVariant) (st : Imports) : Outcome (GoAlgVariant × Imports) :=
  (acr U cfg v.id.original).bind fun variantName =>
  (match v with
   | .tuple _ _ ty =>
     match formatType cfg ty st with
     | .ok (t, st) => Outcome.ok (some t, st)
     | .err _ => .panic s%"go.rs:333"
     | .panic s => .panic s
   | .anonymousStruct _ _ _ => (anonName U cfg e variantName).bind fun n => .ok (some n, st)
   | .unit _ _ => .ok (none, st)).bind fun (variantType, st) =>
  (acr U cfg (Rename.toPascal U tagKey)).bind fun tagPart =>
  let constName := structName ++ tagPart ++ s%"Variant" ++ variantName
  (match variantType with
   | some t =>
     let byPointer := match v with
       | .anonymousStruct _ _ _ => true
       | _ => customStructs.contains t
     (acr U cfg t).bind fun ft => .ok (some ({ ty := ft, byPointer } : GoPayload))
   | none => .ok none).bind fun payload =>
    .ok ({ comments := v.comments, name := variantName, constName, wire := v.id.renamed, payload }, st)

def algVariants (U : UnicodeOps) (cfg : Cfg) (e : RustEnum) (structName tagKey : Str) (customStructs : List Str) :
    List RustEnumVariant → Imports → Outcome (List GoAlgVariant × Imports)
  | [], st => .ok ([], st)
  | v :: vs, st =>
    (algVariant U cfg e structName tagKey customStructs v st).bind fun (g, st) =>
    (algVariants U cfg e structName tagKey customStructs vs st).bind fun (gs, st) => .ok (g :: gs, st)

/-- the lower-cased first character of the enum name (since the `fix:` commit a1a83a6; before it
`shared.id.original[..1]` byte-sliced and panicked on a non-ASCII initial) -/
def shortName (U : UnicodeOps) (original : Str) : Outcome Str :=
  match original with
  | c :: _ => .ok (U.lowerStr [c])
  | [] => .ok []

/-- the `RustEnum::Algebraic` arm of `write_enum` -/
def algEnumFacts (U : UnicodeOps) (cfg : Cfg) (e : RustEnum) (tagKey contentKey : Str)
    (customStructs : List Str) (st : Imports) : Outcome (GoAlgEnum × Imports) :=
  (anonStructs U cfg e (structVariants e) st).bind fun (anonymous, st) =>
  (acr U cfg e.id.original).bind fun name =>
  let contentField := Rename.toCamel U contentKey
  (fieldName U cfg tagKey).bind fun tagField =>
  (shortName U e.id.original).bind fun short =>
  (acr U cfg tagKey).bind fun tagAcr =>
  let keyType := name ++ Rename.toPascal U tagAcr ++ s%"s"
  (algVariants U cfg e name tagKey customStructs e.variants st).bind fun (variants, st) =>
    .ok ({ comments := e.comments, anonymous, name, short, keyType, tagField, contentField,
           tagKey, contentKey, variants }, st)

/-- `Go::write_enum` -/
def writeEnum (U : UnicodeOps) (cfg : Cfg) (e : RustEnum) (customStructs : List Str) (st : Imports) :
    Outcome (Str × Imports) :=
  match e.keys with
  | none =>
    -- `write_types_for_anonymous_structs` runs for unit enums too (it finds nothing unless the
    -- `unreachable!()` is about to fire)
    (anonStructs U cfg e (structVariants e) st).bind fun (anonymous, st) =>
    (acr U cfg e.id.original).bind fun name =>
    (unitConsts U cfg e.id.original e.variants).bind fun consts =>
      .ok (anonymous.flatMap renderStruct ++ renderUnitEnum { comments := e.comments, name, consts }, st)
  | some (tagKey, contentKey) =>
    (algEnumFacts U cfg e tagKey contentKey customStructs st).bind fun (d, st) => .ok (renderAlgEnum d, st)

/-! ## files -/

/-- `types_mapping_to_struct`: the structs' original names, then — in item order — every alias
whose target's `id()` is already in the set (only membership is ever asked of this `HashSet`) -/
def typesMappingToStruct (items : List RustItem) : List Str :=
  let structs := items.filterMap fun it => match it with
    | .struct s => some s.id.original
    | _ => none
  items.foldl (fun set it => match it with
    | .alias a => if set.contains a.ty.id then a.id.original :: set else set
    | _ => set) structs

def writeItem (U : UnicodeOps) (cfg : Cfg) (customStructs : List Str) (it : RustItem) (st : Imports) :
    Outcome (Str × Imports) :=
  match it with
  | .enum e => writeEnum U cfg e customStructs st
  | .struct s => writeStruct U cfg s st
  | .alias a => writeAlias U cfg a st
  | .const c => writeConst U cfg c st

def writeItems (U : UnicodeOps) (cfg : Cfg) (customStructs : List Str) :
    List RustItem → Imports → Outcome (Str × Imports)
  | [], st => .ok ([], st)
  | it :: its, st =>
    (writeItem U cfg customStructs it st).bind fun (a, st) =>
    (writeItems U cfg customStructs its st).bind fun (b, st) => .ok (a ++ b, st)

/-- the text `begin_file` writes (it also records the import `encoding/json`) -/
def beginFile (cfg : Cfg) : Str :=
  (match cfg.versionHeader with
   | some v => s%"// Code generated by typeshare " ++ v ++ s%". DO NOT EDIT.\n"
   | none => []) ++
  s%"package " ++ cfg.package ++ nl ++ nl

/-- `write_all_imports` -/
def renderImports (imports : Imports) : Str :=
  match imports with
  | [] => []
  | [i] => s%"import \"" ++ i ++ s%"\"\n" ++ nl
  | _ => s%"import (\n" ++ (imports.flatMap fun i => s%"\t\"" ++ i ++ s%"\"\n") ++ s%")\n" ++ nl

/-- `Go::generate_types` for one output file; `st0` is the import set left behind by the files
generated before this one (the same `Go` value is reused for every crate and `imports` is never
cleared) -/
def generate (U : UnicodeOps) (cfg : Cfg) (d : ParsedData) (st0 : Imports) : Outcome (Str × Imports) :=
  let st := addImport st0 s%"encoding/json"
  match Pipeline.generateOrder d with
  | none => .panic s%"topsort"
  | some items =>
    (writeItems U cfg (typesMappingToStruct items) items st).bind fun (body, st) =>
      .ok (beginFile cfg ++ renderImports st ++ body, st)

def generateFrom (U : UnicodeOps) (cfg : Cfg) :
    List (Str × ParsedData × Option Pipeline.ScopedCrateTypes) → Imports → Outcome (List (Str × Str))
  | [], _ => .ok []
  | (crate, d, _) :: rest, st =>
    (generate U cfg d st).bind fun (text, st) =>
    (generateFrom U cfg rest st).bind fun outs => .ok ((crate, text) :: outs)

/-- all output files of one run: `jobs` are the crates in map order with their reconciled data and
(in multi-file mode) the imports `used_imports` computed — Go's `generate_types` never looks at
them (`write_imports` is `unimplemented!()` and never called).  Returns (crate ↦ text) in the same
order. -/
def generateAll (E : Ext) (cfg : Cfg) (_multiFile : Bool)
    (jobs : List (Str × ParsedData × Option Pipeline.ScopedCrateTypes)) : Outcome (List (Str × Str)) :=
  generateFrom E.U cfg jobs []

end TsV.Lang.Go
