"""C15 — documentation text is carried only inside comments of the generated code.

Doc strings over the property's alphabet (line breaks, `*/`, `/*`, `//`, `\"\"\"`, `'''`, backslash, `#`, back-tick,
quotes, ordinary text), written as `///`, `/** */` or `#[doc = ".."]`, on every documentable position, six
languages.  Model and implementation are compared byte for byte; the oracle tokenises the IMPLEMENTATION's text
with the comment lexers of the six languages (the automata of TsV/Lemmas/C15_Spec.lean, cross-checked against
the Lean ones on every run) and requires every sentinel planted in a doc string to lie inside a comment /
docstring.  `entries_of(...)` is the python twin of the parser's line splitting (`Parser.docEntries`), `bad(...)`
of the Lean predicate `Bad` on one entry; after the three repairs (line splitting in the parser, `*/` and `\"\"\"`
escaped by the TypeScript / Python printers) the only entries that are still Bad are Scala's with U+001A."""
import re
from common import *
from syn_gen import *
from gen import Gen
import l2

NEEDS = ("runner", "cli")
TRUSTED = ["TsV/Lemmas/C15_Spec.lean: the comment lexers cStep (// and /* */, per-language line terminators, nesting) and pyStep "
           "(#, short and triple-quoted strings with backslash escapes); the origin tags of renderT (erase_renderT / "
           "docChars_renderT pin them to the model's renderers); `contained`; `Bad`; `KnownScalaSub`",
           "tools/c15.py: python twins of the lexers, of the parser's line splitting and of Bad (compared with the Lean ones "
           "through the `c15` / `c15-mask` driver requests on every run); the sentinel scheme"]

SENT = re.compile(r"Z\d+Q")
# Rust `char::is_whitespace` (White_Space), what `str::trim` strips
RUST_WS = set("\t\n\x0b\x0c\r \x85\xa0\u1680\u2000\u2001\u2002\u2003\u2004\u2005\u2006\u2007\u2008\u2009\u200a\u2028\u2029\u202f\u205f\u3000")

# ----------------------------------------------------------------------------- lexers (twins of C15_Spec.lean)

C_SYNTAX = {"typescript": ("\n\r\u2028\u2029", False), "kotlin": ("\n\r", True), "swift": ("\n\r", True),
            "scala": ("\n\r\x1a", True), "go": ("\n", False)}
CODE, SLASH, LINE, BLOCK, BSTAR, BSLASH = range(6)


def c_mask(text, eol, nest):
    """per character: lexer in a comment state before and after it; and the final state"""
    st, d, out = CODE, 0, []
    for c in text:
        before = st >= LINE
        if st == CODE:
            st = SLASH if c == "/" else CODE
        elif st == SLASH:
            if c == "/":
                st = LINE
            elif c == "*":
                st, d = BLOCK, 0
            else:
                st = CODE
        elif st == LINE:
            st = CODE if c in eol else LINE
        elif st == BLOCK:
            st = BSTAR if c == "*" else BSLASH if (nest and c == "/") else BLOCK
        elif st == BSTAR:
            if c == "/":
                if d == 0:
                    st = CODE
                else:
                    st, d = BLOCK, d - 1
            elif c == "*":
                st = BSTAR
            else:
                st = BLOCK
        else:  # BSLASH
            if c == "*":
                st, d = BLOCK, d + 1
            elif c == "/":
                st = BSLASH
            else:
                st = BLOCK
        out.append(before and st >= LINE)
    return out, st == CODE


def py_mask(text):
    P_CODE, HASH, Q1, Q2, SHORT, SHORTESC, LONG, LONGESC, LONGQ1, LONGQ2 = range(10)
    comment = (HASH, LONG, LONGESC, LONGQ1, LONGQ2)
    st, q, out = P_CODE, "", []

    def from_code(c):
        if c == "#":
            return HASH, ""
        if c in "\"'":
            return Q1, c
        return P_CODE, ""
    for c in text:
        before = st in comment
        eol = c in "\n\r"
        if st == P_CODE:
            st, q = from_code(c)
        elif st == HASH:
            st = P_CODE if eol else HASH
        elif st == Q1:
            st = Q2 if c == q else SHORTESC if c == "\\" else P_CODE if eol else SHORT
        elif st == Q2:
            if c == q:
                st = LONG
            else:
                st, q = from_code(c)
        elif st == SHORT:
            st = P_CODE if c == q else SHORTESC if c == "\\" else P_CODE if eol else SHORT
        elif st == SHORTESC:
            st = SHORT
        elif st == LONG:
            st = LONGQ1 if c == q else LONGESC if c == "\\" else LONG
        elif st == LONGESC:
            st = LONG
        elif st == LONGQ1:
            st = LONGQ2 if c == q else LONGESC if c == "\\" else LONG
        else:  # LONGQ2
            st = P_CODE if c == q else LONGESC if c == "\\" else LONG
        out.append(before and st in comment)
    return out, st == P_CODE


def mask_of(lang, text):
    if lang == "python":
        return py_mask(text)
    return c_mask(text, *C_SYNTAX[lang])


# ----------------------------------------------------------------------------- Bad (twin of C15_Spec.Bad)

def rust_trim(s):
    a, b = 0, len(s)
    while a < b and s[a] in RUST_WS:
        a += 1
    while b > a and s[b - 1] in RUST_WS:
        b -= 1
    return s[a:b]


def rust_trim_end(s):
    b = len(s)
    while b > 0 and s[b - 1] in RUST_WS:
        b -= 1
    return s[:b]


def unescaped_triple_quote(s):
    """index just after the first `\"\"\"` that is not under a backslash escape, or None"""
    i = 0
    while i < len(s):
        if s[i] == "\\":
            i += 2
            continue
        if s.startswith('"""', i):
            return i + 3
        i += 1
    return None


def entries_of(d):
    """twin of Parser.docEntries on one `#[doc]` string: trimmed, split at LF, CRLF and lone CR, every line trimmed"""
    return [rust_trim(l) for l in re.split("[\n\r]", rust_trim(d).replace("\r\n", "\n"))]


def written(style, e):
    """twin of C15_Spec.written: what the printer writes for one entry"""
    if style == "typescript":
        return e.replace("*/", "*\\/")
    if style == "pydoc":
        # backslashes doubled first (fix: commit af54d85), then `"""` escaped
        return e.replace("\\", "\\\\").replace('"""', '\\"\\"\\"')
    if style == "swift":
        return rust_trim_end(e)
    return e


def first_escape(style, d):
    """index in the entry (for typescript / pydoc: in its written form) just after the first sequence that ends the
    comment, or None (= not Bad)"""
    if style == "typescript":
        i = written(style, d).find("*/")
        return None if i < 0 else i + 2
    if style == "pydoc":
        return unescaped_triple_quote(written(style, d))
    eol = {"kotlin": "\n\r", "swift": "\n\r", "scala": "\n\r\x1a", "go": "\n", "pyhash": "\n\r"}[style]
    if style == "swift":
        d = rust_trim_end(d)
    idx = [i for i, c in enumerate(d) if c in eol]
    return idx[0] + 1 if idx else None


def bad(style, d):
    return first_escape(style, d) is not None


# the only open class: Scala's scanner ends a `//` comment at U+001A, at which the parser does not split.  The classes
# line-break-in-line-comment, ts-block-comment-terminator and py-docstring-triple-quote are repaired (KNOWN_FINDINGS.txt:
# fixed); a Bad entry of any other style is a violation.
CLASS = {"scala": "scala-sub-in-line-comment"}


def style_of(lang, pos):
    if lang != "python":
        return lang
    return "pyhash" if pos == "algebraic-enum" else "pydoc"


# ----------------------------------------------------------------------------- generator

ORDINARY = [" A doc line", "second", "x", " `code` ", " #hash", " a / b", " 日本語", "don't", " "]
HARMLESS = ["//", "/*", "'''", "'", '"', '""', "\\", "#", "`", "*", "/", '\\"', '\\"""', "\\n", "{", "}", "@", "$("]
NEWLINE = ["\n", "\n", "\r", "\r\n", "\x1a", "\n//", "\n/*", "\n\n"]
TSCLOSE = ["*/", "**/", "*/ /*", "*/\""]
TRIPLE = ['"""', '""""', '\\\\"""', "'\"\"\"", '"""\\']


class DocGen(Gen):
    """Gen whose doc strings are drawn from the C15 alphabet with sentinels `Z<k>Q` planted after the pieces"""

    def __init__(self, rng, exclude, **opts):
        super().__init__(rng, **opts)
        self.k = 0
        self.alphabet = ORDINARY + HARMLESS + HARMLESS
        for name, pieces in (("newline", NEWLINE), ("tsclose", TSCLOSE), ("triple", TRIPLE)):
            if name not in exclude:
                self.alphabet = self.alphabet + pieces + pieces
        self.danger = set(NEWLINE + TSCLOSE + TRIPLE)

    def sentinel(self):
        self.k += 1
        return "Z%dQ" % self.k

    def docs(self):
        out = []
        if not self.chance("p_doc"):
            return out
        for _ in range(self.rng.choice([1, 1, 2, 3])):
            text = ""
            for _ in range(self.rng.randint(0, 4)):
                piece = self.rng.choice(self.alphabet)
                text += piece
                if piece in self.danger or self.rng.random() < 0.5:
                    text += self.sentinel()
            if self.rng.random() < 0.7 and not SENT.search(text[-8:]):
                text += self.sentinel()
            styles = ["attr"]
            plain = all(ord(c) >= 32 for c in text)
            if plain and not text.startswith("/") and not text.startswith("!"):
                styles += ["line", "line"]
            if (plain or all(ord(c) >= 32 or c == "\n" for c in text)) and "*/" not in text and "/*" not in text \
                    and text[:1] in (" ", "a", "A", "s", "x", "Z", "d", "\n") and not text.endswith("/") and not text.endswith("*"):
                styles += ["block", "block"]
            st = self.rng.choice(styles)
            out.append(doc_attr(text, st))
            self.hit("doc-" + st)
            if text.strip() and self.rng.random() < 0.15:
                # the same line once more, directly below (a repeated remark, a table separator)
                out.append(doc_attr(text, st))
                self.hit("doc-repeated")
        return out


def doc_texts(attrs):
    return [rust_trim(a[2][1]) for a in attrs if a[0] == "nv" and a[1] == ["doc"] and a[2] and a[2][0] == "s"]


def positions(file, doc_texts=doc_texts):
    """[(position kind, trimmed doc string)] of the annotated items of an abstract file (`doc_texts`: what to list per attribute
    list; by default the trimmed strings of its text-carrying doc attributes)"""
    out = []

    def fields(fs, kind):
        if fs[0] == "named":
            for f in fs[1]:
                out.extend((kind, d) for d in doc_texts(f["attrs"]))

    def walk(items):
        for it in items:
            k = it["kind"]
            if k in ("mod", "other"):
                walk(it["items"])
                continue
            if k == "use" or not any(a[0] in ("p", "l") and "typeshare" in a[1] for a in it["attrs"]):
                continue
            if k == "struct":
                out.extend(("type", d) for d in doc_texts(it["attrs"]))
                fields(it["fields"], "field")
            elif k == "alias":
                out.extend(("alias", d) for d in doc_texts(it["attrs"]))
            elif k == "enum":
                alg = any(v["fields"][0] != "unit" for v in it["variants"])
                out.extend(("algebraic-enum" if alg else "type", d) for d in doc_texts(it["attrs"]))
                for v in it["variants"]:
                    out.extend(("variant", d) for d in doc_texts(v["attrs"]))
                    fields(v["fields"], "variant-field")
    walk(file["items"])
    return out


def one_file_request(lang, f, g):
    cfg = {"type_mappings": {}, "version_header": False, "package": "com.example.pkg", "module_name": "mod", "prefix": ""}
    if lang == "go":
        cfg["package"] = "proto"
    return l2.requests(lang, cfg, [{"crate": "", "file_name": "out", "path": "src/lib.rs", "file": f}], g)


# ----------------------------------------------------------------------------- oracle

def outside(lang, text):
    """sentinel occurrences of a generated text that are not wholly inside a comment / docstring token"""
    m, _ = mask_of(lang, text)
    res, seen = [], set()
    for s in SENT.finditer(text):
        seen.add(s.group(0))
        if not all(m[s.start():s.end()]):
            res.append(s.group(0))
    return res, seen


def judge(lang, docs, texts):
    """docs: [(pos, doc)]; texts: the generated files.  Returns dict(outside=[sentinels], bad=[(style, doc)],
    escapes_inside=[sentinels that should be outside but are not], seen=set)"""
    out, seen = [], set()
    for t in texts:
        o, s = outside(lang, t)
        out += o
        seen |= s
    bads = [(style_of(lang, p), e) for p, d in docs for e in entries_of(d) if bad(style_of(lang, p), e)]
    escapes_inside = []
    if len(bads) == 1:
        sty, d = bads[0]
        i = first_escape(sty, d)
        m = SENT.match(written(sty, d), i)
        if m and m.group(0) in seen and m.group(0) not in out:
            escapes_inside.append(m.group(0))
    return dict(outside=out, bad=bads, escapes_inside=escapes_inside, seen=seen)


# ----------------------------------------------------------------------------- known-finding witnesses

def witness_file(kind, doc):
    d = [doc_attr(doc, "attr")]
    if kind == "struct":
        it = {"kind": "struct", "attrs": [m_path("typeshare")] + d, "ident": "Foo", "generics": [],
              "fields": ("named", [field([], "a", t_path("u8"))])}
    else:
        it = {"kind": "enum", "attrs": [m_path("typeshare"), m_list("serde", [m_nv("tag", lit_s("t")), m_nv("content", lit_s("c"))])] + d,
              "ident": "En", "generics": [], "variants": [{"attrs": [], "ident": "A", "fields": ("unnamed", [field([], None, t_path("u8"))])}]}
    return {"attrs": [], "items": [it]}


WITNESSES = [
    ("scala-sub-in-line-comment", "scala", "struct", "a\x1aZ1Q"),
]
# witnesses of the repaired classes: the oracle must pass on them now; if one fails, the defect has returned
REPAIRED = [
    ("line-break-in-line-comment", "kotlin", "struct", "a\nZ1Q"),
    ("line-break-in-line-comment", "swift", "struct", "a\nZ1Q"),
    ("line-break-in-line-comment", "scala", "struct", "a\nZ1Q"),
    ("line-break-in-line-comment", "go", "struct", "a\nZ1Q"),
    ("line-break-in-line-comment", "python", "enum", "a\nZ1Q"),
    ("line-break-in-line-comment", "kotlin", "struct", "a\rZ1Q"),
    ("line-break-in-line-comment", "swift", "struct", "a\r\nZ1Q"),
    ("line-break-in-line-comment", "python", "enum", "a\rZ1Q"),
    ("ts-block-comment-terminator", "typescript", "struct", "a */ Z1Q"),
    ("ts-block-comment-terminator", "typescript", "struct", "a **/*/ Z1Q"),
    ("py-docstring-triple-quote", "python", "struct", 'a """ Z1Q'),
    ("py-docstring-triple-quote", "python", "struct", 'a \\"""" Z1Q'),
    ("py-docstring-triple-quote", "python", "struct", 'a """"" Z1Q'),
]


def replay_witnesses(check):
    g = Gen(check.rng)
    reqs = []
    for open_class, ws in ((True, WITNESSES), (False, REPAIRED)):
        for kid, lang, kind, doc in ws:
            f = witness_file(kind, doc)
            _, r, t = one_file_request(lang, f, g)
            reqs.append((open_class, kid, lang, doc, r, t[0]))
    answers = runner([r[4] for r in reqs])
    for (open_class, kid, lang, doc, r, src), a in zip(reqs, answers):
        if "ok" not in a:
            if not open_class:
                check.violation("%s: the witness %r of the repaired class %s is not generated" % (lang, doc, kid),
                                case={"source": src, "lang": lang, "request": r}, impl=a, failing_input=True)
            continue
        texts = list(a["ok"].values())
        out, seen = [], set()
        for t in texts:
            o, sn = outside(lang, t)
            out += o
            seen |= sn
        check.count("witness-" + ("open-" if open_class else "repaired-") + kid)
        if "Z1Q" in out:
            w = {"lang": lang, "doc": doc, "source": src, "output": "\n".join(texts)[:600]}
            if not (open_class and check.known(kid, w)):
                check.violation("%s: doc text %r is generated outside the comment%s" % (
                                    lang, doc, "" if open_class else " (the repaired defect %s has returned)" % kid),
                                case={"source": src, "lang": lang, "request": r}, impl=a, failing_input=True)
        elif "Z1Q" not in seen and not open_class:
            check.violation("%s: the doc text %r is not reproduced in the output" % (lang, doc),
                            case={"source": src, "lang": lang, "request": r}, impl=a, failing_input=True)


# ----------------------------------------------------------------------------- Lean twins

def lean_twins(check, n):
    """python lexers / Bad against the Lean definitions, through the driver"""
    rng = check.rng
    alphabet = ORDINARY[:4] + HARMLESS + NEWLINE + TSCLOSE + TRIPLE
    styles = ["typescript", "kotlin", "swift", "scala", "go", "pydoc", "pyhash"]
    reqs, meta = [], []
    for i in range(n):
        sty = styles[i % 7]
        docs = ["".join(rng.choice(alphabet) for _ in range(rng.randint(0, 4))) for _ in range(rng.choice([0, 1, 1, 2, 3]))]
        if i % 2:
            docs = [rust_trim(d) for d in docs]
        ind = rng.randint(0, 2)
        reqs.append([S("c15"), S(sty), ind, docs])
        meta.append((sty, ind, docs))
    for (sty, ind, docs), a in zip(meta, model(reqs)):
        check.count("lean-twin-" + sty)
        lang = "python" if sty.startswith("py") else sty
        m, closed = mask_of(lang, a["text"])
        pm = "".join("1" if b else "0" for b in m)
        pbad = [bad(sty, d) for d in docs]
        tags = a["tags"]
        pcont = closed and all(mb == "1" for mb, tg in zip(pm, tags) if tg == "1")
        pent = [e for d in docs for e in entries_of(d)]
        em, eclosed = mask_of(lang, a["entries_text"])
        # every sentinel-free character of an entry block that is not printer text: approximated by "block closed and
        # no Bad entry" on the python side, compared with Lean's `contained` of the entries
        pknown = sty == "scala" and any("\x1a" in e for e in pent)
        problem = None
        if a["text"] != a["erased"]:
            problem = "erase (renderT ..) differs from the model's renderer"
        elif pm != a["mask"]:
            problem = "python lexer and Lean lexer disagree"
        elif pbad != a["bad"]:
            problem = "python Bad and Lean Bad disagree"
        elif pcont != a["contained"] or a["contained"] != (not any(a["bad"])):
            problem = "contained / Bad mismatch (theorem C15_iff)"
        elif pent != a["entries"]:
            problem = "python entries_of and Lean Parser.docEntries disagree"
        elif pknown != a["known_scala_sub"] or any(bad(sty, e) for e in pent) != pknown:
            problem = "KnownScalaSub mismatch (theorem C15_entries_Bad)"
        elif a["entries_contained"] != (not pknown) or (not pknown and not eclosed):
            problem = "contained (entries ..) / KnownScalaSub mismatch (theorem C15_exact)"
        if problem:
            check.violation("%s on style %s, docs %r" % (problem, sty, docs), case={"style": sty, "indent": ind, "docs": docs},
                            impl={"python_mask": pm, "python_bad": pbad, "python_contained": pcont}, model=a, failing_input=False,
                            broken="tools/c15.py lexers / entries_of / Bad are not the ones of TsV/Lemmas/C15_Spec.lean (theorems TsV.C15.C15_iff, C15_exact)")
            return False
    return True


# ----------------------------------------------------------------------------- replay

def replay(check, v):
    """./check C15 --replay FILE: the stored case against the current tree"""
    case = v.get("case") or {}
    if "request" not in case:
        print("no generation request stored in this replay file")
        return 2
    lang = case["lang"]
    a = l2.norm(runner([case["request"]])[0])
    if "ok" not in a:
        print("implementation:", a)
        return 1
    out = [s for t in a["ok"].values() for s in outside(lang, t)[0]]
    print("\n".join(a["ok"].values()))
    print("sentinels outside a comment:", out)
    print("same output as stored:", a == l2.norm(v.get("implementation") or {}))
    alltext = "".join(a["ok"].values())
    lost = [d for _, d in case.get("docs") or [] if any(s not in alltext for s in SENT.findall(d))]
    if "docs" in case:
        print("doc lines of the source that are not reproduced:", lost)
        print("text of text-less doc attributes in the output:", MARK.findall(alltext))
    return 1 if out or lost or ("docs" in case and MARK.search(alltext)) else 0


# ----------------------------------------------------------------------------- doc attributes that carry no text

def textless_forms(marker):
    """[(name, attribute)]: the forms of `doc` attributes that hold no documentation text of their own (rustdoc directives,
    values that are not plain string literals).  `marker()` gives a fresh token `N<k>Q`, planted wherever such a form has a
    string of its own; none of them may ever show up in generated code"""
    return [
        ("hidden", m_list("doc", [m_path("hidden")])),
        ("inline", m_list("doc", [m_path("inline")])),
        ("no_inline", m_list("doc", [m_path("no_inline")])),
        ("alias", m_list("doc", [m_nv("alias", lit_s(marker()))])),
        ("alias-list", m_list("doc", [], parsed=False, raw='alias("%s", "%s")' % (marker(), marker()))),
        ("cfg", m_list("doc", [m_list("cfg", [m_nv("feature", lit_s(marker()))])])),
        ("two-directives", m_list("doc", [m_path("hidden"), m_nv("alias", lit_s(marker()))])),
        ("empty-list", m_list("doc", [])),
        ("bare", m_path("doc")),
        ("include_str", m_nv("doc", ("o", 'include_str!("%s.md")' % marker()))),
        ("concat", m_nv("doc", ("o", 'concat!("%s", "b")' % marker()))),
        ("env", m_nv("doc", ("o", 'env!("%s")' % marker()))),
        ("path-value", m_nv("doc", None)),
        ("number", m_nv("doc", ("i", 7, ""))),
        ("byte-string", m_nv("doc", ("o", 'b"%s"' % marker()))),
        ("bool", m_nv("doc", ("o", "true"))),
        ("cfg_attr-docsrs", m_list("cfg_attr", [m_path("docsrs"), m_list("doc", [m_list("cfg", [m_nv("feature", lit_s(marker()))])])])),
    ]


MARK = re.compile(r"N\d+Q")


def is_textless(a):
    if a[0] == "l" and a[1] == ["cfg_attr"]:
        return True
    return a[1] == ["doc"] and not (a[0] == "nv" and a[2] and a[2][0] == "s")


class TextlessDocGen(DocGen):
    """DocGen that puts 0-3 text-less doc attributes before / between / after the doc lines of a position (also on positions
    without any doc line)"""

    def __init__(self, rng, exclude, p_textless=0.5, **opts):
        super().__init__(rng, exclude, **opts)
        self.p_textless = p_textless
        self.n = 0

    def marker(self):
        self.n += 1
        return "N%dQ" % self.n

    def docs(self):
        out = super().docs()
        if self.rng.random() >= self.p_textless:
            return out
        for _ in range(self.rng.choice([1, 1, 1, 2, 3])):
            name, a = self.rng.choice(textless_forms(self.marker))
            at = self.rng.randint(0, len(out))
            where = "alone" if not out else "before" if at == 0 else "after" if at == len(out) else "between"
            out.insert(at, a)
            self.hit("textless-" + name)
            self.hit("textless-placed-" + where)
        return out


def without_textless(file):
    """the same abstract file with every text-less doc attribute removed"""
    import copy
    f = copy.deepcopy(file)

    def strip(al):
        al[:] = [a for a in al if not is_textless(a)]

    def fields(fs):
        if fs[0] != "unit":
            for x in fs[1]:
                strip(x["attrs"])

    def walk(items):
        for it in items:
            k = it["kind"]
            if k in ("mod", "other"):
                walk(it["items"])
                continue
            if k == "use":
                continue
            strip(it["attrs"])
            if k == "struct":
                fields(it["fields"])
            elif k == "enum":
                for v in it["variants"]:
                    strip(v["attrs"])
                    fields(v["fields"])
    walk(f["items"])
    return f


def textless_doc_part(check):
    """Dimension: doc attributes that carry NO text - `#[doc(hidden)]`, `#[doc(inline)]`, `#[doc(alias = "..")]`,
    `#[doc(alias(..))]`, `#[doc(cfg(..))]`, `#[doc()]`, `#[doc]`, `#[doc = include_str!(..)]`, `#[doc = concat!(..)]`,
    `#[doc = env!(..)]`, `#[doc = some::PATH]`, `#[doc = 7]`, `#[doc = b".."]`, `#[doc = true]`, `#[cfg_attr(docsrs, doc(cfg(..)))]` -
    0-3 of them before / between / after the ordinary doc lines (`///`, `/** */`, `#[doc = ".."]`, the C15 alphabet) of types,
    fields, variants, struct-variant fields and aliases, shuffled among the other attributes, also alone on positions without
    doc lines; six languages.
    Demands, on the implementation's output: (1) every sentinel of every text-carrying doc line is reproduced, as often as the
    line is written, and lies inside a comment (files with an entry of the open Scala class: reproduced only); (2) nothing of a
    text-less attribute (its alias / path / feature strings, marked `N<k>Q`) is injected into the output; (3) the output is byte
    for byte the output for the same file without the text-less attributes (they carry no text: the right comment stays on the
    right item, nothing moves).  The model is run on the same files and compared byte for byte."""
    rng = check.rng
    nfiles = 400 if check.thorough else 50
    cases = []
    for i in range(nfiles):
        exclude = {c for c in ("newline", "tsclose", "triple") if rng.random() < 0.5}
        g = TextlessDocGen(rng, exclude, p_textless=0.5, p_doc=0.85, p_skip=0.0, p_cfg=0.0, p_edge=0.0, p_const=0.0,
                           p_serialized_as=0.0, p_unsupported=0.0, p_noise=0.15, p_mod=0.15, max_depth=2, p_decorators=0.03,
                           p_type_decorators=0.03)
        f = g.file()
        if not any(k.startswith("textless-") for k in g.features):
            continue
        f0 = without_textless(f)
        docs = positions(f)
        for k, v in g.features.items():
            if k.startswith("textless-"):
                check.count(k, v)
        for pos, with_text in positions(f, lambda al: [bool(doc_texts(al))] if any(is_textless(a) for a in al) else []):
            check.count("textless-on-%s%s" % (pos, "-with-doc-lines" if with_text else "-alone"))
        for lang in LANGS:
            m, r, t = one_file_request(lang, f, g)
            _, r0, t0 = one_file_request(lang, f0, g)
            cases.append(dict(lang=lang, docs=docs, m=m, r=r, r0=r0, src=t[0], src0=t0[0], names=l2.names_of(f)))
    if not cases:
        return
    allnames = set().union(*[c["names"] for c in cases])
    mans = [l2.norm(a) for a in model([c["m"] for c in cases], names=allnames)]
    rans = [l2.norm(a) for a in runner([c["r"] for c in cases] + [c["r0"] for c in cases])]
    rans, rans0 = rans[:len(cases)], rans[len(cases):]
    first_diff = None
    for c, ma, ra, ra0 in zip(cases, mans, rans, rans0):
        lang = c["lang"]
        case = {"source": c["src"], "lang": lang, "request": c["r"], "docs": c["docs"]}
        check.saw("textless|" + lang + "|" + c["src"], nontrivial=bool(c["docs"]))
        check.count("textless-" + lang)
        if "ok" in ra:
            texts = list(ra["ok"].values())
            alltext = "".join(texts)
            j = judge(lang, c["docs"], texts)
            src_counts = {}
            for _, d in c["docs"]:
                for s_ in SENT.findall(d):
                    src_counts[s_] = src_counts.get(s_, 0) + 1
            lost = [(p, d) for p, d in c["docs"] if any(s_ not in j["seen"] for s_ in SENT.findall(d))]
            if lost:
                check.violation("%s: the doc line %r of a %s is not reproduced in the generated code (%d of the %d doc lines of the file "
                                "are missing); the file has doc attributes without text (#[doc(hidden)], #[doc(alias = ..)], "
                                "#[doc = include_str!(..)] ...) next to its doc lines"
                                % (lang, lost[0][1], lost[0][0], len(lost), len(c["docs"])), case=case, impl=ra, model=ma, failing_input=True)
                return
            few = [(s_, k, len(re.findall(r"%s(?!\d)" % re.escape(s_), alltext))) for s_, k in src_counts.items()]
            few = [x for x in few if x[2] < x[1]]
            if few and not j["bad"]:
                check.violation("%s: a doc line written %d times on one item is printed %d time(s) (sentinel %s)" % (lang, few[0][1], few[0][2], few[0][0]),
                                case=case, impl=ra, model=ma, failing_input=True)
                return
            if j["outside"] and not j["bad"]:
                check.violation("%s: doc text is generated outside a comment; sentinels %s" % (lang, j["outside"][:5]),
                                case=case, impl=ra, model=ma, failing_input=True)
                return
            inj = MARK.findall(alltext)
            if inj:
                check.violation("%s: text of a doc attribute that carries no documentation (%s) is injected into the generated code"
                                % (lang, inj[:3]), case=case, impl=ra, model=ma, failing_input=True)
                return
            check.count("textless-reproduced-" + lang)
        else:
            check.count("textless-impl-" + "/".join(sorted(ra.keys())))
        if ra != ra0 and ("ok" in ra or "ok" in ra0):
            what = None
            if "ok" in ra and "ok" in ra0:
                for k in ra["ok"]:
                    what = what or (l2.text_diff(ra0["ok"].get(k, ""), ra["ok"][k]) or "").replace("model:", "without:").replace("impl :", "with   :")
            check.violation("%s: the generated code changes when the doc attributes that carry no text are removed from the source "
                            "(without them vs with them): %s" % (lang, what or (str(ra0)[:200] + " vs " + str(ra)[:200])),
                            case=dict(case, source_without_textless=c["src0"], request_without_textless=c["r0"],
                                      output_without_textless=ra0),
                            impl=ra, model=ma, failing_input=True)
            return
        if ma != ra and first_diff is None:
            first_diff = (c, ma, ra)
    if first_diff:
        c, ma, ra = first_diff
        what = None
        if "ok" in ma and "ok" in ra:
            for k in ra["ok"]:
                what = what or l2.text_diff(ma["ok"].get(k, ""), ra["ok"][k])
        check.violation("%s generation of a file with text-less doc attributes differs from the model: %s"
                        % (c["lang"], what or (str(ma)[:200] + " vs " + str(ra)[:200])),
                        case={"source": c["src"], "lang": c["lang"], "request": c["r"]}, impl=ra, model=ma, failing_input=False,
                        broken="correspondence L2 parse_comment_attrs on doc attributes without a string literal (theorem TsV.C15.C15_parser)")


# ----------------------------------------------------------------------------- the check

def on_disk_part(check):
    """containment is a property of the file the binary leaves behind: written over a destination that still holds an earlier
    output with longer doc comments (or any longer / equally long text), no doc text of either version may end up outside a
    comment - the file must be what a run into a fresh path writes"""
    doc_long = "".join("/// Z%dQ the quick brown fox jumps over the lazy dog, again and again and again\n" % i for i in range(6))
    v1 = "#[typeshare]\n%spub struct Documented {\n    %s    pub a: u8,\n}\n" % (doc_long, doc_long.replace("///", "    ///").lstrip())
    v2 = "#[typeshare]\n/// Z0Q short\npub struct Documented {\n    pub a: u8,\n}\n"
    for lang in LANGS:
        prob = dirty_destination(check, "docs", lang, {"src/lib.rs": v2}, earlier_sources={"src/lib.rs": v1})
        if prob:
            leaked, _ = outside(lang, prob["file_after_run"] or "")
            check.violation("%s: written over a destination that holds an earlier output (%s), the file %s"
                            % (lang, prob["state"], "has doc text outside comments: %s" % leaked[:3] if leaked else "is not what a fresh run writes"),
                            case=prob, impl=prob["file_after_run"], model=prob["fresh_run"], failing_input=True)
            return


def run(check):
    rng = check.rng
    nfiles = 6000 if check.thorough else 400
    check.rule = ("random annotated files (structs, tuple structs, unit and algebraic enums with tuple and struct variants, aliases; "
                  "nested modules), a doc block (1-3 strings) on ~85% of all types, fields, variants, struct-variant fields and "
                  "aliases; every string is 0-4 pieces of the alphabet {ordinary words, //, /*, */, **/, ''', ', \", \"\", \"\"\", "
                  "\"\"\"\", \\, \\\", \\\"\"\", \\\\\"\"\", #, `, *, /, LF, CR, CRLF, U+001A, LF//, LF/*} with a unique sentinel "
                  "Z<k>Q after every dangerous piece and after half of the others, written as ///, /** */ or #[doc = \"..\"]; per "
                  "file each of the three dangerous classes is left out with probability 1/2; six languages per file; "
                  "byte-exact comparison with the model; oracle = sentinels of the implementation's text must lie inside "
                  "comment tokens, for every file none of whose comment entries (doc string split at LF / CRLF / CR, trimmed) "
                  "is in the open class (Scala, U+001A); the witnesses of the three repaired classes are replayed and must "
                  "pass the oracle; "
                  "text-less doc attributes (doc(hidden / inline / alias / cfg), doc = include_str! / concat! / env! / path / number / "
                  "byte string, bare doc, cfg_attr(docsrs, doc(..))) 0-3 per position before / between / after the doc lines: every "
                  "doc line reproduced inside a comment, nothing of the text-less attribute injected, output equal to the output "
                  "without them; "
                  "non-trivial = the file has a doc string with a dangerous or harmless-special piece")
    replay_witnesses(check)
    if not lean_twins(check, 21000 if check.thorough else 2100):
        return
    cases = []
    for i in range(nfiles):
        exclude = {c for c in ("newline", "tsclose", "triple") if rng.random() < 0.5}
        g = DocGen(rng, exclude, p_doc=0.85, p_skip=0.0, p_cfg=0.0, p_edge=0.0, p_const=0.0, p_serialized_as=0.0,
                   p_unsupported=0.0, p_noise=0.15, p_mod=0.15, max_depth=2, p_decorators=0.03, p_type_decorators=0.03)
        f = g.file()
        docs = positions(f)
        for lang in LANGS:
            m, r, t = one_file_request(lang, f, g)
            cases.append(dict(lang=lang, file=f, docs=docs, m=m, r=r, src=t[0], names=l2.names_of(f), feats=dict(g.features)))
    allnames = set().union(*[c["names"] for c in cases])
    mans = [l2.norm(a) for a in model([c["m"] for c in cases], names=allnames)]
    rans = [l2.norm(a) for a in runner([c["r"] for c in cases])]
    first_diff = None
    mask_reqs = []
    for c, ma, ra in zip(cases, mans, rans):
        lang = c["lang"]
        special = any(SENT.sub("", d).strip(" ") not in ("", "second", "x", "A doc line") for _, d in c["docs"])
        check.saw(lang + "|" + c["src"], nontrivial=special)
        check.count(lang)
        tolerated = False
        if "ok" not in ra:
            check.count("impl-" + "/".join(sorted(ra.keys())))
            if ma != ra and first_diff is None:
                first_diff = (c, ma, ra)
            continue
        texts = list(ra["ok"].values())
        j = judge(lang, c["docs"], texts)
        if lang == LANGS[0]:
            for p, d in c["docs"]:
                check.count("pos-" + p)
            for k, v in c["feats"].items():
                if k.startswith("doc-"):
                    check.count(k, v)
        for sty, d in j["bad"]:
            check.count("bad-%s" % sty)
        if not j["bad"]:
            check.count("clean-" + lang)
            if j["outside"]:
                check.violation("%s: doc text is generated outside a comment although no comment entry is in the open known class; "
                                "sentinels %s" % (lang, j["outside"][:5]),
                                case={"source": c["src"], "lang": lang, "request": c["r"], "docs": c["docs"]}, impl=ra, model=ma,
                                failing_input=True)
                return
        else:
            check.count("dirty-" + lang)
            if j["outside"]:
                for sty, d in j["bad"]:
                    w = {"lang": lang, "doc": d, "sentinels_outside": j["outside"][:5]}
                    if not (sty in CLASS and check.known(CLASS[sty], w)):
                        check.violation("%s: doc string %r breaks out of its comment (class %s is not an open known finding)"
                                        % (lang, d, CLASS.get(sty, "of style %s: none, C15_all_but_scala" % sty)),
                                        case={"source": c["src"], "lang": lang, "request": c["r"]}, impl=ra, model=ma, failing_input=True)
                        return
            if j["escapes_inside"] and ma == ra:
                check.violation("%s: the only Bad doc string %r does not break out according to the python lexer, although "
                                "C15_renderer_converse says it does" % (lang, j["bad"][0][1]),
                                case={"source": c["src"], "lang": lang}, impl=ra, model=ma, failing_input=False,
                                broken="oracle lexer vs theorem TsV.C15.C15_renderer_converse")
                return
            if ma != ra and not j["outside"]:
                # inside a known class the implementation differs from the model and keeps all doc text in comments: tolerated
                tolerated = True
                if len(check.notes) < 5:
                    check.notes.append("%s: Bad doc strings stay inside the comment in the implementation's output "
                                       "(repaired upstream?): %r" % (lang, [d for _, d in j["bad"]][:2]))
        if ma != ra and first_diff is None and not tolerated:
            first_diff = (c, ma, ra)
        # docs are reproduced: the sentinels of every doc string occur in the output
        missing = [s for _, d in c["docs"] for s in SENT.findall(d) if s not in j["seen"]]
        if missing:
            check.count("docs-not-reproduced-" + lang)
            if ma == ra:
                check.extra.setdefault("docs_not_reproduced", {}).setdefault(lang, 0)
                check.extra["docs_not_reproduced"][lang] += 1
        # a doc line written twice in a row is printed twice wherever it is printed at all
        if not j["bad"]:
            alltext = "".join(texts)
            src_counts = {}
            for _, d in c["docs"]:
                for s_ in SENT.findall(d):
                    src_counts[s_] = src_counts.get(s_, 0) + 1
            for s_, k in src_counts.items():
                n_out = len(re.findall(r"%s(?!\d)" % re.escape(s_), alltext))
                if k >= 2 and 1 <= n_out < k:
                    check.violation("%s: a doc line that occurs %d times in a row in the source is printed %d time(s) (sentinel %s)"
                                    % (lang, k, n_out, s_), case={"source": c["src"], "lang": lang, "request": c["r"]}, impl=ra, model=ma,
                                    failing_input=True)
                    return
        if len(mask_reqs) < (1200 if check.thorough else 240) and texts and rng.random() < 0.3:
            sty = "pydoc" if lang == "python" else lang
            mask_reqs.append((lang, texts[0], [S("c15-mask"), S(sty), texts[0]]))
        if len(check.samples) < 4 and j["bad"] and j["outside"]:
            check.sample({"lang": lang, "bad_docs": [d for _, d in j["bad"]][:2], "sentinels_outside": j["outside"][:4]})
        elif len(check.samples) < 6 and not j["bad"] and special and len(c["docs"]) > 3:
            check.sample({"lang": lang, "clean_docs": [d for _, d in c["docs"]][:4], "sentinels_outside": []})
    # the Lean lexer on whole generated files
    for (lang, text, _), a in zip(mask_reqs, model([m[2] for m in mask_reqs])):
        pm = "".join("1" if b else "0" for b in mask_of(lang, text)[0])
        check.count("lean-mask-file-" + lang)
        if pm != a.get("mask"):
            check.violation("python lexer and Lean lexer disagree on a generated %s file" % lang, case={"lang": lang, "text": text},
                            impl={"python_mask": pm}, model=a, failing_input=False,
                            broken="tools/c15.py lexers are not the ones of TsV/Lemmas/C15_Spec.lean")
            return
    if first_diff:
        c, ma, ra = first_diff
        what = None
        if "ok" in ma and "ok" in ra:
            for k in ra["ok"]:
                what = what or l2.text_diff(ma["ok"].get(k, ""), ra["ok"][k])
        check.violation("%s generation differs from the model (no doc text outside a comment was found on the implementation's "
                        "output of clean cases): %s" % (c["lang"], what or (str(ma)[:200] + " vs " + str(ra)[:200])),
                        case={"source": c["src"], "lang": c["lang"], "request": c["r"]}, impl=ra, model=ma, failing_input=False,
                        broken="correspondence L2 generate_types incl. parse_comment_attrs / write_comments (theorems TsV.C15.C15_exact, "
                               "C15_partial, C15_all_but_scala, C15_parser, C15_render)")
    if not check.has_failing():
        textless_doc_part(check)
    if not check.has_failing():
        on_disk_part(check)
    check.assumptions += [
        "the comment lexers are the comment syntax only (no string / template / raw-string literals for the // family): exact on "
        "comment blocks, whose code parts are white space; on whole files they are used to locate sentinels, which occur only in "
        "doc text",
        "Scala: Java-style \\uXXXX pre-processing of comments (Scala < 2.13.2) is not modelled",
        "each comment block is lexed from the `code` state (C15_transparent: a contained block returns the lexer to `code`); "
        "cascades from a Bad block into later text are attributed to the known class of that block"]
