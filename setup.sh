#!/bin/sh
# Build the whole framework from files on disk only (offline).
set -e
cd "$(dirname "$0")"
export CARGO_NET_OFFLINE=true
mkdir -p build evidence
(cd lean && lake build TsV tsmodel)
cp /repo/Cargo.lock harness/runner/Cargo.lock
(cd harness/runner && cargo build --offline --target-dir ../../build/target-runner)
cargo build --offline --manifest-path /repo/Cargo.toml -p typeshare-cli --features go,python,verif-hooks --target-dir build/target-cli
echo setup-ok
