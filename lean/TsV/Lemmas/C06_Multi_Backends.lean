import TsV.Lemmas.C06_Multi_Jobs
/-!
# The six back ends read a job only through `jobView`

Every `generateAll` looks at the four item lists (through `Pipeline.generateOrder` or directly), at
`crateName` / `multiFile` (Kotlin's package line) and at the scoped imports; never at the hash sets
`importTypes` / `typeNames`, the recorded errors or the file name.  So two job lists with the same `jobView`s
produce the same output.
-/
namespace TsV.C06M
open TsV TsV.Pipeline

/-- forget what no back end reads -/
def normD (d : ParsedData) : ParsedData :=
  { structs := d.structs, enums := d.enums, aliases := d.aliases, consts := d.consts,
    crateName := d.crateName, fileName := d.fileName, multiFile := d.multiFile }

def normJob (j : Job) : Job := (j.1, normD j.2.1, j.2.2)

/-- rebuild a (normalised) job from its view -/
def unview (v : Str × List RustStruct × List RustEnum × List RustTypeAlias × List RustConst ×
    Str × Str × Bool × Option ScopedCrateTypes) : Job :=
  (v.1, { structs := v.2.1, enums := v.2.2.1, aliases := v.2.2.2.1, consts := v.2.2.2.2.1,
          crateName := v.2.2.2.2.2.1, fileName := v.2.2.2.2.2.2.1, multiFile := v.2.2.2.2.2.2.2.1 },
   v.2.2.2.2.2.2.2.2)

theorem normJob_eq (j : Job) : normJob j = unview (jobView j) := rfl

theorem map_normJob_congr {jobs jobs' : List Job} (h : jobs.map jobView = jobs'.map jobView) :
    jobs.map normJob = jobs'.map normJob := by
  have : normJob = unview ∘ jobView := funext normJob_eq
  rw [this, ← List.map_map, ← List.map_map, h]

theorem ts_norm (U : UnicodeOps) (cfg : Lang.TypeScript.Cfg) : ∀ (jobs : List Job) (st : Lang.TypeScript.CustomMap),
    Lang.TypeScript.generateFrom U cfg (jobs.map normJob) st = Lang.TypeScript.generateFrom U cfg jobs st
  | [], _ => rfl
  | (c, d, i) :: rest, st => by
    simp only [List.map_cons, normJob, Lang.TypeScript.generateFrom]
    have : Lang.TypeScript.generate U cfg (normD d) i st = Lang.TypeScript.generate U cfg d i st := rfl
    rw [this]
    congr 1; funext x
    rw [ts_norm U cfg rest]

theorem kt_norm (cfg : Lang.Kotlin.Cfg) : ∀ (jobs : List Job),
    Lang.Kotlin.generateFrom cfg (jobs.map normJob) = Lang.Kotlin.generateFrom cfg jobs
  | [] => rfl
  | (c, d, i) :: rest => by
    simp only [List.map_cons, normJob, Lang.Kotlin.generateFrom]
    have : Lang.Kotlin.generate cfg (normD d) i = Lang.Kotlin.generate cfg d i := rfl
    rw [this, kt_norm cfg rest]

theorem sw_norm (U : UnicodeOps) (cfg : Lang.Swift.Cfg) (mf : Bool) : ∀ (jobs : List Job) (st : Lang.Swift.St),
    Lang.Swift.generateFrom U cfg mf (jobs.map normJob) st = Lang.Swift.generateFrom U cfg mf jobs st
  | [], _ => rfl
  | (c, d, i) :: rest, st => by
    simp only [List.map_cons, normJob, Lang.Swift.generateFrom]
    have : Lang.Swift.generate U cfg mf (normD d) st = Lang.Swift.generate U cfg mf d st := rfl
    rw [this]
    congr 1; funext x
    rw [sw_norm U cfg mf rest]

theorem sc_norm (cfg : Lang.Scala.Cfg) : ∀ (jobs : List Job),
    Lang.Scala.generateFrom cfg (jobs.map normJob) = Lang.Scala.generateFrom cfg jobs
  | [] => rfl
  | (c, d, i) :: rest => by
    simp only [List.map_cons, normJob, Lang.Scala.generateFrom]
    have : Lang.Scala.generate cfg (normD d) = Lang.Scala.generate cfg d := rfl
    rw [this, sc_norm cfg rest]

theorem go_norm (U : UnicodeOps) (cfg : Lang.Go.Cfg) : ∀ (jobs : List Job) (st : Lang.Go.Imports),
    Lang.Go.generateFrom U cfg (jobs.map normJob) st = Lang.Go.generateFrom U cfg jobs st
  | [], _ => rfl
  | (c, d, i) :: rest, st => by
    simp only [List.map_cons, normJob, Lang.Go.generateFrom]
    have : Lang.Go.generate U cfg (normD d) st = Lang.Go.generate U cfg d st := rfl
    rw [this]
    congr 1; funext x
    rw [go_norm U cfg rest]

theorem py_norm (E : Ext) (cfg : Lang.Python.Cfg) : ∀ (jobs : List Job) (st : Lang.Python.St),
    Lang.Python.generateFrom E cfg (jobs.map normJob) st = Lang.Python.generateFrom E cfg jobs st
  | [], _ => rfl
  | (c, d, i) :: rest, st => by
    simp only [List.map_cons, normJob, Lang.Python.generateFrom]
    have : Lang.Python.generate E cfg (normD d) st = Lang.Python.generate E cfg d st := rfl
    rw [this]
    congr 1; funext x
    rw [py_norm E cfg rest]

/-- the back-end call of `Generate.run` -/
def genAll (E : Ext) (lang : Generate.LangCfg) (mf : Bool) (jobs : List Job) : Outcome (List (Str × Str)) :=
  match lang with
  | .typescript cfg => Lang.TypeScript.generateAll E cfg mf jobs
  | .kotlin cfg => Lang.Kotlin.generateAll E cfg mf jobs
  | .swift cfg => Lang.Swift.generateAll E cfg mf jobs
  | .scala cfg => Lang.Scala.generateAll E cfg mf jobs
  | .go cfg => Lang.Go.generateAll E cfg mf jobs
  | .python cfg => Lang.Python.generateAll E cfg mf jobs

theorem genAll_norm (E : Ext) (lang : Generate.LangCfg) (mf : Bool) (jobs : List Job) :
    genAll E lang mf (jobs.map normJob) = genAll E lang mf jobs := by
  cases lang with
  | typescript cfg => simp only [genAll, Lang.TypeScript.generateAll, ts_norm]
  | kotlin cfg => simp only [genAll, Lang.Kotlin.generateAll, kt_norm]
  | swift cfg => simp only [genAll, Lang.Swift.generateAll, sw_norm]
  | scala cfg => simp only [genAll, Lang.Scala.generateAll, sc_norm]
  | go cfg => simp only [genAll, Lang.Go.generateAll, go_norm]
  | python cfg => simp only [genAll, Lang.Python.generateAll, py_norm]

/-- **every back end is a function of the job views** -/
theorem genAll_congr (E : Ext) (lang : Generate.LangCfg) (mf : Bool) {jobs jobs' : List Job}
    (h : jobs.map jobView = jobs'.map jobView) : genAll E lang mf jobs = genAll E lang mf jobs' := by
  rw [← genAll_norm E lang mf jobs, ← genAll_norm E lang mf jobs', map_normJob_congr h]

end TsV.C06M
