import TsV.Model.Syn
import TsV.Model.Outcome
/-!
# Model of `core/src/rust_types.rs`: `RustType`, `TryFrom<&syn::Type>`, `Display`, queries
-/
namespace TsV
open TsV.Syn

/-- the leaf `SpecialRustType`s -/
inductive Prim where
  | dateTime | unit | string | char | i8 | i16 | i32 | i64 | u8 | u16 | u32 | u64 | isize | usize
  | bool | f32 | f64 | i54 | u53
deriving DecidableEq, Repr, Inhabited

/-- `RustType` with `SpecialRustType` flattened in -/
inductive RustType where
  | simple (id : Str)
  | generic (id : Str) (params : List RustType)
  | vec (t : RustType)
  | array (t : RustType) (n : Nat)
  | slice (t : RustType)
  | hashMap (k v : RustType)
  | option (t : RustType)
  | prim (p : Prim)
deriving Repr, Inhabited

namespace Prim
/-- `SpecialRustType::id` for leaves -/
def id : Prim → Str
  | unit => s%"()" | f64 => s%"f64" | f32 => s%"f32" | dateTime => s%"OffsetDateTime"
  | string => s%"String" | char => s%"char" | bool => s%"bool" | i8 => s%"i8" | i16 => s%"i16"
  | i32 => s%"i32" | i64 => s%"i64" | u8 => s%"u8" | u16 => s%"u16" | u32 => s%"u32"
  | u64 => s%"u64" | isize => s%"isize" | usize => s%"usize" | u53 => s%"U53" | i54 => s%"I54"
end Prim

namespace RustType

/-- `RustType::id` -/
def id : RustType → Str
  | simple i => i
  | generic i _ => i
  | vec _ => s%"Vec"
  | array _ _ => s%"[]"
  | slice _ => s%"&[]"
  | hashMap _ _ => s%"HashMap"
  | option _ => s%"Option"
  | prim p => p.id

def isOptional : RustType → Bool
  | option _ => true
  | _ => false

def isDoubleOptional : RustType → Bool
  | option (option _) => true
  | _ => false

def isVec : RustType → Bool
  | vec _ => true
  | _ => false

def isHashMap : RustType → Bool
  | hashMap _ _ => true
  | _ => false

mutual
  /-- `impl Display for RustType` / `SpecialRustType` (the string type mappings are looked up by) -/
  def display : RustType → Str
    | simple i => i
    | generic i ps => if ps.isEmpty then i else i ++ s%"<" ++ displayList ps ++ s%">"
    | vec t => s%"Vec<" ++ display t ++ s%">"
    | array t _ => s%"[" ++ display t ++ s%"]"
    | slice t => s%"&[" ++ display t ++ s%"]"
    | hashMap k v => s%"HashMap<" ++ display k ++ s%"," ++ display v ++ s%">"
    | option t => s%"Option<" ++ t.id ++ s%">"
    | prim p => p.id
  /-- `.join(", ")` -/
  def displayList : List RustType → Str
    | [] => []
    | [t] => display t
    | t :: ts => display t ++ s%", " ++ displayList ts
end

mutual
  /-- `RustType::contains_type` -/
  def containsType (ty : Str) : RustType → Bool
    | simple i => i == ty
    | generic i ps => i == ty || containsTypeList ty ps
    | vec t | array t _ | slice t | option t => containsType ty t
    | hashMap k v => containsType ty k || containsType ty v
    | prim p => ty == p.id
  def containsTypeList (ty : Str) : List RustType → Bool
    | [] => false
    | t :: ts => containsType ty t || containsTypeList ty ts
end

/-- `RustType::parameters` -/
def parameters : RustType → List RustType
  | generic _ ps => ps
  | vec t | array t _ | slice t | option t => [t]
  | hashMap k v => [k, v]
  | _ => []

mutual
  /-- all ids of a type and its nested parameters (the multiset `RustRefTypeIter` yields) -/
  def allIds : RustType → List Str
    | simple i => [i]
    | generic i ps => i :: allIdsList ps
    | vec t => s%"Vec" :: allIds t
    | array t _ => s%"[]" :: allIds t
    | slice t => s%"&[]" :: allIds t
    | option t => s%"Option" :: allIds t
    | hashMap k v => s%"HashMap" :: (allIds k ++ allIds v)
    | prim p => [p.id]
  def allIdsList : List RustType → List Str
    | [] => []
    | t :: ts => allIds t ++ allIdsList ts
end

end RustType

namespace RustTypes
open RustType

def usizeMax : Nat := 18446744073709551615

def smartPointers : List Str :=
  [s%"Box", s%"Weak", s%"Arc", s%"Rc", s%"Cow", s%"ArcWeak", s%"RcWeak", s%"Cell", s%"Mutex",
   s%"RefCell", s%"RwLock"]

def unsupported64 : List Str := [s%"u64", s%"i64", s%"usize", s%"isize"]

/-- the primitive arms of the `match id.as_str()` -/
def primTable : List (Str × Prim) :=
  [(s%"OffsetDateTime", .dateTime), (s%"str", .string), (s%"String", .string), (s%"bool", .bool),
   (s%"char", .char), (s%"u8", .u8), (s%"u16", .u16), (s%"u32", .u32), (s%"U53", .u53),
   (s%"i8", .i8), (s%"i16", .i16), (s%"i32", .i32), (s%"I54", .i54), (s%"f32", .f32), (s%"f64", .f64)]

/-- the `match id.as_str()` of `try_from` once the parameters have been converted (the arms are
mutually exclusive, so their order is immaterial).  A container without (enough) type arguments is
an `UnsupportedType` error since the `fix:` commit fbbf3f3 (before: `next().unwrap()` panics). -/
def fromPath (id : Str) (params : List RustType) : Outcome RustType :=
  if id = s%"Vec" then
    match params with
    | p :: _ => .ok (.vec p)
    | [] => .err .unsupportedType
  else if id = s%"Option" then
    match params with
    | p :: _ => .ok (.option p)
    | [] => .err .unsupportedType
  else if id = s%"HashMap" then
    match params with
    | k :: v :: _ => .ok (.hashMap k v)
    | _ => .err .unsupportedType
  else if smartPointers.contains id then
    match params with
    | p :: _ => .ok p
    | [] => .err .unsupportedType
  else if unsupported64.contains id then .err .unsupportedType
  else
    match primTable.lookup id with
    | some p => .ok (.prim p)
    | none => if params.isEmpty then .ok (.simple id) else .ok (.generic id params)

mutual
  /-- `impl TryFrom<&syn::Type> for RustType` -/
  def tryFrom : SynType → Outcome RustType
    | .tuple [] => .ok (.prim .unit)
    | .tuple (_ :: _) => .err .unexpectedParameterizedTuple
    | .reference e => tryFrom e
    | .path _ last args =>
      match tryFromList args with
      | .ok params => fromPath last params
      | .err e => .err e
      | .panic s => .panic s
    | .array e len =>
      match tryFrom e with
      | .ok t =>
        (match len with
        | some n => if n ≤ usizeMax then .ok (.array t n) else .err .numericLiteral
        | none => .err .unexpectedToken)
      | .err er => (match len with | some _ => .err er | none => .err .unexpectedToken)
      | .panic s => (match len with | some _ => .panic s | none => .err .unexpectedToken)
    | .slice e =>
      match tryFrom e with
      | .ok t => .ok (.slice t)
      | .err er => .err er
      | .panic s => .panic s
    | .other => .err .unexpectedToken
  /-- `.filter_map(type args).map(try_from).collect::<Result<Vec<_>,_>>()` -/
  def tryFromList : List SynType → Outcome (List RustType)
    | [] => .ok []
    | a :: as =>
      match tryFrom a with
      | .ok t =>
        (match tryFromList as with
        | .ok ts => .ok (t :: ts)
        | .err e => .err e
        | .panic s => .panic s)
      | .err e => .err e
      | .panic s => .panic s
end

/-- `impl FromStr for RustType` given the external `syn::parse_str::<syn::Type>` -/
def fromStr (parseType : Str → Option SynType) (s : Str) : Outcome RustType :=
  match parseType s with
  | none => .err .unsupportedType
  | some t => tryFrom t

end RustTypes
end TsV
