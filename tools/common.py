"""Shared machinery of the checks: builds, the two executables, audit, verdicts, evidence."""
import fcntl, hashlib, json, os, random, re, subprocess, sys, time, shutil

VERIF = os.path.dirname(os.path.dirname(os.path.abspath(__file__)))
REPO = os.environ.get("VERIF_REPO", "/repo")
LEAN = os.path.join(VERIF, "lean")
BUILD = os.path.join(VERIF, "build")
RUNNER_DIR = os.path.join(VERIF, "harness", "runner")
# a scratch copy of the repository (VERIF_REPO) gets its own cargo target directories: two packages
# with the same name but different source paths must never share (and overwrite) one output binary
_SUFFIX = "" if REPO == "/repo" else "-" + hashlib.sha1(REPO.encode()).hexdigest()[:8]
TARGET_RUNNER = os.path.join(BUILD, "target-runner" + _SUFFIX)
TARGET_CLI = os.path.join(BUILD, "target-cli" + _SUFFIX)
RUNNER_BIN = os.path.join(TARGET_RUNNER, "debug", "runner")
CLI_BIN = os.path.join(TARGET_CLI, "debug", "typeshare")
MODEL_BIN = os.path.join(LEAN, ".lake", "build", "bin", "tsmodel")
ALLOWED_AXIOMS = {"propext", "Classical.choice", "Quot.sound"}
FORBIDDEN = re.compile(r"\bsorry\b|\badmit\b|^axiom\s|native_decide|bv_decide|implemented_by|\bunsafe\s|maxHeartbeats\s+0", re.M)

ENV = dict(os.environ, CARGO_NET_OFFLINE="true", GOPROXY="off", PIP_NO_INDEX="1")


class InfraError(Exception):
    pass


def _locked(name):
    os.makedirs(BUILD, exist_ok=True)
    f = open(os.path.join(BUILD, name + ".lock"), "w")
    fcntl.flock(f, fcntl.LOCK_EX)
    return f


def sh(cmd, cwd=None, timeout=3600, input=None):
    p = subprocess.run(cmd, cwd=cwd, env=ENV, stdout=subprocess.PIPE, stderr=subprocess.STDOUT,
                       text=True, timeout=timeout, input=input)
    return p.returncode, p.stdout


# ----------------------------------------------------------------------------- builds

def build_lean(targets):
    """lake build of the given targets; returns (ok, output)."""
    lock = _locked("lake")
    try:
        rc, out = sh(["lake", "build"] + list(targets), cwd=LEAN)
        return rc == 0, out
    finally:
        lock.close()


def build_runner():
    lock = _locked("cargo-runner" + _SUFFIX)
    try:
        # /repo: the harness crate is built where it is (its path dependencies point at /repo).  A scratch copy of the
        # repository (VERIF_REPO) gets its own copy of the harness crate with rewritten path dependencies, so that a
        # concurrent run against /repo is never disturbed.
        crate = RUNNER_DIR
        if _SUFFIX:
            crate = os.path.join(BUILD, "runner-src" + _SUFFIX)
            os.makedirs(os.path.join(crate, "src"), exist_ok=True)
            for fn in os.listdir(os.path.join(RUNNER_DIR, "src")):
                a, b = os.path.join(RUNNER_DIR, "src", fn), os.path.join(crate, "src", fn)
                if not os.path.exists(b) or open(a).read() != open(b).read():
                    shutil.copyfile(a, b)
            text = open(os.path.join(RUNNER_DIR, "Cargo.toml")).read()
            new = re.sub(r'path = "[^"]*/core"', 'path = "%s/core"' % REPO, text)
            new = re.sub(r'path = "[^"]*/lib"', 'path = "%s/lib"' % REPO, new)
            ct = os.path.join(crate, "Cargo.toml")
            if not os.path.exists(ct) or open(ct).read() != new:
                open(ct, "w").write(new)
        src, dst = os.path.join(REPO, "Cargo.lock"), os.path.join(crate, "Cargo.lock")
        if not os.path.exists(dst) or open(src).read() != open(dst).read():
            shutil.copyfile(src, dst)
        rc, out = sh(["cargo", "build", "--offline", "--target-dir", TARGET_RUNNER], cwd=crate)
        if rc != 0:
            raise InfraError("runner (and /repo core/lib with verif-hooks) does not compile:\n" + out[-4000:])
    finally:
        lock.close()


def build_cli():
    lock = _locked("cargo-cli" + _SUFFIX)
    try:
        rc, out = sh(["cargo", "build", "--offline", "--manifest-path", os.path.join(REPO, "Cargo.toml"),
                      "-p", "typeshare-cli", "--features", "go,python,verif-hooks",
                      "--target-dir", TARGET_CLI], cwd=REPO)
        if rc != 0:
            raise InfraError("typeshare-cli does not compile with verif-hooks:\n" + out[-4000:])
    finally:
        lock.close()


# ----------------------------------------------------------------------------- s-expressions

def sx(v):
    """python value -> s-expression text. str -> string literal; Sym -> atom; bool/int -> atom;
    list/tuple -> list; None -> atom none."""
    if isinstance(v, Sym):
        return v.name
    if v is None:
        return "none"
    if v is True:
        return "true"
    if v is False:
        return "false"
    if isinstance(v, int):
        return str(v)
    if isinstance(v, str):
        out = ['"']
        for ch in v:
            if ch == '"':
                out.append('\\"')
            elif ch == "\\":
                out.append("\\\\")
            elif ch == "\n":
                out.append("\\n")
            elif ch == "\r":
                out.append("\\r")
            elif ch == "\t":
                out.append("\\t")
            elif ord(ch) < 32 or ord(ch) > 126:
                out.append("\\u{%x}" % ord(ch))
            else:
                out.append(ch)
        out.append('"')
        return "".join(out)
    if isinstance(v, (list, tuple)):
        return "(" + " ".join(sx(x) for x in v) + ")"
    raise TypeError(v)


class Sym:
    __slots__ = ("name",)

    def __init__(self, name):
        self.name = name

    def __repr__(self):
        return self.name

    def __eq__(self, o):
        return isinstance(o, Sym) and o.name == self.name

    def __hash__(self):
        return hash(self.name)


def S(name):
    return Sym(name)


# ----------------------------------------------------------------------------- executables

def run_lines(binary, lines, timeout=3600, chunk=200000, prefix=()):
    """Feed request lines to a line-protocol executable; returns the parsed JSON answers.
    `prefix` lines (session state such as the Unicode table) are sent first in every chunk."""
    out = []
    prefix = list(prefix)
    for i in range(0, max(len(lines), 1), chunk):
        part = prefix + lines[i:i + chunk]
        p = subprocess.run([binary], input="\n".join(part) + "\n", stdout=subprocess.PIPE,
                           stderr=subprocess.PIPE, text=True, timeout=timeout, env=ENV)
        if p.returncode != 0:
            raise InfraError("%s exited with %s: %s" % (binary, p.returncode, p.stderr[-2000:]))
        got = [json.loads(l) for l in p.stdout.splitlines() if l.strip()]
        if len(got) != len(part):
            raise InfraError("%s answered %d of %d requests" % (binary, len(got), len(part)))
        out.extend(got[len(prefix):])
    return out


def _nonascii(v, acc):
    if isinstance(v, str):
        for ch in v:
            if ord(ch) > 127:
                acc.add(ch)
    elif isinstance(v, (list, tuple)):
        for x in v:
            _nonascii(x, acc)


def unicode_table(chars):
    """Unicode facts for the given non-ASCII characters, computed by Rust std (char::is_uppercase,
    is_lowercase, str::to_lowercase / to_uppercase of the one-char string, is_whitespace)."""
    if not chars:
        return []
    return run_lines(RUNNER_BIN, [json.dumps({"op": "unicode", "chars": "".join(sorted(chars))})])[0]["ok"]


_RUST_LOWER = {}


def rust_is_lowercase(ch):
    """`char::is_lowercase` as Rust std answers it (ASCII directly, every other character through the runner's `unicode` op,
    remembered) - not Python's `str.islower`, whose Unicode version may differ from std's"""
    if ord(ch) < 128:
        return "a" <= ch <= "z"
    if ch not in _RUST_LOWER:
        _RUST_LOWER.update({r[0]: bool(r[2]) for r in unicode_table({ch})})
    return _RUST_LOWER.get(ch, False)


def rust_all_uppercase(s, facts=None):
    """typeshare's `is_all_uppercase` (rename.rs, since the fix "a name with non-ASCII lowercase letters is not all uppercase"):
    the name has no lowercase letter of any script.  `facts`: rows of `unicode_table` by character, when the caller has them"""
    if facts is not None:
        return not any(("a" <= ch <= "z") if ord(ch) < 128 else bool(facts[ch][2]) for ch in s)
    for row in unicode_table({ch for ch in s if ord(ch) > 127 and ch not in _RUST_LOWER}):
        _RUST_LOWER[row[0]] = bool(row[2])
    return not any(rust_is_lowercase(ch) for ch in s)


def snake_table(names):
    """`convert_case` snake-casing (external to typeshare) of `names` and of everything rename_all can
    make of them, computed by the real crates through the runner"""
    names = sorted(set(names))
    if not names:
        return []
    rules = ["lowercase", "UPPERCASE", "PascalCase", "camelCase", "snake_case", "SCREAMING_SNAKE_CASE", "kebab-case",
             "SCREAMING-KEBAB-CASE"]
    ans = run_lines(RUNNER_BIN, [json.dumps({"op": "rename", "rule": r, "s": n}) for n in names for r in rules])
    cands = set(names) | {a["ok"] for a in ans if "ok" in a}
    rows = run_lines(RUNNER_BIN, [json.dumps({"op": "snake", "strings": sorted(cands)})])[0]["ok"]
    return [[a, b] for a, b in rows if a != b]


def model(requests, with_unicode=True, names=None):
    """requests: list of python s-expression values; returns JSON answers of the Lean model.
    The model's Unicode parameter is instantiated with a table for exactly the non-ASCII characters
    that occur in the requests; `names` (identifiers / rename strings of the cases) feed the
    convert_case table the Python back-end model needs."""
    lines = [sx(r) for r in requests]
    prefix = []
    if names:
        rows = snake_table(names)
        prefix.append(sx([S("snake-table"), rows]))
        requests = list(requests) + [rows]
    if with_unicode:
        acc = set()
        _nonascii(requests, acc)
        rows = [[r[0], r[1], r[2], r[3], r[4], r[5]] for r in unicode_table(acc)]
        prefix.insert(0, sx([S("unicode"), rows]))
    return run_lines(MODEL_BIN, lines, prefix=prefix)


def runner(requests):
    """answers of the Rust runner; a request that kills the process (stack overflow, abort: no unwinding, so `catch_unwind` in
    the runner cannot see it) is answered {"panic": "process killed by signal N …", "crash": true}, one that is not answered within
    the time limit (an endless loop) {"panic": "no answer within N s …", "hang": true}; the remaining requests go to a fresh process"""
    lines = [json.dumps(r, ensure_ascii=False) for r in requests]
    out = []
    hangs = 0
    while True:
        rest = lines[len(out):]
        limit = int(60 + 0.001 * len(rest))      # a batch of 100 000 requests takes about ten seconds
        timed_out = False
        try:
            p = subprocess.run([RUNNER_BIN], input="\n".join(rest) + "\n", stdout=subprocess.PIPE, stderr=subprocess.PIPE,
                               text=True, timeout=limit, env=ENV)
            stdout, stderr, rc = p.stdout, p.stderr, p.returncode
        except subprocess.TimeoutExpired as e:
            timed_out = True
            stdout = e.stdout.decode("utf-8", "replace") if isinstance(e.stdout, bytes) else (e.stdout or "")
            stderr, rc = "", None
        got = [json.loads(l) for l in stdout.splitlines() if l.strip().startswith("{") and l.rstrip().endswith("}")]
        if timed_out:
            got = got[:len(rest) - 1]
            out += got + [{"panic": "no answer within %d s (process killed)" % limit, "hang": True}]
            hangs += 1
            if hangs >= 2:
                # do not wait a minute for every further request of this kind: the rest of the batch is not run
                out += [{"skipped": "two earlier requests of this batch did not terminate"}] * (len(lines) - len(out))
            if len(out) == len(lines):
                return out
            continue
        if rc == 0:
            if len(got) != len(rest):
                raise InfraError("%s answered %d of %d requests" % (RUNNER_BIN, len(got), len(rest)))
            return out + got
        if rc > 0 or len(got) >= len(rest):
            raise InfraError("%s exited with %s: %s" % (RUNNER_BIN, rc, stderr[-2000:]))
        # killed by a signal while answering request number len(got)
        out += got + [{"panic": "process killed by signal %d (no unwinding)" % -rc, "crash": True, "stderr": stderr[-400:]}]
        if len(out) == len(lines):
            return out


def norm_int_answer(a):
    """runner prints big ints as strings; the model prints JSON numbers"""
    if isinstance(a, dict) and "ok" in a and isinstance(a["ok"], str) and re.fullmatch(r"-?\d+", a["ok"]):
        return {"ok": int(a["ok"])}
    return a


# ----------------------------------------------------------------------------- proof audit

def lean_sources():
    res = []
    for root, _, files in os.walk(os.path.join(LEAN, "TsV")):
        for f in files:
            if f.endswith(".lean"):
                res.append(os.path.join(root, f))
    res.append(os.path.join(LEAN, "Main.lean"))
    return sorted(res)


def strip_comments(text):
    # nested block comments /- … -/ and line comments
    out, i, depth = [], 0, 0
    while i < len(text):
        if text.startswith("/-", i):
            depth += 1
            i += 2
        elif depth and text.startswith("-/", i):
            depth -= 1
            i += 2
        elif depth:
            i += 1
        elif text.startswith("--", i):
            while i < len(text) and text[i] != "\n":
                i += 1
        else:
            out.append(text[i])
            i += 1
    return "".join(out)


def prop_modules(prop):
    """the property's statement modules: TsV/Props/<prop>.lean and TsV/Props/<prop>_*.lean"""
    d = os.path.join(LEAN, "TsV", "Props")
    return sorted(fn[:-5] for fn in os.listdir(d) if re.fullmatch(re.escape(prop) + r"(_\w+)?\.lean", fn))


def theorems_of(prop):
    """(theorem names, number of `example`s) declared in the property's statement modules"""
    names, examples = [], 0
    for base in prop_modules(prop):
        text = strip_comments(open(os.path.join(LEAN, "TsV", "Props", base + ".lean")).read())
        ns = re.search(r"^namespace\s+(\S+)", text, re.M).group(1)
        names += [ns + "." + m for m in re.findall(r"^\s*theorem\s+([^\s:({\[]+)", text, re.M)]
        examples += len(re.findall(r"^\s*example\b", text, re.M))
    return names, examples


def audit(prop, thorough=False):
    """Build the property module, check axioms of every theorem in it, grep for escapes.
    Returns dict(obligations, discharged, theorems={name: axioms}, problems=[...])."""
    problems = []
    t0 = time.time()
    bases = prop_modules(prop)
    mods = ["TsV.Props." + b for b in bases]
    mod = " ".join(mods)
    if thorough:
        # force re-elaboration of the property modules
        for b in bases:
            for ext in ("olean", "ilean", "trace", "olean.hash", "ilean.hash"):
                p = os.path.join(LEAN, ".lake", "build", "lib", "lean", "TsV", "Props", b + "." + ext)
                if os.path.exists(p):
                    os.remove(p)
    ok, out = build_lean(mods + ["tsmodel"])
    names, examples = theorems_of(prop)
    obligations = len(names) + examples
    if not ok:
        problems.append("lake build %s failed:\n%s" % (mod, out[-3000:]))
        return dict(obligations=obligations, discharged=0, theorems={}, problems=problems,
                    build_s=time.time() - t0)
    if "declaration uses 'sorry'" in out or "declaration uses `sorry`" in out:
        problems.append("sorry in build output")
    for path in lean_sources():
        m = FORBIDDEN.search(strip_comments(open(path).read()))
        if m:
            problems.append("forbidden token %r in %s" % (m.group(0), os.path.relpath(path, LEAN)))
    os.makedirs(os.path.join(BUILD, "audit"), exist_ok=True)
    afile = os.path.join(BUILD, "audit", prop + ".lean")
    with open(afile, "w") as f:
        for m_ in mods:
            f.write("import %s\n" % m_)
        for n in names:
            f.write("#print axioms %s\n" % n)
    lock = _locked("lake")
    try:
        rc, aout = sh(["lake", "env", "lean", afile], cwd=LEAN)
    finally:
        lock.close()
    theorems = {}
    if rc != 0:
        problems.append("axiom audit failed: " + aout[-2000:])
    for m in re.finditer(r"^'(.+?)' (does not depend on any axioms|depends on axioms: \[([^\]]*)\])", aout, re.M):
        axs = [a.strip() for a in (m.group(3) or "").replace("\n", " ").split(",") if a.strip()]
        theorems[m.group(1)] = axs
        bad = [a for a in axs if a not in ALLOWED_AXIOMS]
        if bad:
            problems.append("theorem %s depends on %s" % (m.group(1), bad))
    missing = [n for n in names if n not in theorems]
    if missing and rc == 0:
        problems.append("no axiom report for %s" % missing)
    if thorough and not problems:
        lock = _locked("lake")
        try:
            rc, cout = sh(["lake", "env", "leanchecker"] + mods, cwd=LEAN)
        finally:
            lock.close()
        if rc != 0:
            problems.append("leanchecker %s failed: %s" % (mod, cout[-2000:]))
    discharged = obligations if not problems else 0
    return dict(obligations=obligations, discharged=discharged, theorems=theorems, problems=problems,
                build_s=round(time.time() - t0, 1))


# ----------------------------------------------------------------------------- known findings

def known_findings(prop):
    """open: lines of KNOWN_FINDINGS.txt for this property -> list of dict(id=…, text=…)"""
    res = []
    path = os.path.join(VERIF, "KNOWN_FINDINGS.txt")
    if not os.path.exists(path):
        return res
    for line in open(path):
        line = line.strip()
        m = re.match(r"open:\s+property=(\S+)\s+id=(\S+)\s+(.*)", line)
        if m and m.group(1) == prop:
            res.append(dict(id=m.group(2), text=m.group(3)))
    return res


# ----------------------------------------------------------------------------- the check context

class Check:
    def __init__(self, prop, tier, seed):
        self.prop, self.tier, self.seed = prop, tier, seed
        self.rng = random.Random(seed)
        try:
            import syn_gen
            syn_gen.STYLE_SALT[0] = seed
        except ImportError:
            pass
        self.t0 = time.time()
        self.evaluations = 0
        self.nontrivial = set()
        self.samples = []
        self.hist = {}
        self.exhaustive = False
        self.rule = ""
        self.violations = []      # dicts written to replay files
        self.known_hit = {}       # known id -> witness description
        self.notes = []
        self.assumptions = []
        self.extra = {}
        self.open = {k["id"]: k for k in known_findings(prop)}

    @property
    def thorough(self):
        return self.tier == "thorough"

    def count(self, key, n=1):
        self.hist[key] = self.hist.get(key, 0) + n

    def saw(self, case_key, nontrivial=True):
        self.evaluations += 1
        if nontrivial:
            self.nontrivial.add(case_key if isinstance(case_key, (str, int, tuple)) else json.dumps(case_key, sort_keys=True))

    def sample(self, case, limit=6):
        if len(self.samples) < limit:
            self.samples.append(case)

    def known(self, kid, witness):
        """a difference / failure inside an `open:` class of KNOWN_FINDINGS.txt"""
        if kid in self.open:
            self.known_hit.setdefault(kid, witness)
            return True
        return False

    def has_failing(self):
        """has a violation with a concrete failing input been found?  (a broken-correspondence report alone does not stop the
        later parts of a check: one of them may still find the failing input)"""
        return any(v["failing_input_found"] for v in self.violations)

    def known_open(self, kid):
        return kid in self.open

    def violation(self, what, case, impl=None, model=None, failing_input=True, broken=None):
        self.violations.append(dict(property=self.prop, what=what, case=case, implementation=impl,
                                    model=model, failing_input_found=failing_input,
                                    broken_obligation=broken))


def write_replay(check, v):
    os.makedirs(os.path.join(BUILD, "replay"), exist_ok=True)
    blob = json.dumps(v, sort_keys=True, ensure_ascii=False, default=str)
    h = hashlib.sha256(blob.encode()).hexdigest()[:12]
    path = os.path.join(BUILD, "replay", "%s-%s.json" % (check.prop, h))
    with open(path, "w") as f:
        json.dump(v, f, indent=1, ensure_ascii=False, default=str)
    return path


def finish(check, aud, trusted_base, level_text=""):
    """print verdict lines, write evidence, return exit code"""
    rc = 0
    for p in aud["problems"]:
        check.violation("proof obligation does not check: " + p.splitlines()[0], case=None,
                        failing_input=False, broken=p)
    seen = set()
    # violations with a concrete failing input are reported first (at most five lines are printed)
    for v in sorted(check.violations, key=lambda v: not v["failing_input_found"]):
        path = write_replay(check, v)
        if path in seen:
            continue
        seen.add(path)
        tail = "" if v["failing_input_found"] else " no-failing-input-found"
        print("VIOLATION property=%s replay=%s%s" % (check.prop, path, tail))
        rc = 1
        if len(seen) >= 5:
            break
    for kid, k in check.open.items():
        if kid in check.known_hit:
            print("KNOWN-FINDING: property=%s %s [%s]" % (check.prop, k["text"], kid))
        else:
            check.notes.append("known finding %s: witness no longer fails (repaired upstream?)" % kid)
    ev = dict(
        property_id=check.prop, tier=check.tier, seed=check.seed, level="proof",
        coverage=dict(
            obligations=aud["obligations"], discharged=aud["discharged"],
            checker_cmd="cd /verif/lean && lake build TsV.Props.%s && lake env lean ../build/audit/%s.lean  # #print axioms on every theorem%s"
                        % (check.prop, check.prop, "; lake env leanchecker TsV.Props.%s" % check.prop if check.thorough else ""),
            trusted_base=trusted_base,
            theorems=aud["theorems"],
            evaluations=check.evaluations, distinct_nontrivial=len(check.nontrivial),
            rule=check.rule, samples=check.samples, exhaustive=check.exhaustive,
            input_distribution=check.hist,
            known_findings_replayed=sorted(check.known_hit),
            notes=check.notes, **check.extra),
        assumptions=check.assumptions,
        wall_s=round(time.time() - check.t0, 2),
        violations=len(check.violations))
    # evidence/ only ever describes runs against /repo itself; a run against a scratch copy (VERIF_REPO, used to try
    # seeded changes) leaves its record under build/
    evdir = os.path.join(VERIF, "evidence") if not _SUFFIX else os.path.join(BUILD, "evidence" + _SUFFIX)
    os.makedirs(evdir, exist_ok=True)
    with open(os.path.join(evdir, check.prop + ".json"), "w") as f:
        json.dump(ev, f, indent=1, ensure_ascii=False, default=str)
    print("%s %s: %d evaluations, %d distinct non-trivial, obligations %d/%d, %d violation(s), %.1fs"
          % (check.prop, check.tier, check.evaluations, len(check.nontrivial), aud["discharged"],
             aud["obligations"], len(check.violations), time.time() - check.t0))
    return rc


COMMON_TRUSTED = [
    "Lean 4.33.0 kernel; axioms of every listed theorem are a subset of {propext, Classical.choice, Quot.sound} (audited by #print axioms on every run)",
    "hand-written Lean model of the Rust code; tied to /repo only by this run's differential correspondence (runner linked against /repo/core and /repo/lib, rebuilt from the working tree)",
    "the correspondence machinery itself: harness/runner (Rust), tools/*.py (generators, canonicalisation, comparison)",
]


# ----------------------------------------------------------------------------- the real binary (L3)

import tempfile


class Scratch:
    """a scratch directory under build/scratch, removed on exit"""

    def __enter__(self):
        base = os.path.join(BUILD, "scratch")
        os.makedirs(base, exist_ok=True)
        self.dir = tempfile.mkdtemp(prefix="t", dir=base)
        # typeshare's walker honours .gitignore files of the enclosing git repository, and /verif is one (its .gitignore lists
        # `build/`): an empty `.git` directory makes the scratch directory a repository root of its own, so nothing outside it applies
        os.mkdir(os.path.join(self.dir, ".git"))
        return self

    def __exit__(self, *a):
        shutil.rmtree(self.dir, ignore_errors=True)

    def write(self, rel, text):
        p = os.path.join(self.dir, rel)
        os.makedirs(os.path.dirname(p), exist_ok=True)
        with open(p, "w", encoding="utf-8", newline="") as f:
            f.write(text)
        return p

    def path(self, rel):
        return os.path.join(self.dir, rel)


def run_cli(args, cwd, env=None, timeout=30, drop=()):
    """run the rebuilt typeshare binary; returns dict(rc, out, err, timed_out)"""
    e = dict(ENV)
    e["RUST_LOG"] = "info"
    e.pop("RUST_BACKTRACE", None)
    if env:
        e.update(env)
    for k in drop:
        e.pop(k, None)
    try:
        p = subprocess.run([CLI_BIN] + list(args), cwd=cwd, env=e, stdout=subprocess.PIPE, stderr=subprocess.PIPE,
                           text=True, timeout=timeout, errors="replace")
        return dict(rc=p.returncode, out=p.stdout, err=p.stderr, timed_out=False)
    except subprocess.TimeoutExpired as ex:
        return dict(rc=None, out=(ex.stdout or b"").decode("utf-8", "replace") if isinstance(ex.stdout, bytes) else (ex.stdout or ""),
                    err=(ex.stderr or b"").decode("utf-8", "replace") if isinstance(ex.stderr, bytes) else (ex.stderr or ""),
                    timed_out=True)


def snapshot(root):
    """{relative path: (bytes, mtime_ns)} of every file under root"""
    out = {}
    for d, _, files in os.walk(root):
        for f in files:
            p = os.path.join(d, f)
            st = os.stat(p)
            out[os.path.relpath(p, root)] = (open(p, "rb").read(), st.st_mtime_ns)
    return out


LANGS = ["typescript", "kotlin", "swift", "scala", "go", "python"]
EXT = {"typescript": "ts", "kotlin": "kt", "swift": "swift", "scala": "scala", "go": "go", "python": "py"}


def lang_args(lang):
    """minimal extra arguments a language needs to run at all"""
    if lang == "go":
        return ["--go-package", "proto"]
    if lang == "scala":
        return ["--scala-package", "com.example"]
    if lang == "kotlin":
        return ["--java-package", "com.example"]
    return []


# ----------------------------------------------------------------------------- what the binary leaves on disk

def dirty_destination(check, label, lang, sources, extra_args=(), earlier_sources=None):
    """The generated definitions a user gets are the *file* the binary leaves behind, and output paths usually exist already.
    `sources`: {relative path: text} of one crate (`proj/src/...`).  Reference = the run into a fresh path.  Then the same command
    is run over a destination that already holds (a) the reference followed by more text, (b) a text of exactly the reference's
    length that differs from it, (c) a prefix of the reference, (d) the output of `earlier_sources` (an earlier version of the
    program).  Every time the file must end up byte-identical to the reference.  Returns a problem dict or None; reports nothing."""
    with Scratch() as sc:
        for rel, text in sources.items():
            sc.write("proj/" + rel, text)
        ref_path = sc.path("ref/out." + EXT[lang])
        os.makedirs(sc.path("ref"))
        cmd = lambda out: ["--lang", lang, "-o", out] + lang_args(lang) + list(extra_args) + [sc.path("proj")]
        r = run_cli(cmd(ref_path), cwd=sc.dir)
        if r["rc"] != 0 or not os.path.exists(ref_path):
            return None                 # not generated at all: not this helper's business
        ref = open(ref_path, "rb").read()
        mid = len(ref) // 2
        flipped = ref[:mid] + (b"#" if ref[mid:mid + 1] != b"#" else b"%") + ref[mid + 1:]
        states = [("longer", ref + b"\n// left over from an earlier, longer output\nstale stale stale\n"),
                  ("same-length", flipped), ("shorter", ref[:mid])]
        if earlier_sources is not None:
            with Scratch() as sc2:
                for rel, text in earlier_sources.items():
                    sc2.write("proj/" + rel, text)
                p2 = sc2.path("out." + EXT[lang])
                r2 = run_cli(["--lang", lang, "-o", p2] + lang_args(lang) + list(extra_args) + [sc2.path("proj")], cwd=sc2.dir)
                if r2["rc"] == 0 and os.path.exists(p2):
                    states.append(("earlier-version", open(p2, "rb").read()))
        for name, content in states:
            out = sc.path("dest-%s/out.%s" % (name, EXT[lang]))
            os.makedirs(os.path.dirname(out))
            with open(out, "wb") as f:
                f.write(content)
            r = run_cli(cmd(out), cwd=sc.dir)
            check.saw(("dirty-destination", label, lang, name, hashlib.sha256(ref).hexdigest()[:12]), nontrivial=True)
            check.count("dirty-destination-" + name)
            got = open(out, "rb").read() if os.path.exists(out) else None
            if r["rc"] != 0 or got != ref:
                return {"state": name, "lang": lang, "sources": sources, "existing_file": content.decode("utf-8", "replace")[-1500:],
                        "file_after_run": None if got is None else got.decode("utf-8", "replace")[-2500:],
                        "fresh_run": ref.decode("utf-8", "replace")[-2500:], "rc": r["rc"]}
        # the generated definitions are a function of the sources, the configuration and the options - not of the process
        # environment: the same command into a fresh path under other logging levels / locale settings writes the same bytes
        for name, env in ENVIRONMENTS:
            out = sc.path("dest-%s/out.%s" % (name, EXT[lang]))
            os.makedirs(os.path.dirname(out))
            e = {k: v for k, v in env.items() if v is not None}
            r = run_cli(cmd(out), cwd=sc.dir, env=e, drop=[k for k, v in env.items() if v is None])
            check.saw(("environment", label, lang, name, hashlib.sha256(ref).hexdigest()[:12]), nontrivial=True)
            check.count("environment-" + name)
            got = open(out, "rb").read() if os.path.exists(out) else None
            if r["rc"] != 0 or got != ref:
                return {"state": "process environment " + name, "environment": env, "lang": lang, "sources": sources,
                        "existing_file": "", "stderr": (r["err"] or "")[-1500:],
                        "file_after_run": None if got is None else got.decode("utf-8", "replace")[-2500:],
                        "fresh_run": ref.decode("utf-8", "replace")[-2500:], "rc": r["rc"]}
    return None


ENVIRONMENTS = [("log-debug", {"RUST_LOG": "debug"}), ("log-trace", {"RUST_LOG": "trace"}),
                ("log-core-debug", {"RUST_LOG": "typeshare_core=debug"}), ("log-unset", {"RUST_LOG": None}),
                ("log-off-backtrace", {"RUST_LOG": "off", "RUST_BACKTRACE": "1"}),
                ("locale-c", {"LANG": "C", "LC_ALL": "C", "NO_COLOR": "1", "TERM": "dumb"})]


ON_DISK_NOW = """/// A user record.
#[typeshare]
#[serde(rename_all = "camelCase")]
pub struct UserRecord {
    pub user_id: u32,
    #[serde(rename = "e-mail")]
    pub email: Option<String>,
    #[serde(default)]
    pub tags: Vec<String>,
    pub scores: HashMap<String, u8>,
}

/// What happened.
#[typeshare]
#[serde(tag = "type", content = "content", rename_all = "kebab-case")]
pub enum Event {
    SignedIn { user_id: u32 },
    Renamed(String),
    SignedOut,
}

#[typeshare]
pub type Alias = Vec<UserRecord>;

#[typeshare]
#[serde(rename_all = "snake_case")]
pub enum Colour { DarkRed, #[serde(rename = "blue-ish")] Blue, PaleGreen }
"""
ON_DISK_BEFORE = ON_DISK_NOW + """
/// A type of an earlier version of the program, removed since: its text is longer than anything that follows.
#[typeshare]
#[serde(rename_all = "SCREAMING_SNAKE_CASE")]
pub enum LegacyStatusOfAnEarlierVersion { NotStartedYet, RunningRightNow, FinishedSuccessfully, FailedWithAnError }
"""


def on_disk_tie(check):
    """shared by the checks of all properties about generated definitions: the binary, run over a destination that holds an earlier
    output (longer / equally long / shorter / of an earlier version of the program), leaves exactly what a run into a fresh path
    writes - for all six languages"""
    for lang in LANGS:
        prob = dirty_destination(check, "shared", lang, {"src/lib.rs": ON_DISK_NOW}, earlier_sources={"src/lib.rs": ON_DISK_BEFORE})
        if prob:
            check.violation("%s: %s the generated file is not what a fresh run writes" % (
                lang, "under the " + prob["state"] if "environment" in prob else
                "written over a destination that holds an earlier output (%s) - the definitions on disk mix two runs:" % prob["state"]), case=prob, impl=prob["file_after_run"],
                            model=prob["fresh_run"], failing_input=True)
            return
