import TsV.Lemmas.C03_Emission_TypeScript
import TsV.Lemmas.C03_Emission_Kotlin
import TsV.Lemmas.C03_Emission_Swift
import TsV.Lemmas.C03_Emission_Scala
import TsV.Lemmas.C03_Emission_Go
import TsV.Lemmas.C03_Emission_Python
import TsV.Lemmas.C03_Emission_Run
/-!
# C03, emission clause — every parsed item is printed exactly once, by every back end

`TsV.C03` (the parse half) shows that `ParsedData` holds exactly one entry per annotated, accepted
item (the parsed item or an error) with exactly the non-skipped members.  This file is the other
half, for the six back-end models and every configuration / printer state:

1. **`blocks_*`** — the text of one output file is `header ++ blocks.flatten ++ footer` with exactly
   one block per item, block k being what the back end's `writeItem` writes for item k (in
   `generateOrder`; Scala: in `ParsedData` order), the printer state threaded from block to block
   (`Threaded`, index form `Threaded.nth`).  Header and footer are given explicitly: they hold the
   version header, package / import lines and the helper definitions typeshare adds on its own
   (TypeScript `ReviverFunc` / `ReplacerFunc`, Swift `CodableVoid`, Scala `UByte…`, Python
   `TypeVar`s and (de)serialisers) — never an item.
2. **`defines_*`** — the block of an item splits (`SplitsInto`) into exactly the top-level
   definitions `*Defs` lists (trusted, `Lemmas/C03_Emission_Spec.lean`): the helper structs of its
   struct variants, named `<Enum><Variant>Inner`, and the item itself — each piece being the
   rendering of one declaration record of the model and containing, at the start of a line, the
   language's defining keyword followed by the complete name (`DefinesHead`).  `decls_*` give the
   same count on the fact records where the model has them.
3. **`emission_*`** — composed with the parse half through `Generate.run` for a single file: if the
   run produces output then no annotated accepted item failed to parse, the output is one file, its
   blocks are in one-to-one correspondence (`Perm` + `Threaded` / `Paired`) with the annotated
   accepted items, each block defining its item; if some item fails to parse the run reports the
   errors and prints nothing (`run_reports_errors`); consts make Kotlin / Swift / Scala fail
   (`*_no_const`).  Un-annotated items are not in `sourceItems`, so nothing is printed for them.
-/
namespace TsV.C03_Emission
open TsV TsV.Lang TsV.Generate TsV.C03E

/-! ## 1. one block per item, in order, nothing else -/

theorem blocks_typescript (U : UnicodeOps) (cfg : TypeScript.Cfg) (d : ParsedData)
    (imports : Option Pipeline.ScopedCrateTypes) (st0 : TypeScript.CustomMap) (text : Str) (st : TypeScript.CustomMap)
    (h : TypeScript.generate U cfg d imports st0 = .ok (text, st)) :
    ∃ items blocks, Pipeline.generateOrder d = some items ∧
      Threaded (TypeScript.writeItem U cfg) items st0 blocks st ∧ blocks.length = items.length ∧
      text = TS.header cfg imports ++ blocks.flatten ++ TypeScript.endFile st := by
  obtain ⟨items, blocks, ho, ht, htext⟩ := TS.generate_blocks U cfg d imports st0 text st h
  exact ⟨items, blocks, ho, ht, ht.length, htext⟩

theorem blocks_kotlin (cfg : Kotlin.Cfg) (d : ParsedData) (imports : Option Pipeline.ScopedCrateTypes) (text : Str)
    (h : Kotlin.generate cfg d imports = .ok text) :
    ∃ items blocks, Pipeline.generateOrder d = some items ∧
      Paired (fun it b => Kt.writeItem cfg it = .ok b) items blocks ∧ blocks.length = items.length ∧
      text = Kt.header cfg d imports ++ blocks.flatten := by
  obtain ⟨items, blocks, ho, hp, htext⟩ := Kt.generate_blocks cfg d imports text h
  exact ⟨items, blocks, ho, hp, hp.length_eq.symm, htext⟩

theorem blocks_swift (U : UnicodeOps) (cfg : Swift.Cfg) (multi : Bool) (d : ParsedData) (st0 : Swift.St) (text : Str)
    (st : Swift.St) (h : Swift.generate U cfg multi d st0 = .ok (text, st)) :
    ∃ items blocks, Pipeline.generateOrder d = some items ∧
      Threaded (Swift.writeItem U cfg) items st0 blocks st ∧ blocks.length = items.length ∧
      text = Swift.beginFile cfg ++ blocks.flatten ++ Swift.endFile cfg multi st := by
  obtain ⟨items, blocks, ho, ht, htext⟩ := Sw.generate_blocks U cfg multi d st0 text st h
  exact ⟨items, blocks, ho, ht, ht.length, htext⟩

/-- Scala prints `ParsedData` order (no sort): aliases inside the package object, structs and enums
inside the package block; `Sc.pre` / `Sc.mid` / `Sc.post` are the package scaffolding and the four
unsigned-integer aliases -/
theorem blocks_scala (cfg : Scala.Cfg) (d : ParsedData) (text : Str) (h : Scala.generate cfg d = .ok text) :
    ∃ blocks, Paired (fun it b => Sc.writeItem cfg it = .ok b) (C12L.itemsOf d) blocks ∧
      blocks.length = (C12L.itemsOf d).length ∧ d.consts = [] ∧
      text = Sc.pre cfg d ++ (blocks.take d.aliases.length).flatten ++ Sc.mid cfg d ++
        (blocks.drop d.aliases.length).flatten ++ Sc.post d := by
  obtain ⟨blocks, hp, htext⟩ := Sc.generate_items cfg d text h
  obtain ⟨_, _, _, _, _, _, hc, _⟩ := Sc.generate_blocks cfg d text h
  exact ⟨blocks, hp, hp.length_eq.symm, hc, htext⟩

theorem blocks_go (U : UnicodeOps) (cfg : Go.Cfg) (d : ParsedData) (st0 : Go.Imports) (text : Str) (st : Go.Imports)
    (h : Go.generate U cfg d st0 = .ok (text, st)) :
    ∃ items blocks, Pipeline.generateOrder d = some items ∧
      Threaded (Go.writeItem U cfg (Go.typesMappingToStruct items)) items (Go.addImport st0 s%"encoding/json") blocks st ∧
      blocks.length = items.length ∧
      text = Go.beginFile cfg ++ Go.renderImports st ++ blocks.flatten := by
  obtain ⟨items, blocks, ho, ht, htext⟩ := C03E.Go.generate_blocks U cfg d st0 text st h
  exact ⟨items, blocks, ho, ht, ht.length, htext⟩

theorem blocks_python (E : Ext) (cfg : Python.Cfg) (d : ParsedData) (st0 : Python.St) (text : Str) (st : Python.St)
    (h : Python.generate E cfg d st0 = .ok (text, st)) :
    ∃ items blocks st1, Pipeline.generateOrder d = some items ∧
      Threaded (Python.writeItem E cfg) items st0 blocks st1 ∧ blocks.length = items.length ∧
      st = Python.addDatetimeImport st1 ∧
      text = Python.beginFile cfg ++ Python.writeAllImports st ++ Python.writeCustomFns st ++ blocks.flatten := by
  obtain ⟨items, blocks, st1, ho, ht, hst, htext⟩ := Py.generate_blocks E cfg d st0 text st h
  exact ⟨items, blocks, st1, ho, ht, ht.length, hst, htext⟩

/-- the items written are the items of the `ParsedData`, each once (C11: `topsort` only permutes) -/
theorem order_is_permutation (d : ParsedData) (items : List RustItem) (h : Pipeline.generateOrder d = some items) :
    items.Perm (C12L.itemsOf d) := C12L.generateOrder_perm d items h

/-- index form of `Threaded`: block k is `w items[k]` run in the state left by block k-1 -/
theorem threaded_nth {σ : Type} {w : RustItem → σ → Outcome (Str × σ)} {items : List RustItem} {st st' : σ}
    {blocks : List Str} (h : Threaded w items st blocks st') :
    ∃ sts : List σ, sts.length = items.length + 1 ∧ sts[0]? = some st ∧ sts[items.length]? = some st' ∧
      ∀ k it, items[k]? = some it →
        ∃ s s' b, sts[k]? = some s ∧ sts[k+1]? = some s' ∧ blocks[k]? = some b ∧ w it s = .ok (b, s') := h.nth

/-! ## 2. a block defines its item (and the helper structs of its struct variants), nothing else -/

theorem defines_typescript (U : UnicodeOps) (cfg : TypeScript.Cfg) (it : RustItem) (st st' : TypeScript.CustomMap)
    (b : Str) (h : TypeScript.writeItem U cfg it st = .ok (b, st')) : SplitsInto (tsDefs U it) b :=
  TS.block_defines U cfg it st b st' h

theorem defines_kotlin (cfg : Kotlin.Cfg) (it : RustItem) (b : Str) (h : Kt.writeItem cfg it = .ok b) :
    SplitsInto (ktDefs cfg it) b := Kt.block_defines cfg it b h

/-- record level: the `KtDecl`s built for an item are exactly the ones `ktDefs` lists — one for a
struct or alias, `1 + #struct variants` for an enum -/
theorem decls_kotlin (cfg : Kotlin.Cfg) (it : RustItem) (ds : List Kotlin.KtDecl) (h : Kotlin.itemFacts cfg it = .ok ds) :
    ds.map (fun d => (Kt.ktKw d, C09.ktName d)) = ktDefs cfg it ∧ ds.length = (ktDefs cfg it).length := by
  have := (Kt.itemFacts_heads cfg it ds h).1
  exact ⟨this, by rw [← this]; simp⟩

theorem defines_swift (U : UnicodeOps) (cfg : Swift.Cfg) (it : RustItem) (st st' : Swift.St) (b : Str)
    (h : Swift.writeItem U cfg it st = .ok (b, st')) : SplitsInto (swDefs cfg it) b :=
  Sw.block_defines U cfg it st b st' h

theorem decls_swift (U : UnicodeOps) (cfg : Swift.Cfg) (e : RustEnum) (st st' : Swift.St) (ss : List Swift.SwiftStruct)
    (se : Swift.SwiftEnum) (h : Swift.enumFacts U cfg e st = .ok (ss, se, st')) :
    ss.length = (structVariantsOf e).length := Sw.enumFacts_count U cfg e st st' ss se h

theorem defines_scala (cfg : Scala.Cfg) (it : RustItem) (b : Str) (h : Sc.writeItem cfg it = .ok b) :
    SplitsInto (scDefs it) b := Sc.block_defines cfg it b h

theorem decls_scala (cfg : Scala.Cfg) (e : RustEnum) (f : Scala.ScEnum) (h : Scala.enumFacts cfg e = .ok f) :
    f.inner.length = (structVariantsOf e).length := Sc.enumFacts_count cfg e f h

/-- Go: the names go through `uppercase_acronyms`, which is an `Outcome` -/
theorem defines_go (U : UnicodeOps) (cfg : Go.Cfg) (cs : List Str) (it : RustItem) (st st' : Go.Imports) (b : Str)
    (h : Go.writeItem U cfg cs it st = .ok (b, st')) : ∃ defs, goDefs U cfg it = .ok defs ∧ SplitsInto defs b :=
  C03E.Go.block_defines U cfg cs it st b st' h

theorem defines_python (E : Ext) (cfg : Python.Cfg) (it : RustItem) (st st' : Python.St) (b : Str)
    (h : Python.writeItem E cfg it st = .ok (b, st')) : SplitsInto (pyDefs E it) b :=
  Py.block_defines E cfg it st b st' h

/-- what `SplitsInto` gives, spelled out: as many pieces as definitions -/
theorem splitsInto_count {defs : List (Str × Str)} {b : Str} (h : SplitsInto defs b) :
    ∃ (lead : Str) (chunks : List Str), b = lead ++ chunks.flatten ∧ chunks.length = defs.length := h.length

/-- the last definition of every block is the item itself, under the name C09's `defName` gives
(TypeScript / Kotlin / Scala / Python: literally; Swift: inside back-ticks if a keyword) -/
theorem last_def_typescript (U : UnicodeOps) (cfg : TypeScript.Cfg) (it : RustItem) (h : isConst it = false) :
    ((tsDefs U it).map (·.2)).getLast? = some (C09.defName (.typescript cfg) it) := by
  cases it <;> simp_all [tsDefs, C09.defName, C09.itemId, isConst]

theorem last_def_kotlin (cfg : Kotlin.Cfg) (it : RustItem) (h : isConst it = false) :
    ((ktDefs cfg it).map (·.2)).getLast? = some (C09.defName (.kotlin cfg) it) := by
  cases it with
  | alias a => by_cases hi : Kotlin.isInline a.decorators = true <;> simp [ktDefs, C09.defName, C09.itemId, hi]
  | const c => simp [isConst] at h
  | struct s => simp [ktDefs, C09.defName, C09.itemId]
  | «enum» e => simp [ktDefs, C09.defName, C09.itemId]

theorem last_def_swift (cfg : Swift.Cfg) (it : RustItem) (h : isConst it = false) :
    ((swDefs cfg it).map (·.2)).getLast? = some (Swift.kw (C09.defName (.swift cfg) it)) := by
  cases it <;> simp_all [swDefs, C09.defName, C09.itemId, isConst]

theorem last_def_scala (cfg : Scala.Cfg) (it : RustItem) (h : isConst it = false) :
    ((scDefs it).map (·.2)).getLast? = some (C09.defName (.scala cfg) it) := by
  cases it <;> simp_all [scDefs, C09.defName, C09.itemId, isConst]

theorem last_def_python (E : Ext) (cfg : Python.Cfg) (it : RustItem) (h : isConst it = false) :
    ((pyDefs E it).map (·.2)).getLast? = some (C09.defName (.python cfg) it) := by
  cases it with
  | «enum» e =>
    cases hk : e.keys <;>
      simp [pyDefs, C09.defName, C09.itemId, hk, List.getLast?_cons, List.getLast?_append]
  | const c => simp [isConst] at h
  | struct s => simp [pyDefs, C09.defName, C09.itemId]
  | alias a => simp [pyDefs, C09.defName, C09.itemId]

/-- Go without `uppercase_acronyms`: the last definition is `defName` -/
theorem last_def_go (U : UnicodeOps) (cfg : Go.Cfg) (hc : cfg.uppercaseAcronyms = []) (it : RustItem)
    (h : isConst it = false) (defs : List (Str × Str)) (hd : goDefs U cfg it = .ok defs) :
    (defs.map (·.2)).getLast? = some (C09.defName (.go cfg) it) := by
  have hacr := C09.go_acr U cfg hc
  cases it with
  | struct s => simp [goDefs, hacr] at hd; subst hd; simp [C09.defName, C09.itemId]
  | alias a => simp [goDefs, hacr] at hd; subst hd; simp [C09.defName, C09.itemId]
  | const c => simp [isConst] at h
  | «enum» e =>
    simp only [goDefs, hacr, Outcome.bind_ok] at hd
    obtain ⟨inner, _, hd⟩ := bindOk hd
    cases hk : e.keys with
    | none => simp [hk] at hd; subst hd; simp [C09.defName]
    | some kc => simp [hk] at hd; subst hd; simp [C09.defName]

/-! ## 3. composed with the parse half: a single-file run -/

/-- the parse half in list form: every annotated accepted item is parsed or is an error, never
both, never neither (no panic: `C03.parseItem_np`) -/
theorem parsed_or_error (E : Ext) (ctx : ParseContext) (f : Syn.File) :
    (parsedItems E ctx f).length + (parseErrs E ctx f).length = (sourceItems ctx f).length := by
  unfold parsedItems parseErrs
  induction sourceItems ctx f with
  | nil => rfl
  | cons it t ih =>
    have hnp := C03.parseItem_np E ctx it
    cases hp : C03.parseItem E ctx it with
    | ok r => simp [okItems, errKinds, hp] at ih ⊢; omega
    | err e => simp [okItems, errKinds, hp] at ih ⊢; omega
    | panic s => simp [hp, Outcome.NP, Outcome.isPanic] at hnp

/-- **an item that does not parse is reported, and nothing is generated** -/
theorem run_reports_errors (E : Ext) (lang : LangCfg) (targetOs : List Str)
    (pick : List ImportedType → Option ImportedType) (f : SourceFile)
    (h : parseErrs E (ctxOf lang targetOs) f.file ≠ []) :
    run E lang false targetOs pick [f] =
      .ok (.parseErrors ((parseErrs E (ctxOf lang targetOs) f.file).map fun e => (e, f.path))) := by
  obtain ⟨d', _, _, _, hrun⟩ := run_single E lang targetOs pick f
  rw [hrun, if_neg (fun hh => h hh.2), if_pos h]

/-- a run that produces output: no parse error, and either nothing to print or one job holding the
reconciled parsed items, each once -/
theorem run_outputs (E : Ext) (lang : LangCfg) (targetOs : List Str)
    (pick : List ImportedType → Option ImportedType) (f : SourceFile) (outs : List (Str × Str))
    (h : run E lang false targetOs pick [f] = .ok (.outputs outs)) :
    parseErrs E (ctxOf lang targetOs) f.file = [] ∧
    (parsedItems E (ctxOf lang targetOs) f.file).length = (sourceItems (ctxOf lang targetOs) f.file).length ∧
    (parsedItems E (ctxOf lang targetOs) f.file = [] → outs = []) ∧
    (parsedItems E (ctxOf lang targetOs) f.file ≠ [] → ∃ d' : ParsedData,
      (C12L.itemsOf d').Perm ((parsedItems E (ctxOf lang targetOs) f.file).map
        (recItem f.crateName (renamesFor f.crateName (parsedItems E (ctxOf lang targetOs) f.file)))) ∧
      d'.multiFile = false ∧ d'.crateName = f.crateName ∧
      genAll E lang false [(f.crateName, d', none)] = .ok outs) := by
  obtain ⟨d', hperm, hmf, hcr, hrun⟩ := run_single E lang targetOs pick f
  have hcount := parsed_or_error E (ctxOf lang targetOs) f.file
  by_cases herr : parseErrs E (ctxOf lang targetOs) f.file = []
  · refine ⟨herr, by simpa [herr] using hcount, ?_, ?_⟩
    · intro hP
      rw [hrun, if_pos ⟨hP, herr⟩] at h
      cases h; rfl
    · intro hP
      rw [hrun, if_neg (fun hh => hP hh.1), if_neg (by simp [herr])] at h
      refine ⟨d', hperm, hmf, hcr, ?_⟩
      cases hg : genAll E lang false [(f.crateName, d', none)] with
      | ok o => rw [hg] at h; cases h; rfl
      | err e => rw [hg] at h; cases h
      | panic s => rw [hg] at h; cases h
  · rw [run_reports_errors E lang targetOs pick f herr] at h
    cases h

/-- reconciliation changes no definition (so the statements below, phrased for the reconciled items
the back end sees, speak about the parsed items of the parse half) -/
theorem defs_unchanged (c : Str) (r : Pipeline.Renames) (it : RustItem) :
    (∀ U, tsDefs U (recItem c r it) = tsDefs U it) ∧ (∀ cfg, ktDefs cfg (recItem c r it) = ktDefs cfg it) ∧
    (∀ cfg, swDefs cfg (recItem c r it) = swDefs cfg it) ∧ scDefs (recItem c r it) = scDefs it ∧
    (∀ U cfg, goDefs U cfg (recItem c r it) = goDefs U cfg it) ∧ (∀ E, pyDefs E (recItem c r it) = pyDefs E it) ∧
    isConst (recItem c r it) = isConst it :=
  ⟨fun U => tsDefs_rec U c r it, fun cfg => ktDefs_rec cfg c r it, fun cfg => swDefs_rec cfg c r it,
   scDefs_rec c r it, fun U cfg => goDefs_rec U cfg c r it, fun E => pyDefs_rec E c r it, isConst_rec c r it⟩

/-- the reconciled parsed items of the file: what the blocks are in one-to-one correspondence with -/
def emitted (E : Ext) (lang : LangCfg) (targetOs : List Str) (f : SourceFile) : List RustItem :=
  (parsedItems E (ctxOf lang targetOs) f.file).map
    (recItem f.crateName (renamesFor f.crateName (parsedItems E (ctxOf lang targetOs) f.file)))

theorem emitted_length (E : Ext) (lang : LangCfg) (targetOs : List Str) (f : SourceFile) :
    (emitted E lang targetOs f).length = (parsedItems E (ctxOf lang targetOs) f.file).length := by
  simp [emitted]

/-- **emission, TypeScript** -/
theorem emission_typescript (E : Ext) (cfg : TypeScript.Cfg) (targetOs : List Str)
    (pick : List ImportedType → Option ImportedType) (f : SourceFile) (outs : List (Str × Str))
    (h : run E (.typescript cfg) false targetOs pick [f] = .ok (.outputs outs)) :
    parseErrs E (ctxOf (.typescript cfg) targetOs) f.file = [] ∧
    (emitted E (.typescript cfg) targetOs f).length = (sourceItems (ctxOf (.typescript cfg) targetOs) f.file).length ∧
    (emitted E (.typescript cfg) targetOs f = [] → outs = []) ∧
    (emitted E (.typescript cfg) targetOs f ≠ [] → ∃ items blocks st' text,
      outs = [(f.crateName, text)] ∧ items.Perm (emitted E (.typescript cfg) targetOs f) ∧
      Threaded (TypeScript.writeItem E.U cfg) items [] blocks st' ∧
      text = TS.header cfg none ++ blocks.flatten ++ TypeScript.endFile st' ∧
      Paired (fun it b => SplitsInto (tsDefs E.U it) b) items blocks) := by
  obtain ⟨herr, hlen, hnil, hcons⟩ := run_outputs E _ targetOs pick f outs h
  refine ⟨herr, by rw [emitted_length]; exact hlen, fun he => hnil (by simpa [emitted] using he), ?_⟩
  intro he
  obtain ⟨d', hperm, _, _, hg⟩ := hcons (by simpa [emitted] using he)
  simp only [genAll, TS.generateAll_single] at hg
  obtain ⟨⟨text, st'⟩, hgen, hg⟩ := bindOk hg
  cases hg
  obtain ⟨items, blocks, ho, ht, htext⟩ := TS.generate_blocks E.U cfg d' none [] text st' hgen
  exact ⟨items, blocks, st', text, rfl, (C12L.generateOrder_perm d' items ho).trans hperm, ht, htext,
    ht.forall₂.mono fun it b ⟨s, s', hw⟩ => TS.block_defines E.U cfg it s b s' hw⟩

/-- **emission, Kotlin** (every emitted item was printable: in particular none is a const) -/
theorem emission_kotlin (E : Ext) (cfg : Kotlin.Cfg) (targetOs : List Str)
    (pick : List ImportedType → Option ImportedType) (f : SourceFile) (outs : List (Str × Str))
    (h : run E (.kotlin cfg) false targetOs pick [f] = .ok (.outputs outs)) :
    parseErrs E (ctxOf (.kotlin cfg) targetOs) f.file = [] ∧
    (emitted E (.kotlin cfg) targetOs f).length = (sourceItems (ctxOf (.kotlin cfg) targetOs) f.file).length ∧
    (emitted E (.kotlin cfg) targetOs f = [] → outs = []) ∧
    (emitted E (.kotlin cfg) targetOs f ≠ [] → ∃ (items : List RustItem) (blocks : List Str) (text : Str) (d' : ParsedData),
      outs = [(f.crateName, text)] ∧ items.Perm (emitted E (.kotlin cfg) targetOs f) ∧
      Paired (fun it b => Kt.writeItem cfg it = .ok b) items blocks ∧
      d'.multiFile = false ∧ text = Kt.header cfg d' none ++ blocks.flatten ∧
      Paired (fun it b => SplitsInto (ktDefs cfg it) b) items blocks) := by
  obtain ⟨herr, hlen, hnil, hcons⟩ := run_outputs E _ targetOs pick f outs h
  refine ⟨herr, by rw [emitted_length]; exact hlen, fun he => hnil (by simpa [emitted] using he), ?_⟩
  intro he
  obtain ⟨d', hperm, hmf, _, hg⟩ := hcons (by simpa [emitted] using he)
  simp only [genAll, Kt.generateAll_single] at hg
  obtain ⟨text, hgen, hg⟩ := bindOk hg
  cases hg
  obtain ⟨items, blocks, ho, hp, htext⟩ := Kt.generate_blocks cfg d' none text hgen
  exact ⟨items, blocks, text, d', rfl, (C12L.generateOrder_perm d' items ho).trans hperm, hp, hmf, htext,
    hp.mono fun it b hw => Kt.block_defines cfg it b hw⟩

/-- **emission, Swift** -/
theorem emission_swift (E : Ext) (cfg : Swift.Cfg) (targetOs : List Str)
    (pick : List ImportedType → Option ImportedType) (f : SourceFile) (outs : List (Str × Str))
    (h : run E (.swift cfg) false targetOs pick [f] = .ok (.outputs outs)) :
    parseErrs E (ctxOf (.swift cfg) targetOs) f.file = [] ∧
    (emitted E (.swift cfg) targetOs f).length = (sourceItems (ctxOf (.swift cfg) targetOs) f.file).length ∧
    (emitted E (.swift cfg) targetOs f = [] → outs = []) ∧
    (emitted E (.swift cfg) targetOs f ≠ [] → ∃ items blocks st' text,
      outs = [(f.crateName, text)] ∧ items.Perm (emitted E (.swift cfg) targetOs f) ∧
      Threaded (Swift.writeItem E.U cfg) items false blocks st' ∧
      text = Swift.beginFile cfg ++ blocks.flatten ++ Swift.endFile cfg false st' ∧
      Paired (fun it b => SplitsInto (swDefs cfg it) b) items blocks) := by
  obtain ⟨herr, hlen, hnil, hcons⟩ := run_outputs E _ targetOs pick f outs h
  refine ⟨herr, by rw [emitted_length]; exact hlen, fun he => hnil (by simpa [emitted] using he), ?_⟩
  intro he
  obtain ⟨d', hperm, _, _, hg⟩ := hcons (by simpa [emitted] using he)
  simp only [genAll, Sw.generateAll_single] at hg
  obtain ⟨⟨text, st'⟩, hgen, hg⟩ := bindOk hg
  cases hg
  obtain ⟨items, blocks, ho, ht, htext⟩ := Sw.generate_blocks E.U cfg false d' false text st' hgen
  exact ⟨items, blocks, st', text, rfl, (C12L.generateOrder_perm d' items ho).trans hperm, ht, htext,
    ht.forall₂.mono fun it b ⟨s, s', hw⟩ => Sw.block_defines E.U cfg it s b s' hw⟩

/-- **emission, Scala** (the blocks are in `ParsedData` order: aliases, structs, enums, each list
sorted by Rust name by `reconcile`) -/
theorem emission_scala (E : Ext) (cfg : Scala.Cfg) (targetOs : List Str)
    (pick : List ImportedType → Option ImportedType) (f : SourceFile) (outs : List (Str × Str))
    (h : run E (.scala cfg) false targetOs pick [f] = .ok (.outputs outs)) :
    parseErrs E (ctxOf (.scala cfg) targetOs) f.file = [] ∧
    (emitted E (.scala cfg) targetOs f).length = (sourceItems (ctxOf (.scala cfg) targetOs) f.file).length ∧
    (emitted E (.scala cfg) targetOs f = [] → outs = []) ∧
    (emitted E (.scala cfg) targetOs f ≠ [] → ∃ (items : List RustItem) (blocks : List Str) (text : Str) (d' : ParsedData),
      outs = [(f.crateName, text)] ∧ items.Perm (emitted E (.scala cfg) targetOs f) ∧ items = C12L.itemsOf d' ∧
      Paired (fun it b => Sc.writeItem cfg it = .ok b) items blocks ∧
      text = Sc.pre cfg d' ++ (blocks.take d'.aliases.length).flatten ++ Sc.mid cfg d' ++
        (blocks.drop d'.aliases.length).flatten ++ Sc.post d' ∧
      Paired (fun it b => SplitsInto (scDefs it) b) items blocks) := by
  obtain ⟨herr, hlen, hnil, hcons⟩ := run_outputs E _ targetOs pick f outs h
  refine ⟨herr, by rw [emitted_length]; exact hlen, fun he => hnil (by simpa [emitted] using he), ?_⟩
  intro he
  obtain ⟨d', hperm, _, _, hg⟩ := hcons (by simpa [emitted] using he)
  simp only [genAll, Sc.generateAll_single] at hg
  obtain ⟨text, hgen, hg⟩ := bindOk hg
  cases hg
  obtain ⟨blocks, hp, htext⟩ := Sc.generate_items cfg d' text hgen
  exact ⟨_, blocks, text, d', rfl, hperm, rfl, hp, htext, hp.mono fun it b hw => Sc.block_defines cfg it b hw⟩

/-- **emission, Go** -/
theorem emission_go (E : Ext) (cfg : Go.Cfg) (targetOs : List Str)
    (pick : List ImportedType → Option ImportedType) (f : SourceFile) (outs : List (Str × Str))
    (h : run E (.go cfg) false targetOs pick [f] = .ok (.outputs outs)) :
    parseErrs E (ctxOf (.go cfg) targetOs) f.file = [] ∧
    (emitted E (.go cfg) targetOs f).length = (sourceItems (ctxOf (.go cfg) targetOs) f.file).length ∧
    (emitted E (.go cfg) targetOs f = [] → outs = []) ∧
    (emitted E (.go cfg) targetOs f ≠ [] → ∃ items blocks st' text,
      outs = [(f.crateName, text)] ∧ items.Perm (emitted E (.go cfg) targetOs f) ∧
      Threaded (Go.writeItem E.U cfg (Go.typesMappingToStruct items)) items (Go.addImport [] s%"encoding/json") blocks st' ∧
      text = Go.beginFile cfg ++ Go.renderImports st' ++ blocks.flatten ∧
      Paired (fun it b => ∃ defs, goDefs E.U cfg it = .ok defs ∧ SplitsInto defs b) items blocks) := by
  obtain ⟨herr, hlen, hnil, hcons⟩ := run_outputs E _ targetOs pick f outs h
  refine ⟨herr, by rw [emitted_length]; exact hlen, fun he => hnil (by simpa [emitted] using he), ?_⟩
  intro he
  obtain ⟨d', hperm, _, _, hg⟩ := hcons (by simpa [emitted] using he)
  simp only [genAll, C03E.Go.generateAll_single] at hg
  obtain ⟨⟨text, st'⟩, hgen, hg⟩ := bindOk hg
  cases hg
  obtain ⟨items, blocks, ho, ht, htext⟩ := C03E.Go.generate_blocks E.U cfg d' [] text st' hgen
  exact ⟨items, blocks, st', text, rfl, (C12L.generateOrder_perm d' items ho).trans hperm, ht, htext,
    ht.forall₂.mono fun it b ⟨s, s', hw⟩ => C03E.Go.block_defines E.U cfg _ it s b s' hw⟩

/-- **emission, Python** -/
theorem emission_python (E : Ext) (cfg : Python.Cfg) (targetOs : List Str)
    (pick : List ImportedType → Option ImportedType) (f : SourceFile) (outs : List (Str × Str))
    (h : run E (.python cfg) false targetOs pick [f] = .ok (.outputs outs)) :
    parseErrs E (ctxOf (.python cfg) targetOs) f.file = [] ∧
    (emitted E (.python cfg) targetOs f).length = (sourceItems (ctxOf (.python cfg) targetOs) f.file).length ∧
    (emitted E (.python cfg) targetOs f = [] → outs = []) ∧
    (emitted E (.python cfg) targetOs f ≠ [] → ∃ items blocks st1 text,
      outs = [(f.crateName, text)] ∧ items.Perm (emitted E (.python cfg) targetOs f) ∧
      Threaded (Python.writeItem E cfg) items {} blocks st1 ∧
      text = Python.beginFile cfg ++ Python.writeAllImports (Python.addDatetimeImport st1) ++
        Python.writeCustomFns (Python.addDatetimeImport st1) ++ blocks.flatten ∧
      Paired (fun it b => SplitsInto (pyDefs E it) b) items blocks) := by
  obtain ⟨herr, hlen, hnil, hcons⟩ := run_outputs E _ targetOs pick f outs h
  refine ⟨herr, by rw [emitted_length]; exact hlen, fun he => hnil (by simpa [emitted] using he), ?_⟩
  intro he
  obtain ⟨d', hperm, _, _, hg⟩ := hcons (by simpa [emitted] using he)
  simp only [genAll, Py.generateAll_single] at hg
  obtain ⟨⟨text, st'⟩, hgen, hg⟩ := bindOk hg
  cases hg
  obtain ⟨items, blocks, st1, ho, ht, rfl, htext⟩ := Py.generate_blocks E cfg d' {} text st' hgen
  exact ⟨items, blocks, st1, text, rfl, (C12L.generateOrder_perm d' items ho).trans hperm, ht, htext,
    ht.forall₂.mono fun it b ⟨s, s', hw⟩ => Py.block_defines E cfg it s b s' hw⟩

/-! ### consts: TypeScript, Go and Python print them; the other three fail the run -/

theorem kotlin_no_const (E : Ext) (cfg : Kotlin.Cfg) (targetOs : List Str)
    (pick : List ImportedType → Option ImportedType) (f : SourceFile) (outs : List (Str × Str))
    (h : run E (.kotlin cfg) false targetOs pick [f] = .ok (.outputs outs)) :
    ∀ it ∈ parsedItems E (ctxOf (.kotlin cfg) targetOs) f.file, isConst it = false := by
  intro it hit
  obtain ⟨_, _, _, hcons⟩ := emission_kotlin E cfg targetOs pick f outs h
  have hne : emitted E (.kotlin cfg) targetOs f ≠ [] := by
    intro he; simp [emitted] at he; rw [he] at hit; simp at hit
  obtain ⟨items, blocks, text, d', _, hperm, hp, _, _, _⟩ := hcons hne
  have hmem : recItem f.crateName (renamesFor f.crateName (parsedItems E (ctxOf (.kotlin cfg) targetOs) f.file)) it ∈ items :=
    hperm.symm.subset (List.mem_map.2 ⟨it, hit, rfl⟩)
  obtain ⟨k, hk⟩ := List.getElem?_of_mem hmem
  obtain ⟨b, _, hw⟩ := hp.nth k _ hk
  rw [← isConst_rec f.crateName (renamesFor f.crateName (parsedItems E (ctxOf (.kotlin cfg) targetOs) f.file)) it]
  cases hr : recItem f.crateName (renamesFor f.crateName (parsedItems E (ctxOf (.kotlin cfg) targetOs) f.file)) it with
  | const c => rw [hr] at hw; simp [Kt.writeItem_not_const] at hw
  | struct s => rfl
  | alias a => rfl
  | «enum» e => rfl

theorem swift_no_const (E : Ext) (cfg : Swift.Cfg) (targetOs : List Str)
    (pick : List ImportedType → Option ImportedType) (f : SourceFile) (outs : List (Str × Str))
    (h : run E (.swift cfg) false targetOs pick [f] = .ok (.outputs outs)) :
    ∀ it ∈ parsedItems E (ctxOf (.swift cfg) targetOs) f.file, isConst it = false := by
  intro it hit
  obtain ⟨_, _, _, hcons⟩ := emission_swift E cfg targetOs pick f outs h
  have hne : emitted E (.swift cfg) targetOs f ≠ [] := by
    intro he; simp [emitted] at he; rw [he] at hit; simp at hit
  obtain ⟨items, blocks, st', text, _, hperm, ht, _, _⟩ := hcons hne
  have hmem : recItem f.crateName (renamesFor f.crateName (parsedItems E (ctxOf (.swift cfg) targetOs) f.file)) it ∈ items :=
    hperm.symm.subset (List.mem_map.2 ⟨it, hit, rfl⟩)
  obtain ⟨s, b, s', hw⟩ := ht.all_ok _ hmem
  rw [← isConst_rec f.crateName (renamesFor f.crateName (parsedItems E (ctxOf (.swift cfg) targetOs) f.file)) it]
  cases hr : recItem f.crateName (renamesFor f.crateName (parsedItems E (ctxOf (.swift cfg) targetOs) f.file)) it with
  | const c => rw [hr] at hw; simp [Sw.writeItem_not_const] at hw
  | struct s => rfl
  | alias a => rfl
  | «enum» e => rfl

theorem scala_no_const (E : Ext) (cfg : Scala.Cfg) (targetOs : List Str)
    (pick : List ImportedType → Option ImportedType) (f : SourceFile) (outs : List (Str × Str))
    (h : run E (.scala cfg) false targetOs pick [f] = .ok (.outputs outs)) :
    ∀ it ∈ parsedItems E (ctxOf (.scala cfg) targetOs) f.file, isConst it = false := by
  intro it hit
  obtain ⟨_, _, _, hcons⟩ := emission_scala E cfg targetOs pick f outs h
  have hne : emitted E (.scala cfg) targetOs f ≠ [] := by
    intro he; simp [emitted] at he; rw [he] at hit; simp at hit
  obtain ⟨items, blocks, text, d', _, hperm, _, hp, _, _⟩ := hcons hne
  have hmem : recItem f.crateName (renamesFor f.crateName (parsedItems E (ctxOf (.scala cfg) targetOs) f.file)) it ∈ items :=
    hperm.symm.subset (List.mem_map.2 ⟨it, hit, rfl⟩)
  obtain ⟨k, hk⟩ := List.getElem?_of_mem hmem
  obtain ⟨b, _, hw⟩ := hp.nth k _ hk
  rw [← isConst_rec f.crateName (renamesFor f.crateName (parsedItems E (ctxOf (.scala cfg) targetOs) f.file)) it]
  cases hr : recItem f.crateName (renamesFor f.crateName (parsedItems E (ctxOf (.scala cfg) targetOs) f.file)) it with
  | const c => rw [hr] at hw; simp [Sc.writeItem] at hw
  | struct s => rfl
  | alias a => rfl
  | «enum» e => rfl

/-- Scala checks up front: with a package configured, any const is exactly this error -/
theorem scala_const_error (cfg : Scala.Cfg) (d : ParsedData) (hp : cfg.package.isEmpty = false) (hc : d.consts ≠ []) :
    Scala.generate cfg d = .err (.formatError s%"ConstUnsupported") := Sc.generate_const cfg d hp hc

/-! ## the whole clause -/

/-- C03, emission clause, at full strength over the model: for every back end, configuration and
single source file, a run that produces output has parsed every annotated accepted item and
printed exactly one block for each, each block making exactly the definitions of its item -/
def C03_Emission_full : Prop :=
  ∀ (E : Ext) (lang : LangCfg) (targetOs : List Str) (pick : List ImportedType → Option ImportedType)
    (f : SourceFile) (outs : List (Str × Str)),
    run E lang false targetOs pick [f] = .ok (.outputs outs) →
    parseErrs E (ctxOf lang targetOs) f.file = [] ∧
    (emitted E lang targetOs f).length = (sourceItems (ctxOf lang targetOs) f.file).length ∧
    (emitted E lang targetOs f = [] → outs = []) ∧
    (emitted E lang targetOs f ≠ [] → ∃ (items : List RustItem) (blocks : List Str) (header mid footer text : Str) (n : Nat),
      outs = [(f.crateName, text)] ∧ items.Perm (emitted E lang targetOs f) ∧ blocks.length = items.length ∧
      text = header ++ (blocks.take n).flatten ++ mid ++ (blocks.drop n).flatten ++ footer ∧
      Paired (fun it b =>
        match lang with
        | .typescript _ => SplitsInto (tsDefs E.U it) b
        | .kotlin cfg => SplitsInto (ktDefs cfg it) b
        | .swift cfg => SplitsInto (swDefs cfg it) b
        | .scala _ => SplitsInto (scDefs it) b
        | .go cfg => ∃ defs, goDefs E.U cfg it = .ok defs ∧ SplitsInto defs b
        | .python _ => SplitsInto (pyDefs E it) b) items blocks)

theorem C03_Emission : C03_Emission_full := by
  intro E lang targetOs pick f outs h
  cases lang with
  | typescript cfg =>
    obtain ⟨h1, h2, h3, h4⟩ := emission_typescript E cfg targetOs pick f outs h
    refine ⟨h1, h2, h3, fun he => ?_⟩
    obtain ⟨items, blocks, st', text, ho, hp, ht, htext, hd⟩ := h4 he
    exact ⟨items, blocks, TS.header cfg none, [], TypeScript.endFile st', text, 0, ho, hp, ht.length,
      by simp [htext], hd⟩
  | kotlin cfg =>
    obtain ⟨h1, h2, h3, h4⟩ := emission_kotlin E cfg targetOs pick f outs h
    refine ⟨h1, h2, h3, fun he => ?_⟩
    obtain ⟨items, blocks, text, d', ho, hp, hpa, _, htext, hd⟩ := h4 he
    exact ⟨items, blocks, Kt.header cfg d' none, [], [], text, 0, ho, hp, hpa.length_eq.symm, by simp [htext], hd⟩
  | swift cfg =>
    obtain ⟨h1, h2, h3, h4⟩ := emission_swift E cfg targetOs pick f outs h
    refine ⟨h1, h2, h3, fun he => ?_⟩
    obtain ⟨items, blocks, st', text, ho, hp, ht, htext, hd⟩ := h4 he
    exact ⟨items, blocks, Swift.beginFile cfg, [], Swift.endFile cfg false st', text, 0, ho, hp, ht.length,
      by simp [htext], hd⟩
  | scala cfg =>
    obtain ⟨h1, h2, h3, h4⟩ := emission_scala E cfg targetOs pick f outs h
    refine ⟨h1, h2, h3, fun he => ?_⟩
    obtain ⟨items, blocks, text, d', ho, hp, _, hpa, htext, hd⟩ := h4 he
    exact ⟨items, blocks, Sc.pre cfg d', Sc.mid cfg d', Sc.post d', text, d'.aliases.length, ho, hp,
      hpa.length_eq.symm, htext, hd⟩
  | go cfg =>
    obtain ⟨h1, h2, h3, h4⟩ := emission_go E cfg targetOs pick f outs h
    refine ⟨h1, h2, h3, fun he => ?_⟩
    obtain ⟨items, blocks, st', text, ho, hp, ht, htext, hd⟩ := h4 he
    exact ⟨items, blocks, Go.beginFile cfg ++ Go.renderImports st', [], [], text, 0, ho, hp, ht.length,
      by simp [htext], hd⟩
  | python cfg =>
    obtain ⟨h1, h2, h3, h4⟩ := emission_python E cfg targetOs pick f outs h
    refine ⟨h1, h2, h3, fun he => ?_⟩
    obtain ⟨items, blocks, st', text, ho, hp, ht, htext, hd⟩ := h4 he
    exact ⟨items, blocks, Python.beginFile cfg ++ Python.writeAllImports (Python.addDatetimeImport st') ++
      Python.writeCustomFns (Python.addDatetimeImport st'), [], [],
      text, 0, ho, hp, ht.length, by simp [htext], hd⟩

/-! ## non-vacuity: a file with an un-annotated struct and an annotated tagged enum that has a unit
variant and a struct variant with one kept and one skipped field -/
open TsV.Syn

def E0 : Ext := { U := .ascii, parseType := fun _ => none }

def tsAttr : Attr := ⟨.path [s%"typeshare"]⟩
def serdeTagged : Attr :=
  ⟨.list [s%"serde"] true [.nameValue [s%"tag"] (some (.str s%"type")), .nameValue [s%"content"] (some (.str s%"content"))]⟩

/-- `struct Plain;  #[typeshare] #[serde(tag = "type", content = "content")] enum E { A, V { x: u8, #[serde(skip)] y: u8 } }` -/
def exItems : List Item :=
  [.struct [] s%"Plain" [] .unit,
   .enum [tsAttr, serdeTagged] s%"E" []
     [⟨[], s%"A", .unit⟩,
      ⟨[], s%"V", .named [⟨[], some s%"x", .path [] s%"u8" []⟩,
                          ⟨[⟨.list [s%"serde"] true [.path [s%"skip"]]⟩], some s%"y", .path [] s%"u8" []⟩]⟩]]

def exSrc : SourceFile :=
  { crateName := [], fileName := s%"lib.rs", path := s%"lib.rs", file := { attrs := [], marker := true, items := exItems } }

def ctx0 : ParseContext := { ignoredTypes := [], multiFile := false, targetOs := [] }

example : (sourceItems ctx0 exSrc.file).length = 1 := by decide +kernel
example : parseErrs E0 ctx0 exSrc.file = [] := by decide +kernel
example : (parsedItems E0 ctx0 exSrc.file).map RustItem.originalName = [s%"E"] := by decide +kernel

def exItem : RustItem := (parsedItems E0 ctx0 exSrc.file).head!

theorem exParsed : parsedItems E0 ctx0 exSrc.file = [exItem] := by rfl


/-- the item the back ends receive -/
def exRec : RustItem := recItem [] (renamesFor [] [exItem]) exItem

theorem exOrder (d' : ParsedData) (h : C12L.itemsOf d' = [exRec]) : Pipeline.generateOrder d' = some [exRec] := by
  show Deps.topsort (C12L.itemsOf d') = _
  rw [h]
  exact C12L.topsort_single _ (by decide +kernel)

/-- TypeScript: the run of the example file produces one output file -/
example : ∃ outs, run E0 (.typescript {}) false [] (fun _ => none) [exSrc] = .ok (.outputs outs) ∧ outs.length = 1 := by
  obtain ⟨d', hitems, hmf, hcr, hrun⟩ :=
    run_single_one E0 (.typescript {}) [] (fun _ => none) exSrc exItem exParsed (by decide +kernel)
  have ho := exOrder d' hitems
  have hw : (TypeScript.writeItems E0.U {} [exRec] []).isOk = true := by decide +kernel
  obtain ⟨⟨body, st⟩, hw⟩ := (Outcome.isOk_iff _).1 hw
  rw [hrun]
  simp only [genAll, TS.generateAll_single, TypeScript.generate, ho, hw, Outcome.bind_ok]
  exact ⟨_, rfl, rfl⟩


/-- what the blocks of the example have to define, per back end: the helper struct of the struct
variant `V` (TypeScript prints it inline) and the enum -/
example : tsDefs E0.U exRec = [(s%"export type ", s%"E")] := by decide +kernel
example : ktDefs {} exRec = [(s%"data class ", s%"EVInner"), (s%"sealed class ", s%"E")] := by decide +kernel
example : swDefs {} exRec = [(s%"public struct ", s%"EVInner"), (s%"public enum ", s%"E")] := by decide +kernel
example : scDefs exRec = [(s%"case class ", s%"EVInner"), (s%"sealed trait ", s%"E"), (s%"object ", s%"E")] := by
  decide +kernel
example : goDefs E0.U {} exRec = .ok [(s%"type ", s%"EVInner"), (s%"type ", s%"ETypes"), (s%"type ", s%"E")] := by
  decide +kernel
example : pyDefs E0 exRec = [(s%"class ", s%"EVInner"), (s%"class ", s%"ETypes"), (s%"class ", s%"EA"),
    (s%"class ", s%"EV"), ([], s%"E")] := by decide +kernel

/-- the hypotheses of `defines_*` are met: every back end writes the block of the example item -/
example : (TypeScript.writeItem E0.U {} exRec []).isOk = true := by decide +kernel
example : (Kt.writeItem {} exRec).isOk = true := by decide +kernel
example : (Swift.writeItem E0.U {} exRec false).isOk = true := by decide +kernel
example : (Sc.writeItem {} exRec).isOk = true := by decide +kernel
example : (Go.writeItem E0.U {} [] exRec []).isOk = true := by decide +kernel
example : (Python.writeItem E0 {} exRec {}).isOk = true := by decide +kernel

example : ∃ outs, run E0 (.kotlin {}) false [] (fun _ => none) [exSrc] = .ok (.outputs outs) ∧ outs.length = 1 := by
  obtain ⟨d', hitems, hmf, hcr, hrun⟩ :=
    run_single_one E0 (.kotlin {}) [] (fun _ => none) exSrc exItem exParsed (by decide +kernel)
  have ho := exOrder d' hitems
  have hw : (Kotlin.itemsFacts {} [exRec]).isOk = true := by decide +kernel
  obtain ⟨ds, hw⟩ := (Outcome.isOk_iff _).1 hw
  rw [hrun]
  simp only [genAll, Kt.generateAll_single, Kotlin.generate, ho, hw, Outcome.bind_ok]
  exact ⟨_, rfl, rfl⟩

example : ∃ outs, run E0 (.swift {}) false [] (fun _ => none) [exSrc] = .ok (.outputs outs) ∧ outs.length = 1 := by
  obtain ⟨d', hitems, hmf, hcr, hrun⟩ :=
    run_single_one E0 (.swift {}) [] (fun _ => none) exSrc exItem exParsed (by decide +kernel)
  have ho := exOrder d' hitems
  have hw : (Swift.writeItems E0.U {} [exRec] false).isOk = true := by decide +kernel
  obtain ⟨⟨body, st⟩, hw⟩ := (Outcome.isOk_iff _).1 hw
  rw [hrun]
  simp only [genAll, Sw.generateAll_single, Swift.generate, ho, hw, Outcome.bind_ok]
  exact ⟨_, rfl, rfl⟩

example : ∃ outs, run E0 (.go {}) false [] (fun _ => none) [exSrc] = .ok (.outputs outs) ∧ outs.length = 1 := by
  obtain ⟨d', hitems, hmf, hcr, hrun⟩ :=
    run_single_one E0 (.go {}) [] (fun _ => none) exSrc exItem exParsed (by decide +kernel)
  have ho := exOrder d' hitems
  have hw : (Go.writeItems E0.U {} (Go.typesMappingToStruct [exRec]) [exRec] (Go.addImport [] s%"encoding/json")).isOk = true := by
    decide +kernel
  obtain ⟨⟨body, st⟩, hw⟩ := (Outcome.isOk_iff _).1 hw
  rw [hrun]
  simp only [genAll, C03E.Go.generateAll_single, Go.generate, ho, hw, Outcome.bind_ok]
  exact ⟨_, rfl, rfl⟩

example : ∃ outs, run E0 (.python {}) false [] (fun _ => none) [exSrc] = .ok (.outputs outs) ∧ outs.length = 1 := by
  obtain ⟨d', hitems, hmf, hcr, hrun⟩ :=
    run_single_one E0 (.python {}) [] (fun _ => none) exSrc exItem exParsed (by decide +kernel)
  have ho := exOrder d' hitems
  have hw : (Python.writeItems E0 {} [exRec] {}).isOk = true := by decide +kernel
  obtain ⟨⟨body, st⟩, hw⟩ := (Outcome.isOk_iff _).1 hw
  rw [hrun]
  simp only [genAll, Py.generateAll_single, Python.generate, ho, hw, Outcome.bind_ok]
  exact ⟨_, rfl, rfl⟩


def exEnum : RustEnum := match exRec with | .enum e => e | _ => default
theorem exRec_eq : exRec = .enum exEnum := by rfl

example : ∃ outs, run E0 (.scala { package := s%"com.p" }) false [] (fun _ => none) [exSrc] = .ok (.outputs outs) ∧
    outs.length = 1 := by
  obtain ⟨d', hitems, hmf, hcr, hrun⟩ :=
    run_single_one E0 (.scala { package := s%"com.p" }) [] (fun _ => none) exSrc exItem exParsed (by decide +kernel)
  have hitems' : C12L.itemsOf d' = [.enum exEnum] := by rw [hitems]; exact congrArg (fun x => [x]) exRec_eq
  obtain ⟨h1, h2, h3, h4⟩ := C03E.itemsOf_enum d' exEnum hitems'
  have hgen : Scala.generate { package := s%"com.p" } d' = Scala.generate { package := s%"com.p" } { enums := [exEnum] } := by
    simp [Scala.generate, Scala.fileFacts, Scala.unsignedIntegerUsed, Scala.scannedTypes, h1, h2, h3, h4]
  have hw : (Scala.generate { package := s%"com.p" } { enums := [exEnum] }).isOk = true := by decide +kernel
  obtain ⟨text, hw⟩ := (Outcome.isOk_iff _).1 hw
  rw [hrun]
  simp only [genAll, Sc.generateAll_single, hgen, hw, Outcome.bind_ok]
  exact ⟨_, rfl, rfl⟩

/-- a const: TypeScript, Go and Python write a block for it, the other three refuse -/
def exConst : RustItem := .const { id := ⟨s%"MAX", s%"MAX", false⟩, ty := .prim .u32, expr := 7 }
example : tsDefs E0.U exConst = [(s%"export const ", s%"MAX")] := by decide +kernel
example : (TypeScript.writeItem E0.U {} exConst []).isOk = true ∧ (Go.writeItem E0.U {} [] exConst []).isOk = true ∧
    (Python.writeItem E0 {} exConst {}).isOk = true := by decide +kernel
example : (Kt.writeItem {} exConst).isOk = false ∧ (Swift.writeItem E0.U {} exConst false).isOk = false ∧
    (Sc.writeItem {} exConst).isOk = false := by decide +kernel

end TsV.C03_Emission
