import TsV.Model.Parser
/-!
# C15 — a doc attribute without text contributes nothing and removes nothing

`parse_comment_attrs` (model: `Parser.parseCommentAttrs`) keeps, of an attribute list, the `doc = "literal"`
name-values and nothing else; `expr_to_string` answers `None` for every other shape and `filter_map` drops it.
The round-14 seed ("one text-less doc attribute empties the whole documentation") is excluded by:

* `carriesText a`: `a` is `#[doc = "<string literal>"]` (this includes `///` and `/** */` comments, which are
  that attribute).  `textOf a` is the literal.
* `C15_Textless : C15_Textless_full` — for every attribute list
  `parseCommentAttrs E attrs = parseCommentAttrs E (attrs.filter carriesText)`; two lists with the same
  text-carrying attributes in the same order have the same comments (`same_text_same_comments`); inserting any
  number of text-less attributes at any place leaves the comments unchanged (`insert_textless`, and
  `interleave_textless` for several places at once).
* "removes nothing": the comment list is the concatenation, in attribute order, of the lines of each
  text-carrying attribute (`comments_append`, `comments_cons_text`, `comments_eq_flatMap`): every doc line is
  there, whatever stands between the doc attributes.
* the forms the test part uses are text-less: `doc(hidden)`, `doc(alias = "x")`, `doc = include_str!(..)`
  (a non-literal value), `doc = 3`, `doc = 1.5`, a bare `doc`, `cfg_attr(all(), doc = "x")`, and a `doc`
  reached through a longer path (`a::doc = "x"`) — `textless_forms`, kernel-checked.
-/
namespace TsV.C15_Textless
open TsV TsV.Syn TsV.Parser

/-- the attribute is `#[doc = "<string literal>"]` -/
def carriesText (a : Attr) : Bool :=
  match a.val with
  | .nameValue segs (some (.str _)) => segs == [s%"doc"]
  | _ => false

/-- the literal of a text-carrying attribute -/
def textOf (a : Attr) : Option Str :=
  match a.val with
  | .nameValue segs (some (.str s)) => if segs == [s%"doc"] then some s else none
  | _ => none

/-- a `doc` attribute (any shape) that carries no string literal: `doc(hidden)`, `doc(alias = ..)`,
`doc = <non-literal>`, `doc = 3`, bare `doc` -/
def textlessDoc (a : Attr) : Bool := a.val.isIdent s%"doc" && !carriesText a

/-- **the statement**: the comments of an attribute list are those of its text-carrying attributes; and
text-less attributes inserted anywhere, in any number, change nothing -/
def C15_Textless_full : Prop :=
  ∀ (E : Ext),
    (∀ attrs : List Attr, parseCommentAttrs E attrs = parseCommentAttrs E (attrs.filter carriesText)) ∧
    (∀ pre ins post : List Attr, (∀ a ∈ ins, carriesText a = false) →
      parseCommentAttrs E (pre ++ ins ++ post) = parseCommentAttrs E (pre ++ post)) ∧
    (∀ attrs attrs' : List Attr, attrs'.filter carriesText = attrs.filter carriesText →
      parseCommentAttrs E attrs' = parseCommentAttrs E attrs)

theorem carriesText_iff (a : Attr) : carriesText a = true ↔ (textOf a).isSome = true := by
  unfold carriesText textOf
  split
  · split <;> simp_all
  · simp

theorem textOf_none (a : Attr) (h : carriesText a = false) : textOf a = none := by
  have := carriesText_iff a
  cases ht : textOf a with
  | none => rfl
  | some s => rw [ht] at this; simp [h] at this

theorem docStrings_eq (attrs : List Attr) : docStrings attrs = attrs.filterMap textOf := rfl

/-- the string literals read from a list are those of its text-carrying attributes -/
theorem docStrings_filter (attrs : List Attr) : docStrings (attrs.filter carriesText) = docStrings attrs := by
  simp only [docStrings_eq]
  induction attrs with
  | nil => rfl
  | cons a as ih =>
    cases hc : carriesText a with
    | true => simp only [List.filter_cons_of_pos hc, List.filterMap_cons, ih]
    | false =>
      have hcf : ¬ carriesText a = true := by simp [hc]
      simp only [List.filter_cons_of_neg hcf, List.filterMap_cons, textOf_none a hc, ih]

theorem docStrings_append (l₁ l₂ : List Attr) : docStrings (l₁ ++ l₂) = docStrings l₁ ++ docStrings l₂ := by
  simp [docStrings_eq, List.filterMap_append]

theorem docStrings_textless (ins : List Attr) (h : ∀ a ∈ ins, carriesText a = false) : docStrings ins = [] := by
  rw [docStrings_eq, List.filterMap_eq_nil_iff]
  intro a ha
  exact textOf_none a (h a ha)

/-- the comments of a list are those of its text-carrying attributes -/
theorem comments_filter (E : Ext) (attrs : List Attr) :
    parseCommentAttrs E attrs = parseCommentAttrs E (attrs.filter carriesText) := by
  unfold parseCommentAttrs
  rw [docStrings_filter]

/-- two lists with the same text-carrying attributes in the same order have the same comments -/
theorem same_text_same_comments (E : Ext) (attrs attrs' : List Attr)
    (h : attrs'.filter carriesText = attrs.filter carriesText) :
    parseCommentAttrs E attrs' = parseCommentAttrs E attrs := by
  rw [comments_filter E attrs', comments_filter E attrs, h]

/-- **nothing is removed**: the comment list of a concatenation is the concatenation of the comment lists -/
theorem comments_append (E : Ext) (l₁ l₂ : List Attr) :
    parseCommentAttrs E (l₁ ++ l₂) = parseCommentAttrs E l₁ ++ parseCommentAttrs E l₂ := by
  simp [parseCommentAttrs, docStrings_append, docEntries, List.flatMap_append]

/-- a text-less block contributes nothing -/
theorem comments_textless (E : Ext) (ins : List Attr) (h : ∀ a ∈ ins, carriesText a = false) :
    parseCommentAttrs E ins = [] := by
  simp [parseCommentAttrs, docStrings_textless ins h, docEntries]

/-- a text-carrying attribute contributes exactly the trimmed lines of its trimmed literal, in front of what
follows -/
theorem comments_cons_text (E : Ext) (a : Attr) (s : Str) (rest : List Attr) (h : textOf a = some s) :
    parseCommentAttrs E (a :: rest) = splitCommentLines E.U (E.U.trim s) ++ parseCommentAttrs E rest := by
  simp [parseCommentAttrs, docStrings_eq, h, docEntries]

/-- a text-less attribute in front contributes nothing -/
theorem comments_cons_textless (E : Ext) (a : Attr) (rest : List Attr) (h : carriesText a = false) :
    parseCommentAttrs E (a :: rest) = parseCommentAttrs E rest := by
  simp [parseCommentAttrs, docStrings_eq, textOf_none a h]

/-- the whole comment list: per attribute, in order, the lines of its literal — or nothing -/
theorem comments_eq_flatMap (E : Ext) (attrs : List Attr) :
    parseCommentAttrs E attrs = attrs.flatMap fun a =>
      match textOf a with
      | some s => splitCommentLines E.U (E.U.trim s)
      | none => [] := by
  induction attrs with
  | nil => rfl
  | cons a as ih =>
    rw [List.flatMap_cons, ← ih]
    cases ht : textOf a with
    | some s => exact comments_cons_text E a s as ht
    | none =>
      have : carriesText a = false := by
        cases hc : carriesText a with
        | false => rfl
        | true => rw [(carriesText_iff a).mp hc |> Option.isSome_iff_exists.mp |>.choose_spec] at ht; cases ht
      simpa using comments_cons_textless E a as this

/-- **inserting text-less attributes** — any number, at any place — leaves the comment list unchanged -/
theorem insert_textless (E : Ext) (pre ins post : List Attr) (h : ∀ a ∈ ins, carriesText a = false) :
    parseCommentAttrs E (pre ++ ins ++ post) = parseCommentAttrs E (pre ++ post) := by
  rw [comments_append, comments_append, comments_textless E ins h, List.append_nil, ← comments_append]

/-- at several places at once: text-less blocks `gaps` before, between and after the attributes -/
def interleave : List (List Attr) → List Attr → List Attr
  | g :: gs, a :: as => g ++ a :: interleave gs as
  | g :: _, [] => g
  | [], as => as

theorem interleave_textless (E : Ext) : ∀ (gaps : List (List Attr)) (attrs : List Attr),
    (∀ g ∈ gaps, ∀ a ∈ g, carriesText a = false) →
    parseCommentAttrs E (interleave gaps attrs) = parseCommentAttrs E attrs
  | [], _, _ => rfl
  | g :: _, [], h => by
    simp only [interleave]
    exact comments_textless E g (h g (List.mem_cons_self ..))
  | g :: gs, a :: as, h => by
    simp only [interleave]
    have hg := h g (List.mem_cons_self ..)
    have ih := interleave_textless E gs as fun g' hg' => h g' (List.mem_cons_of_mem _ hg')
    rw [comments_append, comments_textless E g hg, List.nil_append]
    rw [show a :: interleave gs as = [a] ++ interleave gs as from rfl, comments_append, ih,
      ← comments_append]
    rfl

/-- a text-less `doc` attribute is in particular text-less -/
theorem textlessDoc_textless (a : Attr) (h : textlessDoc a = true) : carriesText a = false := by
  simp only [textlessDoc, Bool.and_eq_true, Bool.not_eq_true'] at h
  exact h.2

/-- **C15_Textless.** -/
theorem C15_Textless : C15_Textless_full := fun E =>
  ⟨comments_filter E, insert_textless E, fun attrs attrs' h => same_text_same_comments E attrs attrs' h⟩

/-! ## the forms of the test part, kernel-checked -/

def docHidden : Attr := ⟨.list [s%"doc"] true [.path [s%"hidden"]]⟩
def docAlias : Attr := ⟨.list [s%"doc"] true [.nameValue [s%"alias"] (some (.str s%"x"))]⟩
def docNonLiteral : Attr := ⟨.nameValue [s%"doc"] none⟩          -- `doc = include_str!("x.md")`, `doc = concat!(..)`
def docInt : Attr := ⟨.nameValue [s%"doc"] (some (.int 3 []))⟩
def docOtherLit : Attr := ⟨.nameValue [s%"doc"] (some .other)⟩    -- `doc = 1.5`, `doc = true`, `doc = b"x"`
def docBare : Attr := ⟨.path [s%"doc"]⟩
def docUnparsed : Attr := ⟨.list [s%"doc"] false []⟩
def cfgAttrDoc : Attr := ⟨.list [s%"cfg_attr"] true [.list [s%"all"] true [], .nameValue [s%"doc"] (some (.str s%"x"))]⟩
def longPathDoc : Attr := ⟨.nameValue [s%"a", s%"doc"] (some (.str s%"x"))⟩
def docText (s : Str) : Attr := ⟨.nameValue [s%"doc"] (some (.str s))⟩

def textlessForms : List Attr :=
  [docHidden, docAlias, docNonLiteral, docInt, docOtherLit, docBare, docUnparsed, cfgAttrDoc, longPathDoc]

theorem textless_forms : ∀ a ∈ textlessForms, carriesText a = false := by decide +kernel

/-- the first seven are `doc` attributes -/
theorem textless_doc_forms :
    ∀ a ∈ [docHidden, docAlias, docNonLiteral, docInt, docOtherLit, docBare, docUnparsed], textlessDoc a = true := by
  decide +kernel

theorem docText_carries (s : Str) : carriesText (docText s) = true ∧ textOf (docText s) = some s := by
  simp [carriesText, textOf, docText]

/-! ## non-vacuity -/

def wE : Ext := { U := .ascii, parseType := fun _ => none }

/-- `/// one` `#[doc(hidden)]` `/// two` `#[doc = include_str!(..)]` `#[doc(alias = "x")]` `/// three\n four` -/
def mixed : List Attr :=
  [docText s%" one", docHidden, docText s%" two", docNonLiteral, docAlias, docText s%" three\n four"]

example : parseCommentAttrs wE mixed = [s%"one", s%"two", s%"three", s%"four"] := by decide +kernel
example : (mixed.filter carriesText).length = 3 ∧ mixed.length = 6 := by decide +kernel
/-- the hypotheses of `insert_textless` / `interleave_textless` are met by the nine forms at once -/
example : parseCommentAttrs wE ([docText s%" one"] ++ textlessForms ++ [docText s%" two"]) = [s%"one", s%"two"] := by
  rw [insert_textless wE _ _ _ textless_forms]; decide +kernel
example : interleave [[docHidden], [docAlias, docInt], [docBare]] [docText s%"a", docText s%"b"] =
    [docHidden, docText s%"a", docAlias, docInt, docText s%"b", docBare] := rfl
/-- through the item parser: the struct's and the field's comments survive text-less attributes around them -/
example : (match parseStruct wE [] ([⟨.path [s%"typeshare"]⟩, docHidden, docText s%" top", docAlias]) s%"S" []
      (.named [⟨[docNonLiteral, docText s%" field", docHidden], some s%"x", .path [] s%"u8" []⟩]) with
    | .ok (.struct s) => (s.comments, s.fields.map (·.comments)) | _ => ([], [])) =
    ([s%"top"], [[s%"field"]]) := by decide +kernel

end TsV.C15_Textless
