"""Abstract syn AST (python side): constructors, rendering to Rust source, s-expression encoding."""
from common import S

# ---- Meta: ("p", [segs]) | ("nv", [segs], lit|None) | ("l", [segs], parsed, [args], raw_tokens)
# ---- Lit: ("s", text) | ("i", value, suffix) | ("o", token_text)


def m_path(*segs):
    return ("p", list(segs))


def m_nv(name, lit):
    return ("nv", [name] if isinstance(name, str) else list(name), lit)


def m_list(name, args, parsed=True, raw=None):
    return ("l", [name] if isinstance(name, str) else list(name), parsed, list(args), raw)


def lit_s(text):
    return ("s", text)


def rust_str(text):
    out = ['"']
    for ch in text:
        if ch == '"':
            out.append('\\"')
        elif ch == "\\":
            out.append("\\\\")
        elif ch == "\n":
            out.append("\\n")
        elif ch == "\r":
            out.append("\\r")
        elif ch == "\t":
            out.append("\\t")
        elif ord(ch) < 32:
            out.append("\\u{%x}" % ord(ch))
        else:
            out.append(ch)
    out.append('"')
    return "".join(out)


def render_str_lit(text):
    """a string literal for `text`: usually the plain cooked form; sometimes (a function of the text and STYLE_SALT) a raw string,
    or the cooked form with its first character written as a \\u{..} escape - all of them denote the same value"""
    import zlib
    h = zlib.crc32(("lit|%s|%d" % (text, STYLE_SALT[0])).encode()) % 20
    simple = text and all(32 <= ord(ch) < 127 and ch not in '"\\' for ch in text)
    if simple and h == 0:
        return 'r"%s"' % text
    if simple and h == 1 and "#" not in text:
        return 'r#"%s"#' % text
    if text and h == 2 and 32 <= ord(text[0]) and text[0] not in '"\\':
        return '"\\u{%x}%s' % (ord(text[0]), rust_str(text[1:])[1:])
    return rust_str(text)


def render_lit(l):
    if l is None:
        return "some_path::VALUE"      # a non-literal expression
    if l[0] == "s":
        return render_str_lit(l[1])
    if l[0] == "i":
        return "%d%s" % (l[1], l[2])
    return l[1]


# Layout of attribute arguments.  rustc, syn and serde_derive read all of these identically, so the abstract AST (and the
# model's input) is the same; what varies is only the *text* the real tool is given (it looks at the text in a few places).
# The choice is a function of the attribute and of STYLE_SALT (set per check run), so a file always renders the same way.
STYLE_SALT = [0]
NV_STYLES = ["%s = %s"] * 6 + ["%s=%s", "%s  =  %s", "%s= %s", "%s /* = */ = %s"]
LIST_STYLES = [("(", ", ", ")")] * 6 + [("(", ", ", ",)"), ("( ", " , ", " )"), ("(", ",", ")"), ("(", ", ", ", )")]


def _style(m, table):
    import zlib
    return table[zlib.crc32(("%r|%d" % (m, STYLE_SALT[0])).encode()) % len(table)]


def render_meta(m):
    if m[0] == "p":
        return "::".join(m[1])
    if m[0] == "nv":
        return _style(m, NV_STYLES) % ("::".join(m[1]), render_lit(m[2]))
    if m[0] == "l":
        if not m[2]:
            return "%s(%s)" % ("::".join(m[1]), m[4])
        if not m[3]:
            return "%s()" % "::".join(m[1])
        o, sep, c = _style(m, LIST_STYLES)
        return "%s%s%s%s" % ("::".join(m[1]), o, sep.join(render_meta(a) for a in m[3]), c)
    raise ValueError(m)


def sx_lit(l):
    if l is None:
        return S("none")
    if l[0] == "s":
        return [S("s"), l[1]]
    if l[0] == "i":
        return [S("i"), l[1], l[2]]
    return S("o")


def sx_meta(m):
    if m[0] == "p":
        return [S("p")] + m[1]
    if m[0] == "nv":
        return [S("nv"), m[1], sx_lit(m[2])]
    if m[0] == "l":
        return [S("l"), m[1], bool(m[2])] + [sx_meta(a) for a in (m[3] if m[2] else [])]
    raise ValueError(m)


def render_attr(m, inner=False):
    return "#%s[%s]" % ("!" if inner else "", render_meta(m))


# ======================================================================= types
# ("tuple", [t]) | ("ref", t, mut) | ("path", [quals], last, [args], lifetime_noise) |
# ("array", t, n|None) | ("slice", t) | ("other", text)

def t_path(last, args=(), quals=(), lt=False):
    return ("path", list(quals), last, list(args), lt)


def render_type(t):
    k = t[0]
    if k == "tuple":
        if len(t[1]) == 1:
            return "(%s,)" % render_type(t[1][0])
        return "(%s)" % ", ".join(render_type(x) for x in t[1])
    if k == "ref":
        return "&%s%s" % ("mut " if t[2] else "", render_type(t[1]))
    if k == "path":
        _, quals, last, args, lt = t
        inner = (["'a"] if lt else []) + [render_type(a) for a in args]
        s = "::".join(list(quals) + [last])
        if inner:
            s += "<%s>" % ", ".join(inner)
        return s
    if k == "array":
        return "[%s; %s]" % (render_type(t[1]), t[2] if t[2] is not None else "N")
    if k == "slice":
        return "[%s]" % render_type(t[1])
    if k == "other":
        return t[1]
    raise ValueError(t)


def sx_type(t):
    k = t[0]
    if k == "tuple":
        return [S("tuple")] + [sx_type(x) for x in t[1]]
    if k == "ref":
        return [S("ref"), sx_type(t[1])]
    if k == "path":
        return [S("path"), list(t[1]), t[2]] + [sx_type(a) for a in t[3]]
    if k == "array":
        return [S("array"), sx_type(t[1]), t[2]]
    if k == "slice":
        return [S("slice"), sx_type(t[1])]
    if k == "other":
        return S("other")
    raise ValueError(t)


# ======================================================================= items
# attr: a Meta plus a rendering style for docs: ("doc", text, style) is expanded by `doc_attr`

def doc_attr(text, style):
    """style: 'line' (///), 'block' (/** */), 'attr' (#[doc = ".."])"""
    return ("nv", ["doc"], ("s", text), style)


def render_attr_any(a, inner=False):
    if a[0] == "nv" and a[1] == ["doc"] and len(a) > 3 and a[3] in ("line", "block"):
        text = a[2][1]
        if a[3] == "line":
            return ("//!" if inner else "///") + text + "\n"
        return ("/*!" if inner else "/**") + text + "*/ "
    return "#%s[%s] " % ("!" if inner else "", render_meta(a[:3] if a[0] == "nv" else a))


def sx_attr(a):
    return sx_meta(a[:3] if a[0] == "nv" else a)


def field(attrs, ident, ty):
    return {"attrs": attrs, "ident": ident, "ty": ty}


def render_fields(fs, indent="    "):
    kind = fs[0]
    if kind == "unit":
        return ""
    if kind == "named":
        body = "".join("%s%spub %s: %s,\n" % (indent, "".join(render_attr_any(a) for a in f["attrs"]), f["ident"], render_type(f["ty"]))
                       for f in fs[1])
        return " {\n%s%s}" % (body, indent[:-4])
    return "(%s)" % ", ".join("%s%s" % ("".join(render_attr_any(a) for a in f["attrs"]), render_type(f["ty"])) for f in fs[1])


def sx_field(f):
    return [S("f"), [sx_attr(a) for a in f["attrs"]], f["ident"], sx_type(f["ty"])]


def sx_fields(fs):
    if fs[0] == "unit":
        return S("unit")
    return [S(fs[0])] + [sx_field(f) for f in fs[1]]


def render_generics(gs):
    if not gs:
        return ""
    parts = []
    for g in gs:
        if g[0] == "ty":
            parts.append(g[1])
        elif g[0] == "lt":
            parts.append("'a")
        else:
            parts.append("const N: usize")
    # lifetimes must come first in Rust
    parts.sort(key=lambda p: 0 if p.startswith("'") else 1)
    return "<%s>" % ", ".join(parts)


def sx_generics(gs):
    order = sorted(gs, key=lambda g: 0 if g[0] == "lt" else 1)
    return [[S("ty"), g[1]] if g[0] == "ty" else S(g[0]) for g in order]


def render_use(t):
    k = t[0]
    if k == "upath":
        return "%s::%s" % (t[1], render_use(t[2]))
    if k == "uname":
        return t[1]
    if k == "urename":
        return "%s as %s" % (t[1], t[2])
    if k == "uglob":
        return "*"
    return "{%s}" % ", ".join(render_use(x) for x in t[1])


def sx_use(t):
    k = t[0]
    if k == "upath":
        return [S("upath"), t[1], sx_use(t[2])]
    if k == "uname":
        return [S("uname"), t[1]]
    if k == "urename":
        return [S("urename"), t[1], t[2]]
    if k == "uglob":
        return S("uglob")
    return [S("ugroup")] + [sx_use(x) for x in t[1]]


def render_item(it, ind=""):
    k = it["kind"]
    attrs = "".join(ind + render_attr_any(a).rstrip(" ") + ("\n" if not render_attr_any(a).endswith("\n") else "") for a in it.get("attrs", []))
    if k == "struct":
        fs = it["fields"]
        tail = ";" if fs[0] != "named" else ""
        return "%s%spub struct %s%s%s%s\n" % (attrs, ind, it["ident"], render_generics(it["generics"]),
                                             render_fields(fs, ind + "    "), tail)
    if k == "enum":
        body = ""
        for v in it["variants"]:
            vattrs = "".join(render_attr_any(a) for a in v["attrs"])
            body += "%s    %s%s%s,\n" % (ind, vattrs, v["ident"], render_fields(v["fields"], ind + "        "))
        return "%s%spub enum %s%s {\n%s%s}\n" % (attrs, ind, it["ident"], render_generics(it["generics"]), body, ind)
    if k == "alias":
        return "%s%spub type %s%s = %s;\n" % (attrs, ind, it["ident"], render_generics(it["generics"]), render_type(it["ty"]))
    if k == "const":
        return "%s%spub const %s: %s = %s;\n" % (attrs, ind, it["ident"], render_type(it["ty"]), it["expr_text"])
    if k == "use":
        return "%suse %s;\n" % (ind, render_use(it["tree"]))
    if k == "mod":
        return "%s%spub mod %s {\n%s%s}\n" % (attrs, ind, it["ident"], "".join(render_item(x, ind + "    ") for x in it["items"]), ind)
    if k == "other":
        # a function whose body holds the nested items and mentions the given paths
        body = "".join(render_item(x, ind + "    ") for x in it["items"])
        lets = "".join("%s    let _: Option<%s> = None;\n" % (ind, "::".join(p)) for p in it["paths"])
        return "%sfn %s() {\n%s%s%s}\n" % (ind, it["ident"], body, lets, ind)
    raise ValueError(k)


def sx_item(it):
    k = it["kind"]
    at = [sx_attr(a) for a in it.get("attrs", [])]
    if k == "struct":
        return [S("struct"), at, it["ident"], sx_generics(it["generics"]), sx_fields(it["fields"])]
    if k == "enum":
        return [S("enum"), at, it["ident"], sx_generics(it["generics"]),
                [[S("v"), [sx_attr(a) for a in v["attrs"]], v["ident"], sx_fields(v["fields"])] for v in it["variants"]]]
    if k == "alias":
        return [S("alias"), at, it["ident"], sx_generics(it["generics"]), sx_type(it["ty"])]
    if k == "const":
        return [S("const"), at, it["ident"], sx_type(it["ty"]), sx_lit(it["init"]) if it["init"] is not None else None]
    if k == "use":
        return [S("use"), sx_use(it["tree"])]
    if k == "mod":
        return [S("mod"), at, it["ident"], [sx_item(x) for x in it["items"]]]
    if k == "other":
        # `Option<path>` mentions two paths per entry: Option and the path itself
        paths = []
        for p in it["paths"]:
            paths.append(["Option"])
            paths.append(list(p))
        return [S("other"), paths, [sx_item(x) for x in it["items"]]]
    raise ValueError(k)


def render_file(f):
    inner = "".join(render_attr_any(a, inner=True).rstrip(" ") + "\n" for a in f["attrs"])
    return inner + "".join(render_item(it) + "\n" for it in f["items"])


def sx_file(f, text):
    return [S("file"), [sx_attr(a) for a in f["attrs"]], [sx_item(it) for it in f["items"]], "typeshare" in text]
