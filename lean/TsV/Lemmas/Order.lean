import TsV.Model.Pipeline
/-!
# The order on `Str` used by `Vec::sort` (Rust `String: Ord`) and stable-sort invariance
-/
namespace TsV.Order
open TsV

theorem lt_irrefl : ∀ a : Str, Str.lt a a = false
  | [] => rfl
  | c :: t => by simp [Str.lt, lt_irrefl t]

theorem lt_trans : ∀ a b c : Str, Str.lt a b = true → Str.lt b c = true → Str.lt a c = true
  | [], [], _, h, _ => by simp [Str.lt] at h
  | [], _ :: _, [], _, h => by simp [Str.lt] at h
  | [], _ :: _, _ :: _, _, _ => by simp [Str.lt]
  | _ :: _, [], _, h, _ => by simp [Str.lt] at h
  | _ :: _, _ :: _, [], _, h => by simp [Str.lt] at h
  | x :: s, y :: t, z :: u, h1, h2 => by
    simp only [Str.lt, Bool.or_eq_true, decide_eq_true_eq, Bool.and_eq_true, beq_iff_eq] at *
    rcases h1 with h1 | ⟨rfl, h1⟩
    · rcases h2 with h2 | ⟨rfl, h2⟩
      · exact Or.inl (Nat.lt_trans h1 h2)
      · exact Or.inl h1
    · rcases h2 with h2 | ⟨rfl, h2⟩
      · exact Or.inl h2
      · exact Or.inr ⟨rfl, lt_trans s t u h1 h2⟩

/-- trichotomy: neither smaller means equal -/
theorem eq_of_not_lt : ∀ a b : Str, Str.lt a b = false → Str.lt b a = false → a = b
  | [], [], _, _ => rfl
  | [], _ :: _, h, _ => by simp [Str.lt] at h
  | _ :: _, [], _, h => by simp [Str.lt] at h
  | x :: s, y :: t, h1, h2 => by
    simp only [Str.lt, Bool.or_eq_false_iff, decide_eq_false_iff_not, Bool.and_eq_false_iff,
      beq_eq_false_iff_ne, Nat.not_lt] at h1 h2
    have hxy : x = y := Char.toNat_inj.1 (Nat.le_antisymm h2.1 h1.1)
    subst hxy
    have h1' : Str.lt s t = false := by simpa using h1.2
    have h2' : Str.lt t s = false := by simpa using h2.2
    rw [eq_of_not_lt s t h1' h2']

theorem lt_asymm (a b : Str) (h : Str.lt a b = true) : Str.lt b a = false := by
  cases hb : Str.lt b a with
  | false => rfl
  | true => have := lt_trans a b a h hb; rw [lt_irrefl] at this; exact absurd this (by simp)

theorem le_total (a b : Str) : (Str.le a b || Str.le b a) = true := by
  simp only [Str.le, Bool.or_eq_true, Bool.not_eq_true']
  cases h : Str.lt b a with
  | false => exact Or.inl rfl
  | true => exact Or.inr (lt_asymm b a h)

theorem le_trans (a b c : Str) (h1 : Str.le a b = true) (h2 : Str.le b c = true) : Str.le a c = true := by
  simp only [Str.le, Bool.not_eq_true'] at *
  cases h : Str.lt c a with
  | false => rfl
  | true =>
    -- c < a, ¬ b < a, ¬ c < b  ⇒ contradiction
    cases hab : Str.lt a b with
    | true => have := lt_trans c a b h hab; rw [h2] at this; exact absurd this (by simp)
    | false =>
      have : a = b := eq_of_not_lt a b hab h1
      subst this; rw [h2] at h; exact absurd h (by simp)

theorem le_antisymm (a b : Str) (h1 : Str.le a b = true) (h2 : Str.le b a = true) : a = b := by
  simp only [Str.le, Bool.not_eq_true'] at *
  exact eq_of_not_lt a b h2 h1

theorem inj_of_nodup_map {α β} [DecidableEq β] (key : α → β) : ∀ {l : List α}, (l.map key).Nodup →
    ∀ {a b}, a ∈ l → b ∈ l → key a = key b → a = b
  | [], _, _, _, ha, _, _ => by simp at ha
  | x :: t, hd, a, b, ha, hb, hk => by
    simp only [List.map_cons, List.nodup_cons, List.mem_map, not_exists, not_and] at hd
    simp only [List.mem_cons] at ha hb
    rcases ha with rfl | ha <;> rcases hb with rfl | hb
    · rfl
    · exact absurd hk.symm (hd.1 b hb)
    · exact absurd hk (hd.1 a ha)
    · exact inj_of_nodup_map key hd.2 ha hb hk

/-- **a stable sort on pairwise distinct keys erases the arrival order**: two lists with the same
elements sort to the same list -/
theorem sortBy_perm_invariant {α} (key : α → Str) (l₁ l₂ : List α) (hp : l₁.Perm l₂)
    (hd : (l₁.map key).Nodup) : Pipeline.sortBy key l₁ = Pipeline.sortBy key l₂ := by
  unfold Pipeline.sortBy
  have tr : ∀ a b c : α, Str.le (key a) (key b) = true → Str.le (key b) (key c) = true →
      Str.le (key a) (key c) = true := fun a b c => le_trans _ _ _
  have tot : ∀ a b : α, (Str.le (key a) (key b) || Str.le (key b) (key a)) = true := fun a b => le_total _ _
  apply List.Perm.eq_of_pairwise (le := fun a b => Str.le (key a) (key b) = true)
  · intro a b ha hb hab hba
    have ha' : a ∈ l₁ := (List.mergeSort_perm l₁ _).subset ha
    have hb' : b ∈ l₁ := hp.symm.subset ((List.mergeSort_perm l₂ _).subset hb)
    exact inj_of_nodup_map key hd ha' hb' (le_antisymm _ _ hab hba)
  · exact List.pairwise_mergeSort tr tot l₁
  · exact List.pairwise_mergeSort tr tot l₂
  · exact (List.mergeSort_perm l₁ _).trans (hp.trans (List.mergeSort_perm l₂ _).symm)

end TsV.Order
