"""L1 correspondence: parser::parse on rendered source text vs Visitor.parseFile on the abstract file."""
from common import *
from syn_gen import *
from gen import Gen


def requests(file, gen, target_os=(), multi_file=False, crate="", file_name="out.ts", path="src/lib.rs", ignored=()):
    text = render_file(file)
    mreq = [S("parse"), [S("ctx"), list(ignored), multi_file, list(target_os)], gen.ext_sx(), crate, file_name, path,
            sx_file(file, text)]
    rreq = {"op": "parse", "src": text, "crate": crate, "file_name": file_name, "path": path,
            "target_os": list(target_os), "multi_file": multi_file, "ignored_types": list(ignored)}
    return mreq, rreq, text


def compare(cases):
    """cases: list of (mreq, rreq); returns list of (index, model_answer, impl_answer) that differ"""
    mans = model([c[0] for c in cases])
    rans = runner([c[1] for c in cases])
    diffs = []
    for i, (a, b) in enumerate(zip(mans, rans)):
        if a != b:
            diffs.append(i)
    return mans, rans, diffs


def first_diff(a, b, path=""):
    if type(a) != type(b):
        return "%s: %r vs %r" % (path, a, b)
    if isinstance(a, dict):
        for k in sorted(set(a) | set(b)):
            if k not in a or k not in b:
                return "%s.%s: missing on one side (%r vs %r)" % (path, k, a.get(k), b.get(k))
            d = first_diff(a[k], b[k], path + "." + k)
            if d:
                return d
        return None
    if isinstance(a, list):
        if len(a) != len(b):
            return "%s: length %d vs %d (%r vs %r)" % (path, len(a), len(b), a, b)
        for i, (x, y) in enumerate(zip(a, b)):
            d = first_diff(x, y, "%s[%d]" % (path, i))
            if d:
                return d
        return None
    return None if a == b else "%s: %r vs %r" % (path, a, b)
