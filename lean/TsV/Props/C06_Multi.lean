import TsV.Lemmas.C06_Multi_Parse
/-!
# C06 in multi-file mode — several crates, imports, hash orders

"Output is a deterministic function of the inputs, not of scheduling or hashing."  In multi-file mode the
schedule / hash dependent ingredients of a run are

1. the order in which the parallel walker delivers the per-file results to the collector (`arrivals`),
2. the iteration order of every `HashSet<ImportedType>` (`import_types`: in each file, in the merged per-crate
   data where `resolve_renamed` and `used_imports` iterate over it) and `HashSet<String>` (`type_names`),
3. the iteration order of the `HashMap` `all_types` (only the re-export fallback of `used_imports` depends on
   it: `Generate.firstOther`),
4. the element `HashSet::find` returns in `reconcile_referenced_types` (`pick`).

The theorems below show that the job list handed to the back ends — and hence the output of all six back
ends — does not depend on 1–4, provided
* `WFm`: per crate one output file name / mode, type names and const names unique within each crate
  (as in single-file `C06_arrival_order`), and
* `Unambiguous` (decidable): every crate's import set is unambiguous for `resolve_renamed` (`ImportsOK`: two
  imports of one type name from crates that both serde-rename it agree) and for the fallback of `used_imports`
  (`FallbackOK`: an import that does not resolve directly has at most one candidate crate),
* for 4: `PickOK`: at most one import per referenced type name in each file.
`C06_multi_not_full` shows that `Unambiguous` cannot be dropped.

Hash orders are modelled by quantifying over *representatives*: `MapEq m m'` says that `m'` is the collected map
`m` with every item vector and every hash set in another order; every theorem holds for all representatives.
-/
namespace TsV.C06
open TsV TsV.Pipeline TsV.Collect TsV.C06M

/-! ## hypotheses on the arrivals -/

def typeKeys (l : List ParsedData) : List Str :=
  (l.flatMap (·.structs)).map (·.id.original) ++ (l.flatMap (·.enums)).map (·.id.original) ++
    (l.flatMap (·.aliases)).map (·.id.original)

def constKeys (l : List ParsedData) : List Str := (l.flatMap (·.consts)).map (·.id.original)

/-- per crate: one file name and mode; no two types share an original name; no two consts do -/
structure WFm (a : List ParsedData) : Prop where
  uniform : UniformPerCrate a
  types : ∀ d ∈ a, (typeKeys (arr a d.crateName)).Nodup
  consts : ∀ d ∈ a, (constKeys (arr a d.crateName)).Nodup

theorem mapWF_collect {a : List ParsedData} (h : WFm a) : MapWF (collect a) := by
  refine ⟨(sorted_keys (collect_sorted a)).nodup, ?_, ?_⟩
  · intro p hp
    obtain ⟨hv, hne⟩ := collect_entry a (c := p.1) (v := p.2) hp
    obtain ⟨d, hd, hc⟩ := (arr_ne_nil_iff a p.1).1 hne
    have := h.types d hd
    rw [hc] at this
    rw [hv, merged_structs, merged_enums, merged_aliases]
    simpa [typeKeys] using this
  · intro p hp
    obtain ⟨hv, hne⟩ := collect_entry a (c := p.1) (v := p.2) hp
    obtain ⟨d, hd, hc⟩ := (arr_ne_nil_iff a p.1).1 hne
    have := h.consts d hd
    rw [hc] at this
    rw [hv, merged_consts]
    simpa [constKeys] using this

/-! ## 1. arrival order, several crates -/

/-- **the collector**: permuted arrivals give the same crates in the same (sorted) order and, per crate,
permutation-equal item lists, equal hash sets and equal meta data -/
theorem C06_multi_collect (a b : List ParsedData) (hp : a.Perm b) (hu : UniformPerCrate a) :
    MapEq (collect a) (collect b) :=
  collect_mapEq_of a b (partRel_of_perm a b hp hu)

/-- the same for the hash order *inside* every arrival (`import_types`, `type_names` of a file) -/
theorem C06_multi_collect_file_hash_order (a a' : List ParsedData) (h : Rel₂ FileEq a a')
    (hu : UniformPerCrate a) : MapEq (collect a) (collect a') :=
  collect_mapEq_of a a' (partRel_of_fileEq a a' h hu)

/-- **C06, arrival order, several crates.**  For permuted arrivals the reconciled crates agree on everything
`generate_types` reads (`view`: crate key, sorted structs / enums / aliases / consts, file name, mode), on the
crate name, on `import_types` and `type_names` *as sets*, and on the recorded errors up to order. -/
theorem C06_multi_arrival_order (a b : List ParsedData) (hp : a.Perm b) (hw : WFm a)
    (hu : ImportsUnambiguous (collect a) = true) :
    (reconcile (collect a)).map view = (reconcile (collect b)).map view ∧
    Rel₂ (fun p q : Str × ParsedData => p.2.crateName = q.2.crateName ∧
        (∀ i, i ∈ p.2.importTypes ↔ i ∈ q.2.importTypes) ∧ (∀ t, t ∈ p.2.typeNames ↔ t ∈ q.2.typeNames) ∧
        p.2.errors.Perm q.2.errors)
      (reconcile (collect a)) (reconcile (collect b)) := by
  have h := reconcile_mapEq (C06_multi_collect a b hp hw.uniform) (mapWF_collect hw) hu
  refine ⟨Rel₂.map_eq h fun p q _ _ hr => ?_,
    Rel₂.imp h fun _ _ _ _ hr => ⟨hr.crateName, hr.imports, hr.typeNames, hr.errors⟩⟩
  simp only [view]
  rw [hr.key, hr.structs, hr.enums, hr.aliases, hr.consts, hr.fileName, hr.multiFile]

/-- **hash order of `import_types` in `resolve_renamed`**: under `ImportsOK` every permutation of the import
list resolves every identifier alike -/
theorem C06_resolve_import_order (crate : Str) (r : Renames) (imports₁ imports₂ : List ImportedType)
    (hok : ImportsOK r imports₁ = true) (hp : imports₁.Perm imports₂) (id : Str) :
    resolveRenamed crate r imports₁ id = resolveRenamed crate r imports₂ id :=
  resolve_perm crate r imports₁ imports₂ id hok hp

/-- the same for the whole of `reconcile`: any representative `m'` of the collected map (item vectors and hash
sets in any order) reconciles to the same views -/
theorem C06_multi_reconcile_hash_order (a : List ParsedData) (hw : WFm a)
    (hu : ImportsUnambiguous (collect a) = true) (m' : List (Str × ParsedData)) (h : MapEq (collect a) m') :
    (reconcile (collect a)).map view = (reconcile m').map view := by
  refine Rel₂.map_eq (reconcile_mapEq h (mapWF_collect hw) hu) fun p q _ _ hr => ?_
  simp only [view]
  rw [hr.key, hr.structs, hr.enums, hr.aliases, hr.consts, hr.fileName, hr.multiFile]

/-! ## 2. hash order of the import fold in `used_imports` -/

/-- **`used_imports` does not depend on the iteration order of `import_types`** (no hypothesis needed: the
result is a sorted map of sorted sets and the fold computes a union) -/
theorem C06_usedImports_import_order (d : ParsedData) (all : List (Str × List Str))
    (imports₁ imports₂ : List ImportedType) (fo : Str → Option Str) (hp : imports₁.Perm imports₂) :
    usedImports d all imports₁ fo = usedImports d all imports₂ fo :=
  usedImports_perm d all imports₁ imports₂ fo hp

theorem C06_usedImports_sorted (d : ParsedData) (all : List (Str × List Str)) (imports : List ImportedType)
    (fo : Str → Option Str) : WFS (usedImports d all imports fo) := usedImports_wfs d all imports fo

/-- … nor on the fallback choice `firstOther` when no import takes the fallback, nor on the order of the
name sets in `all_types` -/
theorem C06_usedImports_firstOther (d : ParsedData) (all all' : List (Str × List Str))
    (imports : List ImportedType) (fo fo' : Str → Option Str) (ha : AllRel all all')
    (hnf : ∀ i ∈ imports, i.baseCrate ≠ d.crateName → takesFallback all i = true →
      fo i.typeName = fo' i.typeName) :
    usedImports d all imports fo = usedImports d all' imports fo' :=
  usedImports_congr d d rfl all all' imports imports fo fo' (fun _ => Iff.rfl)
    fun i hi hne => contrib_congr all all' fo fo' i ha (hnf i hi hne)

/-- **hash order of `all_types`**: with at most one candidate crate the fallback finds the same crate in every
iteration order -/
theorem C06_firstOther_hash_order (all all' : List (Str × List Str)) (cur name : Str) (hp : all.Perm all')
    (h1 : (all.filter (cand cur name)).length ≤ 1) :
    Generate.firstOther all cur name = Generate.firstOther all' cur name :=
  firstOther_perm all all' cur name hp h1

/-! ## 3. the job list of a multi-file run -/

/-- **C06, multi-file mode.**  The jobs `(crate, data, scoped imports)` that `Generate.run` hands to the back
ends (`run_multi_eq`: it uses `jobsWith id (collect arrivals)`) are, as far as any back end can see
(`jobView`), the same for
* every permutation `b` of the arrivals `a`,
* every representative `m₁` / `m₂` of the collected maps — i.e. every iteration order of every `import_types`
  and `type_names` set (and every order of the item vectors),
* every iteration order `σ₁` / `σ₂` of the `all_types` hash map. -/
theorem C06_multi (a b : List ParsedData) (hp : a.Perm b) (hw : WFm a) (hu : Unambiguous (collect a) = true)
    (m₁ m₂ : List (Str × ParsedData)) (h₁ : MapEq (collect a) m₁) (h₂ : MapEq (collect b) m₂)
    (σ₁ σ₂ : List (Str × List Str) → List (Str × List Str))
    (hσ₁ : ∀ l, (σ₁ l).Perm l) (hσ₂ : ∀ l, (σ₂ l).Perm l) :
    (jobsWith σ₁ m₁).map jobView = (jobsWith σ₂ m₂).map jobView := by
  have wf := mapWF_collect hw
  have e1 := jobs_congr h₁ wf hu id σ₁ (fun _ => .refl _) hσ₁
  have e2 := jobs_congr ((C06_multi_collect a b hp hw.uniform).trans h₂) wf hu id σ₂ (fun _ => .refl _) hσ₂
  exact e1.symm.trans e2

/-- arrivals that differ by the arrival order *and* by the hash order inside every file -/
def ArrEq (a b : List ParsedData) : Prop := ∃ a', Rel₂ FileEq a a' ∧ a'.Perm b

theorem uniform_of_fileEq {a a' : List ParsedData} (h : Rel₂ FileEq a a') (hu : UniformPerCrate a) :
    UniformPerCrate a' := by
  intro d hd d' hd' hc
  obtain ⟨x, hx, hxd⟩ := Rel₂.exists_left h d hd
  obtain ⟨y, hy, hyd⟩ := Rel₂.exists_left h d' hd'
  have := hu x hx y hy (hxd.crateName.trans (hc.trans hyd.crateName.symm))
  exact ⟨hxd.fileName.symm.trans (this.1.trans hyd.fileName), hxd.multiFile.symm.trans (this.2.trans hyd.multiFile)⟩

theorem C06_multi_collect_arrEq (a b : List ParsedData) (h : ArrEq a b) (hu : UniformPerCrate a) :
    MapEq (collect a) (collect b) := by
  obtain ⟨a', h1, h2⟩ := h
  exact (C06_multi_collect_file_hash_order a a' h1 hu).trans
    (C06_multi_collect a' b h2 (uniform_of_fileEq h1 hu))

/-- `C06_multi` for arrivals that also differ in every file's own hash orders -/
theorem C06_multi' (a b : List ParsedData) (hp : ArrEq a b) (hw : WFm a) (hu : Unambiguous (collect a) = true)
    (m₁ m₂ : List (Str × ParsedData)) (h₁ : MapEq (collect a) m₁) (h₂ : MapEq (collect b) m₂)
    (σ₁ σ₂ : List (Str × List Str) → List (Str × List Str))
    (hσ₁ : ∀ l, (σ₁ l).Perm l) (hσ₂ : ∀ l, (σ₂ l).Perm l) :
    (jobsWith σ₁ m₁).map jobView = (jobsWith σ₂ m₂).map jobView := by
  have wf := mapWF_collect hw
  have e1 := jobs_congr h₁ wf hu id σ₁ (fun _ => .refl _) hσ₁
  have e2 := jobs_congr ((C06_multi_collect_arrEq a b hp hw.uniform).trans h₂) wf hu id σ₂ (fun _ => .refl _) hσ₂
  exact e1.symm.trans e2

/-! ## 4. through `Generate.run`: walk order, `find` choice, all six back ends -/

/-- `Generate.run` in multi-file mode, spelled with `jobsWith` and `genAll` -/
theorem run_multi (E : Ext) (lang : Generate.LangCfg) (targetOs : List Str)
    (pick : List ImportedType → Option ImportedType) (files : List Generate.SourceFile) :
    Generate.run E lang true targetOs pick files =
      (Generate.parseAll E { ignoredTypes := Generate.ignoredTypes lang, multiFile := true, targetOs } pick files).bind
        fun arrivals =>
          if !(allErrors (reconcile (collect arrivals))).isEmpty then
            .ok (.parseErrors (allErrors (reconcile (collect arrivals))))
          else (genAll E lang true (jobsWith id (collect arrivals))).bind fun o => .ok (.outputs o) := by
  rw [run_multi_eq]
  cases lang <;> rfl

/-- two results of a run: equal, or both aborted by `check_parse_errors` with the same errors in another order -/
def RunSim : Outcome Generate.RunResult → Outcome Generate.RunResult → Prop
  | .ok (.parseErrors e), .ok (.parseErrors e') => e.Perm e'
  | x, y => x = y

theorem RunSim.of_eq {x y : Outcome Generate.RunResult} (h : x = y) : RunSim x y := by
  subst h
  cases x with
  | ok r =>
    cases r with
    | outputs o => rfl
    | parseErrors e => exact List.Perm.refl e
  | err e => rfl
  | panic s => rfl

/-- **C06, multi-file mode, whole run.**  If the files parse, then for every order in which the walker visits
the files and every `HashSet::find` choice (`pick`) the run produces the same output files with the same
contents, for each of the six back ends (or aborts with the same parse errors, listed in another order). -/
theorem C06_multi_run (E : Ext) (lang : Generate.LangCfg) (targetOs : List Str)
    (pick pick' : List ImportedType → Option ImportedType) (files files' : List Generate.SourceFile)
    (hf : files.Perm files') (hpk : ValidPick pick) (hpk' : ValidPick pick')
    (hfp : FilesPickOK E { ignoredTypes := Generate.ignoredTypes lang, multiFile := true, targetOs } files)
    (a : List ParsedData)
    (ha : Generate.parseAll E { ignoredTypes := Generate.ignoredTypes lang, multiFile := true, targetOs } pick files
      = .ok a)
    (hw : WFm a) (hu : Unambiguous (collect a) = true) :
    RunSim (Generate.run E lang true targetOs pick files) (Generate.run E lang true targetOs pick' files') := by
  have ha' := ha
  rw [parseAll_pick E _ hpk hpk' files hfp] at ha'
  obtain ⟨b, hb, hab⟩ := parseAll_perm E _ pick' hf a ha'
  have hme := C06_multi_collect a b hab hw.uniform
  have wf := mapWF_collect hw
  rw [run_multi, run_multi, ha, hb]
  simp only [Outcome.bind]
  rw [← allErrors_isEmpty_congr hme wf hu]
  by_cases he : (allErrors (reconcile (collect a))).isEmpty = true
  · simp only [he, Bool.not_true, Bool.false_eq_true, if_false]
    apply RunSim.of_eq
    rw [genAll_congr E lang true (jobs_congr hme wf hu id id (fun _ => .refl _) (fun _ => .refl _))]
  · simp only [he, Bool.not_false, if_true]
    show List.Perm _ _
    unfold allErrors
    exact Rel₂.flatMap_perm (jobs_sets hme wf hu) fun _ _ _ _ hr => hr.2.2

/-- without recorded parse errors: literally the same result -/
theorem C06_multi_run_eq (E : Ext) (lang : Generate.LangCfg) (targetOs : List Str)
    (pick pick' : List ImportedType → Option ImportedType) (files files' : List Generate.SourceFile)
    (hf : files.Perm files') (hpk : ValidPick pick) (hpk' : ValidPick pick')
    (hfp : FilesPickOK E { ignoredTypes := Generate.ignoredTypes lang, multiFile := true, targetOs } files)
    (a : List ParsedData)
    (ha : Generate.parseAll E { ignoredTypes := Generate.ignoredTypes lang, multiFile := true, targetOs } pick files
      = .ok a)
    (hw : WFm a) (hu : Unambiguous (collect a) = true) (hne : allErrors (reconcile (collect a)) = []) :
    Generate.run E lang true targetOs pick files = Generate.run E lang true targetOs pick' files' := by
  have ha' := ha
  rw [parseAll_pick E _ hpk hpk' files hfp] at ha'
  obtain ⟨b, hb, hab⟩ := parseAll_perm E _ pick' hf a ha'
  have hme := C06_multi_collect a b hab hw.uniform
  have wf := mapWF_collect hw
  have he : (allErrors (reconcile (collect a))).isEmpty = true := by rw [hne]; rfl
  rw [run_multi, run_multi, ha, hb]
  simp only [Outcome.bind]
  rw [← allErrors_isEmpty_congr hme wf hu]
  simp only [he, Bool.not_true, Bool.false_eq_true, if_false]
  rw [genAll_congr E lang true (jobs_congr hme wf hu id id (fun _ => .refl _) (fun _ => .refl _))]

/-! ## the statement at full strength, and why it fails -/

/-- C06 for multi-file mode without the hypotheses on names and imports -/
def C06_multi_full : Prop :=
  ∀ (a b : List ParsedData) (m₁ m₂ : List (Str × ParsedData))
    (σ₁ σ₂ : List (Str × List Str) → List (Str × List Str)),
    a.Perm b → UniformPerCrate a → MapEq (collect a) m₁ → MapEq (collect b) m₂ →
    (∀ l, (σ₁ l).Perm l) → (∀ l, (σ₂ l).Perm l) →
    (jobsWith σ₁ m₁).map jobView = (jobsWith σ₂ m₂).map jobView

/-- the two classes of inputs on which it fails -/
def Known_duplicate_names (a : List ParsedData) : Prop :=
  ¬ ((∀ d ∈ a, (typeKeys (arr a d.crateName)).Nodup) ∧ (∀ d ∈ a, (constKeys (arr a d.crateName)).Nodup))

def Known_ambiguous_imports (a : List ParsedData) : Prop := Unambiguous (collect a) = false

instance (a : List ParsedData) : Decidable (Known_duplicate_names a) := by
  unfold Known_duplicate_names; infer_instance
instance (a : List ParsedData) : Decidable (Known_ambiguous_imports a) := by
  unfold Known_ambiguous_imports; infer_instance

theorem C06_multi_partial (a b : List ParsedData) (m₁ m₂ : List (Str × ParsedData))
    (σ₁ σ₂ : List (Str × List Str) → List (Str × List Str))
    (hp : a.Perm b) (hun : UniformPerCrate a) (h₁ : MapEq (collect a) m₁) (h₂ : MapEq (collect b) m₂)
    (hσ₁ : ∀ l, (σ₁ l).Perm l) (hσ₂ : ∀ l, (σ₂ l).Perm l)
    (k1 : ¬ Known_duplicate_names a) (k2 : ¬ Known_ambiguous_imports a) :
    (jobsWith σ₁ m₁).map jobView = (jobsWith σ₂ m₂).map jobView := by
  have hd := Classical.not_not.1 k1
  have hu : Unambiguous (collect a) = true := by
    unfold Known_ambiguous_imports at k2
    cases h : Unambiguous (collect a) with
    | true => rfl
    | false => exact absurd h k2
  exact C06_multi a b hp ⟨hun, hd.1, hd.2⟩ hu m₁ m₂ h₁ h₂ σ₁ σ₂ hσ₁ hσ₂

/-! ## non-vacuity and counter-examples -/

def mkS (orig ren : Str) (sr : Bool) (fields : List (Str × RustType)) : RustStruct :=
  { id := ⟨orig, ren, sr⟩, genericTypes := [],
    fields := fields.map fun p => ⟨⟨p.1, p.1, false⟩, p.2, [], false, []⟩,
    comments := [], decorators := {}, isRedacted := false }

def tyName : RustType → Str
  | .simple id => id
  | _ => []

/-- the field types of the structs of a job -/
def fieldTypes (v : Str × List RustStruct × List RustEnum × List RustTypeAlias × List RustConst ×
    Str × Str × Bool × Option ScopedCrateTypes) : List (List Str) :=
  v.2.1.map fun s => s.fields.map fun f => tyName f.ty

/-! ### a two-crate run with a cross-crate import that meets every hypothesis

crate `a` (two files): `#[serde(rename = "FooR")] struct Foo`, `struct Qux`;
crate `b`: `use a::{Foo, Qux}; struct Bar { f: Foo, g: Qux }`. -/

def fA1 : ParsedData :=
  { structs := [mkS s%"Foo" s%"FooR" true []], typeNames := [s%"FooR"], crateName := s%"a", fileName := s%"a",
    multiFile := true }
def fA2 : ParsedData :=
  { structs := [mkS s%"Qux" s%"Qux" false []], typeNames := [s%"Qux"], crateName := s%"a", fileName := s%"a",
    multiFile := true }
def fB : ParsedData :=
  { structs := [mkS s%"Bar" s%"Bar" false [(s%"f", .simple s%"Foo"), (s%"g", .simple s%"Qux")]],
    importTypes := [⟨s%"a", s%"Foo"⟩, ⟨s%"a", s%"Qux"⟩], typeNames := [s%"Bar"], crateName := s%"b",
    fileName := s%"b", multiFile := true }
def exArr : List ParsedData := [fB, fA1, fA2]

theorem exArr_wf : WFm exArr := by
  refine ⟨?_, ?_, ?_⟩
  · unfold UniformPerCrate; decide
  · decide
  · decide

theorem exArr_unambiguous : Unambiguous (collect exArr) = true := by decide +kernel

/-- the hypotheses of `C06_multi` are met, and the result is not trivial: the reference to `Foo` in crate `b`
is rewritten to crate `a`'s serde name, crate `b` imports `Qux` from `a` -/
example : ((jobsWith id (collect exArr)).map jobView).map (fun v => (v.1, fieldTypes v, v.2.2.2.2.2.2.2.2)) =
    [(s%"a", [[], []], some []), (s%"b", [[s%"FooR", s%"Qux"]], some [(s%"a", [s%"Qux"])])] := by
  simp [jobsWith, jobView, fieldTypes, tyName, reconcile, collect, upsert, addAssign, exArr, fA1, fA2, fB, mkS,
    reconcileOne, sortBy, List.mergeSort, collectSerdeRenames, checkField, checkType, resolveRenamed, hasRename,
    renameOf, Str.le, Str.lt, Visitor.insertSet, usedImports, allTypes, scopedInsert, Generate.firstOther]

/-- `C06_multi` applied: the other arrival orders, the import set of `b` iterated backwards, and the
`all_types` map iterated backwards give the same jobs -/
example : (jobsWith List.reverse (collect [fA2, fB, fA1])).map jobView = (jobsWith id (collect exArr)).map jobView :=
  (C06_multi exArr [fA2, fB, fA1] (List.perm_append_comm (l₁ := [fB, fA1]) (l₂ := [fA2])) exArr_wf exArr_unambiguous _ _ (MapEq.refl _) (MapEq.refl _) id
    List.reverse (fun _ => .refl _) (fun l => List.reverse_perm l)).symm

/-! ### `Unambiguous` cannot be dropped, 1: `resolve_renamed`

crates `a` and `b` both export a `Foo` with different serde names; crate `c` imports both and refers to `Foo`:
the first import in hash order wins. -/

def gA : ParsedData :=
  { structs := [mkS s%"Foo" s%"FooA" true []], typeNames := [s%"FooA"], crateName := s%"a", fileName := s%"a",
    multiFile := true }
def gB : ParsedData :=
  { structs := [mkS s%"Foo" s%"FooB" true []], typeNames := [s%"FooB"], crateName := s%"b", fileName := s%"b",
    multiFile := true }
def gC (imps : List ImportedType) : ParsedData :=
  { structs := [mkS s%"Bar" s%"Bar" false [(s%"f", .simple s%"Foo")]],
    importTypes := imps, typeNames := [s%"Bar"], crateName := s%"c", fileName := s%"c", multiFile := true }
def impAB : List ImportedType := [⟨s%"a", s%"Foo"⟩, ⟨s%"b", s%"Foo"⟩]
def impBA : List ImportedType := [⟨s%"b", s%"Foo"⟩, ⟨s%"a", s%"Foo"⟩]

theorem cx_ab : ((jobsWith id (collect [gA, gB, gC impAB])).map jobView).map fieldTypes =
    [[[]], [[]], [[s%"FooA"]]] := by
  simp [jobsWith, jobView, fieldTypes, tyName, reconcile, collect, upsert, addAssign, gA, gB, gC, impAB, mkS,
    reconcileOne, sortBy, collectSerdeRenames, checkField, checkType, resolveRenamed, hasRename,
    renameOf, Str.le, Str.lt, Visitor.insertSet]

theorem cx_ba : ((jobsWith id (collect [gA, gB, gC impBA])).map jobView).map fieldTypes =
    [[[]], [[]], [[s%"FooB"]]] := by
  simp [jobsWith, jobView, fieldTypes, tyName, reconcile, collect, upsert, addAssign, gA, gB, gC, impBA, mkS,
    reconcileOne, sortBy, collectSerdeRenames, checkField, checkType, resolveRenamed, hasRename,
    renameOf, Str.le, Str.lt, Visitor.insertSet]

/-- the input is recognised as ambiguous -/
example : Known_ambiguous_imports [gA, gB, gC impAB] := by
  unfold Known_ambiguous_imports; decide +kernel

/-- the two files `gC impAB` / `gC impBA` are the same file with its import set in two hash orders -/
theorem gC_fileEq : FileEq (gC impAB) (gC impBA) :=
  ⟨rfl, rfl, rfl, rfl, rfl, fun i => by simp [gC, impAB, impBA, or_comm], fun _ => Iff.rfl, rfl, rfl, rfl⟩

/-- **the unconditional statement is false** (kernel-checked witness: same files, same arrival order, the
import set of crate `c` iterated in two orders ⇒ `Bar.f : FooA` vs `Bar.f : FooB`) -/
theorem C06_multi_not_full : ¬ C06_multi_full := by
  intro h
  have hu : UniformPerCrate [gA, gB, gC impAB] := by unfold UniformPerCrate; decide
  have hm : MapEq (collect [gA, gB, gC impAB]) (collect [gA, gB, gC impBA]) :=
    C06_multi_collect_file_hash_order _ _
      ⟨⟨rfl, rfl, rfl, rfl, rfl, fun _ => Iff.rfl, fun _ => Iff.rfl, rfl, rfl, rfl⟩,
       ⟨rfl, rfl, rfl, rfl, rfl, fun _ => Iff.rfl, fun _ => Iff.rfl, rfl, rfl, rfl⟩, gC_fileEq, trivial⟩ hu
  have e := h [gA, gB, gC impAB] [gA, gB, gC impAB] (collect [gA, gB, gC impAB]) (collect [gA, gB, gC impBA])
    id id (.refl _) hu (MapEq.refl _) hm (fun _ => .refl _) (fun _ => .refl _)
  have e' := congrArg (List.map fieldTypes) e
  rw [cx_ab, cx_ba] at e'
  exact absurd e' (by decide)

/-! ### `Unambiguous` cannot be dropped, 2: the re-export fallback of `used_imports`

crates `a` and `b` both define `T`; crate `c` imports `T` through a crate `x` that is not part of the run
(a re-export): `used_imports` attributes it to the first crate in `all_types` hash order that has a `T`. -/

def hT (c : Str) : ParsedData :=
  { structs := [mkS s%"T" s%"T" false []], typeNames := [s%"T"], crateName := c, fileName := c, multiFile := true }
def hC : ParsedData :=
  { structs := [mkS s%"Bar" s%"Bar" false [(s%"f", .simple s%"T")]],
    importTypes := [⟨s%"x", s%"T"⟩], typeNames := [s%"Bar"], crateName := s%"c", fileName := s%"c",
    multiFile := true }

example : Known_ambiguous_imports [hT s%"a", hT s%"b", hC] := by
  unfold Known_ambiguous_imports; decide +kernel

example : ((jobsWith id (collect [hT s%"a", hT s%"b", hC])).map jobView).map (·.2.2.2.2.2.2.2.2) =
      [some [], some [], some [(s%"a", [s%"T"])]] ∧
    ((jobsWith List.reverse (collect [hT s%"a", hT s%"b", hC])).map jobView).map (·.2.2.2.2.2.2.2.2) =
      [some [], some [], some [(s%"b", [s%"T"])]] := by
  constructor <;>
  simp [jobsWith, jobView, reconcile, collect, upsert, addAssign, hT, hC, mkS,
    reconcileOne, Str.lt, Visitor.insertSet, usedImports, allTypes, scopedInsert,
    Generate.firstOther]

/-! ### `PickOK` (the `find` choice) — a file that imports `Foo` from two crates and refers to it -/

example : PickOK UnicodeOps.ascii (gC impAB) = false := by decide +kernel

/-! ### a concrete run that meets the hypotheses of `C06_multi_run`

crate `a`: `#[typeshare] struct Foo { x: u8 }`; crate `b`: `use a::Foo; #[typeshare] struct Bar { f: Foo }` -/

open TsV.Syn in
def E0 : Ext := { U := UnicodeOps.ascii, parseType := fun _ => none }
open TsV.Syn in
def tsAttr : Attr := ⟨.path [s%"typeshare"]⟩
open TsV.Syn in
def fld (n t : Str) : Field := ⟨[], some n, .path [] t []⟩
def srcA : Generate.SourceFile :=
  { crateName := s%"a", fileName := s%"a", path := s%"a/src/lib.rs",
    file := { attrs := [], marker := true,
              items := [.struct [tsAttr] s%"Foo" [] (.named [fld s%"x" s%"u8"])] } }
def srcB : Generate.SourceFile :=
  { crateName := s%"b", fileName := s%"b", path := s%"b/src/lib.rs",
    file := { attrs := [], marker := true,
              items := [.use (.path s%"a" (.name s%"Foo")),
                        .struct [tsAttr] s%"Bar" [] (.named [fld s%"f" s%"Foo"])] } }
def ctx0 : ParseContext := { ignoredTypes := [], multiFile := true, targetOs := [] }
def exRun : List ParsedData := getOk (Generate.parseAll E0 ctx0 (fun l => l.head?) [srcA, srcB])

theorem exRun_ok : Generate.parseAll E0 ctx0 (fun l => l.head?) [srcA, srcB] = .ok exRun :=
  eq_ok_getOk (by decide +kernel)
theorem exRun_wf : WFm exRun := by
  refine ⟨?_, ?_, ?_⟩
  · unfold UniformPerCrate; decide +kernel
  · decide +kernel
  · decide +kernel
theorem exRun_unambiguous : Unambiguous (collect exRun) = true := by decide +kernel
theorem exRun_noErrors : allErrors (reconcile (collect exRun)) = [] := by
  have : (allErrors (collect exRun)).isEmpty = true := by decide +kernel
  have h2 : allErrors (reconcile (collect exRun)) = allErrors (collect exRun) := by
    unfold allErrors; rw [reconcile_eq, List.flatMap_map]; rfl
  rw [h2]; exact List.isEmpty_iff.1 this
theorem exRun_pickOK : filesPickOKb E0 ctx0 [srcA, srcB] = true := by decide +kernel
/-- the run really has two crates and a cross-crate import -/
example : exRun.map (fun d => (d.crateName, d.importTypes)) = [(s%"a", []), (s%"b", [⟨s%"a", s%"Foo"⟩])] := by
  decide +kernel

/-- for every Go configuration: the other walk order and the other `find` choice give the same result -/
example (cfg : Lang.Go.Cfg) :
    Generate.run E0 (.go cfg) true [] (fun l => l.head?) [srcA, srcB] =
      Generate.run E0 (.go cfg) true [] (fun l => l.getLast?) [srcB, srcA] :=
  C06_multi_run_eq E0 (.go cfg) [] _ _ [srcA, srcB] [srcB, srcA] (List.Perm.swap _ _ _) validPick_head
    validPick_getLast (filesPickOK_of_b E0 ctx0 _ exRun_pickOK) exRun exRun_ok exRun_wf exRun_unambiguous
    exRun_noErrors

end TsV.C06
