"""C20 — CLI options override typeshare.toml; generated config files round-trip (cli/src/config.rs, main.rs)."""
import itertools, re, tomllib
import re
from common import *
import l2

NEEDS = ("cli", "runner")

# option name, CLI flag, (toml section, key), index in the model's shared record, language that shows it
OPTS = [("swift-prefix", "--swift-prefix", ("swift", "prefix"), 0, "swift"),
        ("kotlin-prefix", "--kotlin-prefix", ("kotlin", "prefix"), 1, "kotlin"),
        ("java-package", "--java-package", ("kotlin", "package"), 2, "kotlin"),
        ("kotlin-module", "--module-name", ("kotlin", "module_name"), 3, None),
        ("scala-package", "--scala-package", ("scala", "package"), 4, "scala"),
        ("scala-module", "--scala-module-name", ("scala", "module_name"), 5, None),
        ("go-package", "--go-package", ("go", "package"), 6, "go")]
SRC = "#[typeshare]\npub struct Foo {\n    pub a: Bar,\n    pub url: Url,\n    pub id: u8,\n}\n\n#[typeshare]\npub struct Bar {\n    pub b: Vec<u8>,\n    pub labels: HashMap<String, String>,\n    pub opt: Option<String>,\n}\n"


# identifiers that contain the acronym spellings used by the file-only part
SRC_ACR = SRC + "\n#[typeshare]\npub struct OAuthClient {\n    pub oauth_scope: String,\n    pub client_id: u8,\n    pub ipv6_addr: String,\n    pub mac_os_api: Url,\n    pub unit: Option<()>,\n}\n"


# generic items, with and without constraints of their own, for the Swift file-only settings
SRC_GEN = SRC + ("\n#[typeshare(swiftGenericConstraints = \"T: Equatable & Hashable\")]\npub struct Annotated<T, U> {\n    pub t: T,\n    pub u: U,\n}\n"
                 "\n#[typeshare(swiftGenericConstraints = \"K: Comparable\")]\n#[serde(tag = \"t\", content = \"c\")]\npub enum Choice<K> {\n    One(K),\n    Two { k: K },\n}\n"
                 "\n#[typeshare]\npub struct PlainGeneric<V> {\n    pub v: V,\n}\n")


def toml_text(shared, tables):
    """shared: {(section,key): value}; tables: {section: {key: value}} of file-only settings"""
    secs = {}
    for (sec, key), v in shared.items():
        secs.setdefault(sec, {})[key] = v
    for sec, kv in tables.items():
        secs.setdefault(sec, {}).update(kv)

    def val(v):
        if isinstance(v, bool):
            return "true" if v else "false"
        if isinstance(v, str):
            return json.dumps(v)
        if isinstance(v, list):
            return "[" + ", ".join(json.dumps(x) for x in v) + "]"
        raise TypeError(v)
    out = []
    for sec, kv in secs.items():
        plain = {k: v for k, v in kv.items() if not isinstance(v, dict)}
        out.append("[%s]" % sec)
        for k, v in plain.items():
            out.append("%s = %s" % (k, val(v)))
        for k, v in kv.items():
            if isinstance(v, dict):
                out.append("[%s.%s]" % (sec, k))
                for kk, vv in v.items():
                    out.append("%s = %s" % (json.dumps(kk), val(vv)))
        out.append("")
    return "\n".join(out)


def observe(lang, text):
    """what the generated code shows of the effective settings"""
    if lang == "swift":
        m = re.search(r"public struct (\w*)Foo\b", text)
        return {"swift-prefix": m.group(1) if m else None}
    if lang == "kotlin":
        m = re.search(r"data class (\w*)Foo\b", text)
        p = re.search(r"^package (\S+)", text, re.M)
        return {"kotlin-prefix": m.group(1) if m else None, "java-package": p.group(1) if p else ""}
    if lang == "scala":
        p = re.search(r"^package (\S+)", text, re.M)
        return {"scala-package-parent": p.group(1) if p else ""}
    if lang == "go":
        p = re.search(r"^package (\S+)", text, re.M)
        return {"go-package": p.group(1) if p else ""}
    return {}


def run(check):
    rng = check.rng
    check.rule = ("for each of the 7 settings that exist both as an option and in typeshare.toml: the 2x2 matrix {option absent, "
                  "present} x {key absent, present}, config found by -c and by ancestor-directory search, observed in generated "
                  "code (prefix, package line) for the language that shows it and in the TOML written by -g; random file-only "
                  "tables (type_mappings, default_decorators, generic constraints, uppercase_acronyms, no_pointer_slice) observed "
                  "in generated code; -g never overwrites; the written file reloads to the same output; non-trivial = at "
                  "least one of option / key is present")
    cases = []
    for name, flag, (sec, key), idx, lang in OPTS:
        for cli_present, file_present, discover in itertools.product([False, True], [False, True], ["-c", "ancestor"]):
            # value kinds: ordinary words; the empty string given explicitly (an option / key that is present but empty is
            # still present); the option repeating the file's value
            kinds = [("word", "word")]
            if cli_present:
                kinds.append(("empty", "word"))
            if file_present:
                kinds.append(("word", "empty"))
            if cli_present and file_present:
                kinds.append(("same", "word"))
            for vk in kinds:
                cases.append((name, flag, sec, key, idx, lang, cli_present, file_present, discover, vk))
    reps = 3 if check.thorough else 1
    for rep in range(reps):
        for (name, flag, sec, key, idx, lang, cli_present, file_present, discover, vk) in cases:
            cli_val = "Cli%d" % rng.randint(0, 99) if "package" not in name else "com.cli%d.pk" % rng.randint(0, 99)
            file_val = "File%d" % rng.randint(0, 99) if "package" not in name else "org.file%d.pk" % rng.randint(0, 99)
            if vk[0] == "empty":
                cli_val = ""
            if vk[1] == "empty":
                file_val = ""
            if vk[0] == "same":
                cli_val = file_val
            shared = {(sec, key): file_val} if file_present else {}
            # the other settings the languages need to run at all live in the file too
            tables = {"typescript": {"type_mappings": {"Url": "string"}}}
            with Scratch() as sc:
                sc.write("ws/proj/src/lib.rs", SRC)
                have_file = file_present or rng.random() < 0.5
                cfg_path = "ws/typeshare.toml"
                if have_file and discover == "-c":
                    # the explicitly named file lives elsewhere; a different typeshare.toml is discoverable from the working
                    # directory: -c must win over discovery
                    cfg_path = "cfg/explicit.toml"
                    decoy = {(sec, key): ("Decoy%d" % rng.randint(0, 99) if "package" not in name else "net.decoy%d.pk" % rng.randint(0, 99))}
                    sc.write("ws/typeshare.toml", toml_text(decoy, {"typescript": {"type_mappings": {"Url": "DecoyUrl"}}}))
                    check.count("explicit -c next to a discoverable typeshare.toml")
                if have_file and discover == "ancestor":
                    # a second typeshare.toml farther up the ancestor chain: the nearest one must win
                    far = {(sec, key): ("Far%d" % rng.randint(0, 99) if "package" not in name else "net.far%d.pk" % rng.randint(0, 99))}
                    sc.write("typeshare.toml", toml_text(far, {"typescript": {"type_mappings": {"Url": "FarUrl"}}}))
                    check.count("two typeshare.toml files on the ancestor chain")
                if have_file:
                    sc.write(cfg_path, toml_text(shared, tables))
                langs = [lang] if lang else ["typescript"]
                for L in langs:
                    args = ["--lang", L, "-o", sc.path("out." + EXT[L])]
                    if cli_present:
                        args += [flag, cli_val]
                    extra = []
                    if L == "go" and name != "go-package":
                        extra = ["--go-package", "proto"]
                    if L == "scala" and name != "scala-package":
                        extra = ["--scala-package", "com.example"]
                    cwd = sc.path("ws/proj")
                    if discover == "-c" and have_file:
                        args += ["-c", sc.path(cfg_path)]
                    r = run_cli(args + extra + [sc.path("ws/proj/src")], cwd=cwd)
                    file7 = [""] * 7
                    if file_present:
                        file7[idx] = file_val
                    cli7 = [None] * 7
                    if cli_present:
                        cli7[idx] = cli_val
                    if extra:
                        cli7[[o[1] for o in OPTS].index(extra[0])] = extra[1]
                    ma = model([[S("config"), file7 if have_file else None, cli7, L == "go"]], with_unicode=False)[0]
                    check.saw((name, cli_present, file_present, discover, vk, L, rep), nontrivial=cli_present or file_present)
                    check.count("%s cli=%s file=%s" % (name, int(cli_present), int(file_present)))
                    check.count("values option:%s key:%s" % (vk[0] if cli_present else "-", vk[1] if file_present else "-"))
                    want = cli_val if cli_present else file_val if file_present else ""
                    problem = None
                    if "err" in ma:
                        if r["rc"] == 0:
                            problem = "the run succeeds although no Go package is configured"
                    elif r["rc"] != 0:
                        # Scala without any package name cannot generate at all (a C07 finding, not a precedence matter)
                        if not (L == "scala" and ma["ok"][4] == ""):
                            problem = "exit status %s: %s" % (r["rc"], r["err"][-300:])
                    else:
                        text = open(sc.path("out." + EXT[L]), encoding="utf-8").read()
                        obs = observe(L, text)
                        eff = ma["ok"][idx]
                        shown = {"swift-prefix": eff, "kotlin-prefix": eff, "java-package": eff, "go-package": eff,
                                 "scala-package-parent": eff.rsplit(".", 1)[0] if "." in eff else ""}
                        k = name if name != "scala-package" else "scala-package-parent"
                        if lang and k in obs and obs[k] != shown[k]:
                            problem = "generated %s code shows %s = %r, effective setting is %r" % (L, k, obs[k], shown[k])
                        if eff != want:
                            problem = "model: effective %r, precedence rule gives %r" % (eff, want)
                    if problem:
                        check.violation("%s (option %s, key %s, found by %s): %s" % (name, "given" if cli_present else "absent",
                                        "present" if file_present else "absent", discover, problem),
                                        case={"option": name, "cli": cli_val if cli_present else None,
                                              "file": file_val if file_present else None, "lang": L, "discover": discover},
                                        impl={"rc": r["rc"], "stderr": r["err"][-500:]}, model=ma, failing_input=True)
                        return
    file_only(check)
    generate_config(check)
    if not check.has_failing():
        existing_output(check)
    if not check.has_failing():
        folder_mode_part(check)
    if not check.has_failing():
        folder_mappings_part(check)
    check.exhaustive = True
    check.extra["exhaustive_scope"] = "7 settings x {option absent, present} x {key absent, present} x {-c, ancestor search}"
    check.assumptions += ["TOML (de)serialisation by the `toml` crate and option parsing by `clap` are external; they are exercised through the real binary",
                          "kotlin/scala module_name are not used by any printer; they are observed only in the TOML written by -g"]


def existing_output(check):
    """the effective setting must show in the file the binary leaves behind also when the destination already holds the output
    of an earlier run made under the *other* source of the setting (typeshare.toml value vs an option of the same length)"""
    pairs = [("swift", "prefix", "--swift-prefix", "Toml", "Clap"), ("kotlin", "prefix", "--kotlin-prefix", "Fk", "Ok"),
             ("kotlin", "package", "--java-package", "com.file.pkg", "com.clap.pkg"), ("scala", "package", "--scala-package", "org.file.x", "org.clap.y"),
             ("go", "package", "--go-package", "filepkg", "clappkg")]
    for L, key, flag, file_val, cli_val in pairs:
        with Scratch() as sc:
            sc.write("ws/proj/src/lib.rs", SRC)
            sc.write("ws/typeshare.toml", toml_text({}, {L: {key: file_val}}))
            out = sc.path("ws/out." + EXT[L])
            base = ["--lang", L, "-o", out] + [a for a in lang_args(L) if not (L in ("kotlin", "scala", "go") and key == "package")]
            if key == "package":
                base = ["--lang", L, "-o", out]
            r1 = run_cli(base + [sc.path("ws/proj/src")], cwd=sc.path("ws/proj"))
            first = open(out, encoding="utf-8").read() if r1["rc"] == 0 and os.path.exists(out) else None
            r2 = run_cli(base + [flag, cli_val, sc.path("ws/proj/src")], cwd=sc.path("ws/proj"))
            second = open(out, encoding="utf-8").read() if r2["rc"] == 0 and os.path.exists(out) else None
            fresh = sc.path("ws/fresh." + EXT[L])
            r3 = run_cli(["--lang", L, "-o", fresh] + base[4:] + [flag, cli_val, sc.path("ws/proj/src")], cwd=sc.path("ws/proj"))
            third = open(fresh, encoding="utf-8").read() if r3["rc"] == 0 and os.path.exists(fresh) else None
            check.saw(("existing-output", L, key), nontrivial=True)
            check.count("existing-output")
            if first is None or third is None:
                continue
            if second != third or (file_val in (second or "") and file_val not in third):
                check.violation("%s: with typeshare.toml %s = %r an earlier run left its output in the destination; the run with %s %s "
                                "leaves %s, a fresh destination gets the option's value"
                                % (L, key, file_val, flag, cli_val, "the file's value in the output" if second and file_val in second else "something else"),
                                case={"lang": L, "key": key, "file": file_val, "option": [flag, cli_val]},
                                impl={"after_first_run": first[-1200:], "after_second_run": (second or "")[-1200:], "fresh": third[-1200:]},
                                failing_input=True)
                return


def folder_mode_part(check):
    """the effective package reaches every module of a folder run unchanged - the second and third crate's file like the first -
    whether it comes from the option or from typeshare.toml"""
    expect = {"kotlin": lambda pk, c: "package %s.%s" % (pk, c), "scala": lambda pk, c: "package %s" % pk.rsplit(".", 1)[0],
              "go": lambda pk, c: "package %s" % pk}
    for L, key, flag, val in (("kotlin", "package", "--java-package", "com.x"), ("scala", "package", "--scala-package", "org.y.z"),
                              ("go", "package", "--go-package", "gpk")):
        for source in ("option", "file"):
            with Scratch() as sc:
                for c in ("alpha", "beta", "gamma"):
                    sc.write("ws/%s/src/lib.rs" % c, "#[typeshare]\npub struct In%s { pub a: u8 }\n" % c.title())
                args = ["--lang", L, "-d", sc.path("out")]
                if source == "option":
                    args += [flag, val]
                else:
                    sc.write("ws/typeshare.toml", toml_text({}, {L: {key: val}}))
                r = run_cli(args + [sc.path("ws")], cwd=sc.path("ws"))
                outs = {fn: open(os.path.join(sc.path("out"), fn), encoding="utf-8").read() for fn in sorted(os.listdir(sc.path("out")))} \
                    if os.path.isdir(sc.path("out")) else {}
            check.saw(("folder-mode", L, source), nontrivial=True)
            check.count("folder-mode")
            for c in ("alpha", "beta", "gamma"):
                text = outs.get("%s.%s" % (c, EXT[L]), "")
                want = expect[L](val, c)
                if r["rc"] != 0 or not re.search(r"(?m)^%s$" % re.escape(want), text):
                    got = [l for l in text.split("\n") if l.startswith("package ")][:2]
                    check.violation("%s -d with %s %s = %r: the module of crate `%s` should carry `%s`, it has %s"
                                    % (L, source, key, val, c, want, got), case={"lang": L, "source_of_setting": source, "value": val, "crate": c},
                                    impl={"rc": r["rc"], "files": {k: v[:600] for k, v in outs.items()}}, failing_input=True)
                    return


def folder_mappings_part(check):
    """file-only settings are applied unchanged in folder mode too, and each language reads *its own* table: the type_mappings tables
    of the six languages have different key sets here (the language under test maps `Stamp`, all others map `Token`), the types are
    defined in one crate and used in another.  The binary's files equal what the back end writes in-process when it is handed the
    very table of its language (definitions, mapped names and import lines alike)"""
    A = "#[typeshare]\npub struct Stamp { pub at: u32 }\n#[typeshare]\npub struct Token { pub t: String }\n#[typeshare]\npub struct Plain { pub p: u8 }\n"
    B = ("use alpha::{Stamp, Token, Plain};\n#[typeshare]\npub struct Api { pub s: Stamp, pub t: Vec<Token>, pub p: Plain }\n"
         "#[typeshare]\npub type Tokens = HashMap<String, Token>;\n")
    for L in LANGS:
        for own, others in (("Stamp", "Token"), ("Token", "Stamp"), (None, "Token")):
            tables = {M: {"type_mappings": ({own: "Mapped" + own} if own else {}) if M == L else {others: "Other" + M.title()}} for M in LANGS}
            with Scratch() as sc:
                sc.write("ws/alpha/src/lib.rs", A)
                sc.write("ws/beta/src/lib.rs", B)
                sc.write("ws/typeshare.toml", toml_text({}, tables))
                r = run_cli(["--lang", L, "-d", sc.path("out")] + lang_args(L) + [sc.path("ws")], cwd=sc.path("ws"))
                outs = {fn: open(os.path.join(sc.path("out"), fn), encoding="utf-8").read() for fn in sorted(os.listdir(sc.path("out")))} \
                    if os.path.isdir(sc.path("out")) else {}
            check.saw(("folder-mappings", L, own, others), nontrivial=True)
            check.count("folder-mappings-" + L)
            cfg = dict(tables[L], version_header=True, prefix="", module_name="",
                       package={"go": "proto", "scala": "com.example", "kotlin": "com.example"}.get(L, ""))
            direct = runner([{"op": "generate", "lang": L, "config": cfg, "multi_file": True, "target_os": [],
                              "files": [{"src": A, "crate": "alpha", "file_name": "x", "path": "ws/alpha/src/lib.rs"},
                                        {"src": B, "crate": "beta", "file_name": "x", "path": "ws/beta/src/lib.rs"}]}])[0]
            case = {"lang": L, "toml": toml_text({}, tables), "sources": {"alpha/src/lib.rs": A, "beta/src/lib.rs": B}, "mode": "-d"}
            if "ok" not in direct:
                if r["rc"] == 0:
                    check.violation("%s -d: the binary succeeds where the back end, handed the file's own table, fails (%s)" % (L, direct),
                                    case=case, impl={"rc": r["rc"], "files": outs}, model=direct, failing_input=True)
                    return
                continue
            if r["rc"] != 0:
                check.violation("%s -d with per-language type_mappings tables: exit %s %s" % (L, r["rc"], r["err"][-300:]), case=case,
                                impl={"rc": r["rc"]}, model=direct, failing_input=True)
                return
            for crate, want in direct["ok"].items():
                if crate.startswith("<"):
                    continue
                got = [t for fn, t in outs.items() if fn.lower().startswith(crate.lower() + ".")]
                if len(got) != 1 or got[0] != want:
                    check.violation("%s -d: the module of crate `%s` written under a typeshare.toml whose [%s.type_mappings] maps %s and whose other "
                                    "languages' tables map %s differs from the back end run with exactly the %s table: %s"
                                    % (L, crate, L, own or "nothing", others, L, l2.text_diff(want, got[0] if got else "")),
                                    case=case, impl={"files": outs}, model=direct, failing_input=True)
                    return


def file_only(check):
    """settings that exist only in the file are applied unchanged"""
    rng = check.rng
    for i in range(12 if check.thorough else 4):
        mapped = "Mapped%d" % rng.randint(0, 999)
        dec = "Deco%d" % rng.randint(0, 999)
        # file-only settings; the acronym list also holds mixed-case entries, entries that differ only in case and an
        # entry given twice (the list must reach the back end as written), the constraint lists are given in a non-sorted order
        acr = rng.sample(["id", "url", "OAuth", "IPv6", "Id", "ID", "api", "macOS"], rng.randint(2, 5))
        acr = acr + ([acr[0]] if rng.random() < 0.3 else [])
        tables = {"swift": {"type_mappings": {"Url": mapped}, "default_decorators": [dec, "Zeta", "Alpha"],
                            "codablevoid_constraints": ["Sendable", "Equatable"], "default_generic_constraints": ["Sendable", "Codable"]},
                  "kotlin": {"type_mappings": {"Url": mapped}}, "scala": {"type_mappings": {"Url": mapped}},
                  "typescript": {"type_mappings": {"Url": mapped}},
                  "go": {"type_mappings": {"Url": mapped}, "uppercase_acronyms": ["id", "url"] + acr, "no_pointer_slice": rng.random() < 0.5},
                  "python": {"type_mappings": {"Url": mapped}}}
        # mappings whose key is a container type, spelled the way the type prints (`HashMap<String,String>`): honoured by the back
        # ends that look special types up in the table (TypeScript, Go, Python)
        cmapped = "StringDict%d" % rng.randint(0, 99)
        for L in ("typescript", "go", "python"):
            tables[L]["type_mappings"]["HashMap<String,String>"] = cmapped
        for L in LANGS:
            with Scratch() as sc:
                sc.write("ws/proj/src/lib.rs", SRC_ACR if L == "go" else SRC_GEN if L == "swift" else SRC)
                sc.write("ws/typeshare.toml", toml_text({}, tables))
                r = run_cli(["--lang", L, "-o", sc.path("out." + EXT[L]), "--swift-prefix", "P"] + lang_args(L) + [sc.path("ws/proj/src")],
                            cwd=sc.path("ws/proj"))
                check.saw(("file-only", L, mapped, dec), nontrivial=True)
                check.count("file-only-" + L)
                if r["rc"] != 0:
                    check.violation("file-only tables (%s): exit %s %s" % (L, r["rc"], r["err"][-300:]), case={"lang": L, "toml": toml_text({}, tables)},
                                    impl={"rc": r["rc"]}, failing_input=True)
                    return
                text = open(sc.path("out." + EXT[L]), encoding="utf-8").read()
                # "applied unchanged": the binary's output equals what the back end writes when it is handed the very values
                # of the file (in-process, bypassing cli/src/main.rs)
                cfg = dict(tables[L], version_header=True, prefix="P" if L == "swift" else "", module_name="",
                           package={"go": "proto", "scala": "com.example", "kotlin": ""}.get(L, ""))
                direct = runner([{"op": "generate", "lang": L, "config": cfg, "multi_file": False, "target_os": [],
                                  "files": [{"src": SRC_ACR if L == "go" else SRC_GEN if L == "swift" else SRC, "crate": "", "file_name": "out", "path": "src/lib.rs"}]}])[0]
                if "ok" in direct and not text.endswith(direct["ok"].get("", "\0")):
                    check.violation("%s: the binary's output under the file-only settings differs from the back end run with exactly those "
                                    "values (the latter is not the tail of the former): %s"
                                    % (L, l2.text_diff(direct["ok"].get("", ""), text[len(text) - len(direct["ok"].get("", "")):])),
                                    case={"lang": L, "toml": toml_text({}, tables)}, impl={"output": text[-2500:]}, model=direct, failing_input=True)
                    return
                missing = []
                if L == "swift":
                    # every generic parameter - annotated with constraints of its own or not - carries the configured ones
                    for m in re.finditer(r"^public (?:struct|enum|indirect enum) \w+<([^>]*)>", text, re.M):
                        for param in m.group(1).split(", "):
                            have = set(x.strip() for x in param.partition(":")[2].split("&"))
                            lack = [c for c in tables["swift"]["default_generic_constraints"] if c not in have]
                            if lack:
                                missing.append("default_generic_constraints %s on the generic parameter `%s`" % (lack, param))
                if L in ("typescript", "go", "python") and cmapped not in text:
                    missing.append("type mapping HashMap<String,String> -> %s" % cmapped)
                if mapped not in text:
                    missing.append("type mapping Url -> %s" % mapped)
                if L == "swift" and dec not in text:
                    missing.append("default decorator %s" % dec)
                if L == "go" and ("ID " not in text or "URL " not in text):
                    missing.append("uppercase_acronyms")
                if missing:
                    check.violation("%s: file-only setting not applied: %s" % (L, ", ".join(missing)),
                                    case={"lang": L, "toml": toml_text({}, tables)}, impl={"output": text[-1500:]}, failing_input=True)
                    return


def generate_config(check):
    """-g writes command line over defaults, never overwrites, and reloads to the same output"""
    rng = check.rng
    for i in range(8 if check.thorough else 3):
        vals = {"--swift-prefix": "SP%d" % i, "--kotlin-prefix": "KP%d" % i, "--java-package": "com.j%d" % i,
                "--module-name": "km%d" % i, "--scala-package": "org.s%d.x" % i, "--scala-module-name": "sm%d" % i,
                "--go-package": "gp%d" % i}
        chosen = {k: v for k, v in vals.items() if rng.random() < 0.6}
        with Scratch() as sc:
            sc.write("ws/proj/src/lib.rs", SRC)
            cfgp = sc.path("ws/gen.toml")
            args = [a for kv in chosen.items() for a in kv]
            r = run_cli(["-g", "-c", cfgp] + args + [sc.path("ws/proj/src")], cwd=sc.path("ws"))
            check.saw(("generate-config", json.dumps(chosen, sort_keys=True)), nontrivial=bool(chosen))
            check.count("generate-config")
            if r["rc"] != 0 or not os.path.exists(cfgp):
                check.violation("-g failed: %s" % r["err"][-300:], case={"options": chosen}, impl={"rc": r["rc"]}, failing_input=True)
                return
            written = tomllib.loads(open(cfgp, encoding="utf-8").read())
            for name, flag, (sec, key), idx, lang in OPTS:
                want = chosen.get(flag, "")
                got = written.get(sec, {}).get(key, "")
                if got != want:
                    check.violation("-g wrote %s.%s = %r, the options give %r" % (sec, key, got, want),
                                    case={"options": chosen}, impl={"toml": open(cfgp).read()}, failing_input=True)
                    return
            before = snapshot(sc.path("ws"))
            r2 = run_cli(["-g", "-c", cfgp, "--swift-prefix", "Other", sc.path("ws/proj/src")], cwd=sc.path("ws"))
            if r2["rc"] == 0 or snapshot(sc.path("ws")) != before:
                check.violation("-g overwrote an existing configuration file", case={"options": chosen},
                                impl={"rc": r2["rc"]}, failing_input=True)
                return
            # whatever the existing file holds (nothing at all, blanks, a comment, another configuration, not even TOML) and however
            # the target is named (-c, or the default ./typeshare.toml), -g refuses and leaves it as it is
            for content in ["", "\n", "# keep me\n", "[swift]\nprefix = \"Pinned\"\n", "not toml at all ]]\n"]:
                for explicit in (True, False):
                    target = sc.path("ws/pre/typeshare.toml")
                    sc.write("ws/pre/typeshare.toml", content)
                    before = snapshot(sc.path("ws"))
                    r3 = run_cli(["-g"] + (["-c", target] if explicit else []) + ["--swift-prefix", "Other", sc.path("ws/proj/src")],
                                 cwd=sc.path("ws/pre"))
                    check.saw(("generate-config-existing", content, explicit, i), nontrivial=True)
                    check.count("generate-config-existing-%s" % ("empty" if not content else "nonempty"))
                    if r3["rc"] == 0 or snapshot(sc.path("ws")) != before:
                        check.violation("-g wrote into an existing configuration file (%d bytes: %r, named %s)"
                                        % (len(content), content, "by -c" if explicit else "by default"), case={"existing_content": content, "explicit": explicit},
                                        impl={"rc": r3["rc"], "now": open(target).read()}, failing_input=True)
                        return
            # reload: same generated code as with the options themselves
            for L in ("swift", "kotlin"):
                a = run_cli(["--lang", L, "-o", sc.path("a." + EXT[L])] + args + [sc.path("ws/proj/src")], cwd=sc.path("ws/proj"))
                b = run_cli(["--lang", L, "-o", sc.path("b." + EXT[L]), "-c", cfgp, sc.path("ws/proj/src")], cwd=sc.path("ws/proj"))
                ta = open(sc.path("a." + EXT[L])).read() if a["rc"] == 0 else None
                tb = open(sc.path("b." + EXT[L])).read() if b["rc"] == 0 else None
                if ta != tb:
                    check.violation("the configuration written by -g does not reload to the same %s output" % L,
                                    case={"options": chosen}, impl={"with_options": ta, "with_file": tb}, failing_input=True)
                    return
    check.sample({"generate_config_options": chosen, "written_toml": written})
