import TsV.Lemmas.C06_Multi_Backends
import TsV.Lemmas.Outcome
/-!
# From source files to arrivals: walk order and the `HashSet::find` choice

* `parseAll_perm`: when every file parses, permuting the files permutes the arrivals;
* `parseAll_pick`: the choice `pick` that `min_by_key` makes in `find_type` (`reconcile_referenced_types`) among the
  imports of one name with the smallest crate name is irrelevant: they are all the same import.
-/
namespace TsV.C06M
open TsV

def optList {α} : Option α → List α
  | some d => [d]
  | none => []

theorem parseAll_cons_ok (E : Ext) (ctx : ParseContext) (pick : List ImportedType → Option ImportedType)
    (f : Generate.SourceFile) (fs : List Generate.SourceFile) (a : List ParsedData) :
    Generate.parseAll E ctx pick (f :: fs) = .ok a ↔
      ∃ r rest, Visitor.parseFile E ctx pick f.crateName f.fileName f.path f.file = .ok r ∧
        Generate.parseAll E ctx pick fs = .ok rest ∧ a = optList r ++ rest := by
  have e : Generate.parseAll E ctx pick (f :: fs) =
      (Visitor.parseFile E ctx pick f.crateName f.fileName f.path f.file).bind fun r =>
      (Generate.parseAll E ctx pick fs).bind fun rest =>
        .ok (match r with | some d => d :: rest | none => rest) := rfl
  rw [e]
  cases h1 : Visitor.parseFile E ctx pick f.crateName f.fileName f.path f.file with
  | ok r =>
    cases h2 : Generate.parseAll E ctx pick fs with
    | ok rest =>
      cases r with
      | none => simp [Outcome.bind, optList, eq_comm]
      | some d => simp [Outcome.bind, optList, eq_comm]
    | err e => simp [Outcome.bind]
    | panic s => simp [Outcome.bind]
  | err e => simp [Outcome.bind]
  | panic s => simp [Outcome.bind]

theorem filterMap_congr' {α β} {f g : α → Option β} : ∀ {l : List α}, (∀ x ∈ l, f x = g x) →
    l.filterMap f = l.filterMap g
  | [], _ => rfl
  | x :: t, h => by
    simp only [List.filterMap_cons, h x (by simp)]
    rw [filterMap_congr' (l := t) (fun y hy => h y (by simp [hy]))]

/-- **walk order**: if every file parses, another order of the files yields a permutation of the arrivals -/
theorem parseAll_perm (E : Ext) (ctx : ParseContext) (pick : List ImportedType → Option ImportedType)
    {files files' : List Generate.SourceFile} (hp : files.Perm files') :
    ∀ a, Generate.parseAll E ctx pick files = .ok a →
      ∃ b, Generate.parseAll E ctx pick files' = .ok b ∧ a.Perm b := by
  induction hp with
  | nil => intro a h; exact ⟨a, h, .refl _⟩
  | cons x _ ih =>
    intro a h
    obtain ⟨r, rest, h1, h2, rfl⟩ := (parseAll_cons_ok E ctx pick x _ a).1 h
    obtain ⟨b, hb, hab⟩ := ih rest h2
    exact ⟨optList r ++ b, (parseAll_cons_ok E ctx pick x _ _).2 ⟨r, b, h1, hb, rfl⟩, hab.append_left _⟩
  | swap x y l =>
    intro a h
    obtain ⟨ry, rest, h1, h2, rfl⟩ := (parseAll_cons_ok E ctx pick y _ a).1 h
    obtain ⟨rx, rest', h3, h4, rfl⟩ := (parseAll_cons_ok E ctx pick x _ rest).1 h2
    refine ⟨optList rx ++ (optList ry ++ rest'), ?_, ?_⟩
    · exact (parseAll_cons_ok E ctx pick x _ _).2 ⟨rx, _, h3,
        (parseAll_cons_ok E ctx pick y _ _).2 ⟨ry, rest', h1, h4, rfl⟩, rfl⟩
    · rw [← List.append_assoc, ← List.append_assoc]
      exact List.perm_append_comm.append_right _
  | trans _ _ ih1 ih2 =>
    intro a h
    obtain ⟨b, hb, hab⟩ := ih1 a h
    obtain ⟨c, hc, hbc⟩ := ih2 b hb
    exact ⟨c, hc, hab.trans hbc⟩

/-- a choice function (`HashSet::find` before the repair, the choice of `min_by_key` among equally minimal
candidates since): some element of the list if there is one, `None` otherwise -/
def ValidPick (pick : List ImportedType → Option ImportedType) : Prop :=
  ∀ l, match pick l with
    | none => l = []
    | some x => x ∈ l

theorem validPick_unique {p p' : List ImportedType → Option ImportedType} (h : ValidPick p) (h' : ValidPick p') :
    ∀ l : List ImportedType, l.length ≤ 1 → p l = p' l
  | [], _ => by
    have h1 := h []; have h2 := h' []
    cases hp : p [] with
    | some x => rw [hp] at h1; simp at h1
    | none =>
      cases hp' : p' [] with
      | some x => rw [hp'] at h2; simp at h2
      | none => rfl
  | [x], _ => by
    have h1 := h [x]; have h2 := h' [x]
    cases hp : p [x] with
    | none => rw [hp] at h1; simp at h1
    | some y =>
      cases hp' : p' [x] with
      | none => rw [hp'] at h2; simp at h2
      | some z =>
        rw [hp] at h1; rw [hp'] at h2
        simp only [List.mem_singleton] at h1 h2
        rw [h1, h2]
  | _ :: _ :: _, hl => by simp at hl

/-- two valid choices agree on a list whose elements are all the same -/
theorem validPick_allEq {p p' : List ImportedType → Option ImportedType} (h : ValidPick p) (h' : ValidPick p')
    (l : List ImportedType) (hl : ∀ x ∈ l, ∀ y ∈ l, x = y) : p l = p' l := by
  have h1 := h l; have h2 := h' l
  cases hp : p l with
  | none =>
    rw [hp] at h1
    simp only at h1
    subst h1
    cases hp' : p' [] with
    | none => rfl
    | some y => rw [hp'] at h2; simp at h2
  | some x =>
    rw [hp] at h1
    simp only at h1
    cases hp' : p' l with
    | none => rw [hp'] at h2; simp only at h2; rw [h2] at h1; simp at h1
    | some y => rw [hp'] at h2; simp only at h2; rw [hl x h1 y h2]

/-- the candidates of one name with the smallest crate name are all the same import: `min_by_key` in `find_type`
has no real choice -/
theorem minCrate_allEq (imports : List ImportedType) (name : Str) :
    ∀ x ∈ Visitor.minCrate (imports.filter (·.typeName == name)),
    ∀ y ∈ Visitor.minCrate (imports.filter (·.typeName == name)), x = y := by
  intro x hx y hy
  unfold Visitor.minCrate at hx hy
  simp only [List.mem_filter, List.all_eq_true, beq_iff_eq] at hx hy
  have h1 := hx.2 y hy.1
  have h2 := hy.2 x hx.1
  have hb : x.baseCrate = y.baseCrate := Order.le_antisymm _ _ h1 h2
  have ht : x.typeName = y.typeName := hx.1.2.trans hy.1.2.symm
  obtain ⟨xb, xt⟩ := x
  obtain ⟨yb, yt⟩ := y
  simp only at hb ht
  rw [hb, ht]

/-- **hash order in `find_type`** (`reconcile_referenced_types`): the result does not depend on which of the
equally minimal candidates `min_by_key` returns — for every file, whatever it imports -/
theorem reconcileReferencedTypes_pick (U : UnicodeOps) {p p' : List ImportedType → Option ImportedType}
    (h : ValidPick p) (h' : ValidPick p') (d : ParsedData) :
    Visitor.reconcileReferencedTypes U p d = Visitor.reconcileReferencedTypes U p' d := by
  unfold Visitor.reconcileReferencedTypes
  have : ((((Visitor.allReferences U d).eraseDups).filter fun r => !d.typeNames.contains r).filterMap fun name =>
        p (Visitor.minCrate (d.importTypes.filter (·.typeName == name)))) =
      ((((Visitor.allReferences U d).eraseDups).filter fun r => !d.typeNames.contains r).filterMap fun name =>
        p' (Visitor.minCrate (d.importTypes.filter (·.typeName == name)))) := by
    apply filterMap_congr'
    intro name _
    exact validPick_allEq h h' _ (minCrate_allEq d.importTypes name)
  simp only [this]

theorem parseFile_pick (E : Ext) (ctx : ParseContext) {p p' : List ImportedType → Option ImportedType}
    (h : ValidPick p) (h' : ValidPick p') (c fn path : Str) (f : Syn.File) :
    Visitor.parseFile E ctx p c fn path f = Visitor.parseFile E ctx p' c fn path f := by
  unfold Visitor.parseFile
  by_cases hm : f.marker = true
  · simp only [hm, Bool.not_true, Bool.false_eq_true, if_false]
    cases hv : Visitor.visitFile E ctx c fn path f with
    | ok d =>
      simp only [Outcome.bind]
      rw [reconcileReferencedTypes_pick E.U h h' d]
    | err e => rfl
    | panic s => rfl
  · simp [hm]

/-- **hash order in `reconcile_referenced_types`**: the arrivals do not depend on the choice among equally
minimal candidates -/
theorem parseAll_pick (E : Ext) (ctx : ParseContext) {p p' : List ImportedType → Option ImportedType}
    (h : ValidPick p) (h' : ValidPick p') : ∀ (files : List Generate.SourceFile),
    Generate.parseAll E ctx p files = Generate.parseAll E ctx p' files
  | [] => rfl
  | f :: fs => by
    rw [Generate.parseAll, Generate.parseAll, parseFile_pick E ctx h h', parseAll_pick E ctx h h' fs]

theorem validPick_head : ValidPick fun l => l.head? := by
  intro l; cases l <;> simp

theorem validPick_getLast : ValidPick fun l => l.getLast? := by
  intro l
  show match l.getLast? with | none => l = [] | some x => x ∈ l
  cases h : l.getLast? with
  | none => simpa using h
  | some x => exact List.mem_of_getLast? h

/-- the value of a successful outcome -/
def getOk {α} [Inhabited α] : Outcome α → α
  | .ok a => a
  | _ => default

theorem eq_ok_getOk {α} [Inhabited α] {o : Outcome α} (h : o.isOk = true) : o = .ok (getOk o) := by
  cases o <;> simp_all [Outcome.isOk, getOk]

end TsV.C06M
