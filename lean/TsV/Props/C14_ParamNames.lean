import TsV.Lemmas.C14_ParamNames
/-!
# C14_ParamNames — the references a file keeps do not depend on the names of generic parameters

C14: "every cross-module reference is imported".  In folder mode `reconcile_referenced_types`
(`Visitor.reconcileReferencedTypes`) keeps, of the imports a file's `use` items and paths yield, those
whose name some generated item *references* (`all_references`) and the file does not define.  Names are
only names: an item may call one of its generic parameters like a type another item imports
(`struct Wrapper<Foo> { v: Foo }` next to `struct User { f: Foo }` with `use alpha::Foo;`).  The
reference set must not be pruned by binder names of *other* items (a seeded change that dropped every
reference called like a generic parameter of any item of the file was the miss of round 11).

* `references_ignore_binder_lists`: the reference set — and the imports kept — are a function of the
  *types mentioned*; the items' generic parameter lists are not read at all;
* `needed_by_other_item_kept`: if an item mentions the imported type `T` (a field whose type contains
  `T`), `T` is not defined in the file and is imported from one crate, the import is kept — whatever the
  other items of the file are and however their generic parameters are called;
* `rename_keeps_other_references`, `rename_keeps_other_imports`: renaming a generic parameter `P` of one
  struct to any name `Q` — in its binder list and its field types, in particular to the name of an
  imported type, and (the same lemma again) back — leaves every reference to a name other than `P` in
  place, and with it the import kept for that name.
* `C14_ParamNames : C14_ParamNames_full`.  Nothing is false on the model.
-/
namespace TsV.C14_ParamNames
open TsV TsV.Visitor TsV.C06M TsV.C14I

/-! ## 1. binder lists are not read -/

/-- the same items with other generic parameter lists -/
def withGenerics (g : List Str → List Str) (d : ParsedData) : ParsedData :=
  { d with structs := d.structs.map fun s => { s with genericTypes := g s.genericTypes },
           enums := d.enums.map fun e => { e with genericTypes := g e.genericTypes },
           aliases := d.aliases.map fun a => { a with genericTypes := g a.genericTypes } }

/-- **the reference set and the imports kept do not read the binder lists** -/
theorem references_ignore_binder_lists (U : UnicodeOps) (pick : List ImportedType → Option ImportedType)
    (g : List Str → List Str) (d : ParsedData) :
    allReferences U (withGenerics g d) = allReferences U d ∧
    (reconcileReferencedTypes U pick (withGenerics g d)).importTypes = (reconcileReferencedTypes U pick d).importTypes := by
  have h : allReferences U (withGenerics g d) = allReferences U d := by
    simp [allReferences, withGenerics, List.flatMap_map, List.map_map, Function.comp_def]
  refine ⟨h, ?_⟩
  simp only [reconcileReferencedTypes, h]
  rfl

/-! ## 2. an import another item needs is kept -/

/-- **the import needed by one item is kept, whatever the other items and their binders are** -/
theorem needed_by_other_item_kept (U : UnicodeOps) (pick : List ImportedType → Option ImportedType) (hp : ValidPick pick)
    (d : ParsedData) (s : RustStruct) (fl : RustField) (c T : Str) (hs : s ∈ d.structs) (hf : fl ∈ s.fields)
    (hT : T ∈ fl.ty.allIds) (hacc : acceptType U T = true) (hloc : T ∉ d.typeNames)
    (himp : ⟨c, T⟩ ∈ d.importTypes) (huniq : ∀ j ∈ d.importTypes, j.typeName = T → j.baseCrate = c) :
    ⟨c, T⟩ ∈ (reconcileReferencedTypes U pick d).importTypes :=
  reconcile_keeps_named U pick hp d c T himp (ref_of_struct_field U d s fl T hs hf hT hacc) hloc huniq

/-! ## 3. renaming a parameter -/

/-- the data with the struct `B` (at one position of the list) replaced by `B` with its parameter renamed -/
def renamedIn (p q : Str) (pre post : List RustStruct) (B : RustStruct) (d : ParsedData) : ParsedData :=
  { d with structs := pre ++ renameStruct p q B :: post }

/-- **renaming `P` to `Q` in one struct keeps every reference to another name** -/
theorem rename_keeps_other_references (U : UnicodeOps) (p q : Str) (pre post : List RustStruct) (B : RustStruct)
    (d : ParsedData) (hd : d.structs = pre ++ B :: post) (x : Str) (hx : x ≠ p) (h : x ∈ allReferences U d) :
    x ∈ allReferences U (renamedIn p q pre post B d) := by
  rw [mem_allReferences] at h ⊢
  obtain ⟨hacc, ty, hty, hxt⟩ := h
  refine ⟨hacc, ?_⟩
  simp only [refTypes, hd, List.mem_append, List.flatMap_append, List.flatMap_cons] at hty
  simp only [refTypes, renamedIn, List.mem_append, List.flatMap_append, List.flatMap_cons]
  rcases hty with ((((h1 | h2 | h3) | h4) | h5) | h6)
  · exact ⟨ty, .inl (.inl (.inl (.inl h1))), hxt⟩
  · obtain ⟨fl, hfl, rfl⟩ := List.mem_map.1 h2
    refine ⟨subst p q fl.ty, .inl (.inl (.inl (.inr (.inl ?_)))), mem_allIds_subst p q x hx _ hxt⟩
    simp only [renameStruct, List.map_map]
    exact List.mem_map.2 ⟨fl, hfl, rfl⟩
  · exact ⟨ty, .inl (.inl (.inl (.inr (.inr h3)))), hxt⟩
  · exact ⟨ty, .inl (.inl (.inr h4)), hxt⟩
  · exact ⟨ty, .inl (.inr h5), hxt⟩
  · exact ⟨ty, .inr h6, hxt⟩

/-- **… and the import kept for it** (the renaming touches neither the imports nor the type names) -/
theorem rename_keeps_other_imports (U : UnicodeOps) (pick : List ImportedType → Option ImportedType) (hp : ValidPick pick)
    (p q : Str) (pre post : List RustStruct) (B : RustStruct) (d : ParsedData) (hd : d.structs = pre ++ B :: post)
    (i : ImportedType) (hi : i ∈ (reconcileReferencedTypes U pick d).importTypes) (hne : i.typeName ≠ p) :
    i ∈ (reconcileReferencedTypes U pick (renamedIn p q pre post B d)).importTypes := by
  rw [mem_reconcile_imports] at hi ⊢
  rcases hi with ⟨name, href, hloc, hpk⟩ | hw
  · have hv := hp (minCrate (d.importTypes.filter (·.typeName == name)))
    rw [hpk] at hv
    have hv := (mem_minCrate.1 hv).1
    simp only [List.mem_filter, beq_iff_eq] at hv
    have hname : name ≠ p := fun e => hne (hv.2.trans e)
    exact .inl ⟨name, rename_keeps_other_references U p q pre post B d hd name hname href, hloc, hpk⟩
  · exact .inr hw

/-! ## the statement at full strength -/

def C14_ParamNames_full : Prop :=
  ∀ (U : UnicodeOps) (pick : List ImportedType → Option ImportedType), ValidPick pick → ∀ d : ParsedData,
    (∀ g : List Str → List Str, allReferences U (withGenerics g d) = allReferences U d ∧
      (reconcileReferencedTypes U pick (withGenerics g d)).importTypes = (reconcileReferencedTypes U pick d).importTypes) ∧
    (∀ (s : RustStruct) (fl : RustField) (c T : Str), s ∈ d.structs → fl ∈ s.fields → T ∈ fl.ty.allIds →
      acceptType U T = true → T ∉ d.typeNames → ⟨c, T⟩ ∈ d.importTypes →
      (∀ j ∈ d.importTypes, j.typeName = T → j.baseCrate = c) →
      ⟨c, T⟩ ∈ (reconcileReferencedTypes U pick d).importTypes) ∧
    (∀ (p q : Str) (pre post : List RustStruct) (B : RustStruct), d.structs = pre ++ B :: post →
      (∀ x, x ≠ p → x ∈ allReferences U d → x ∈ allReferences U (renamedIn p q pre post B d)) ∧
      (∀ i ∈ (reconcileReferencedTypes U pick d).importTypes, i.typeName ≠ p →
        i ∈ (reconcileReferencedTypes U pick (renamedIn p q pre post B d)).importTypes))

theorem C14_ParamNames : C14_ParamNames_full := fun U pick hp d =>
  ⟨fun g => references_ignore_binder_lists U pick g d,
   fun s fl c T hs hf hT hacc hloc himp hu => needed_by_other_item_kept U pick hp d s fl c T hs hf hT hacc hloc himp hu,
   fun p q pre post B hd =>
     ⟨fun x hx h => rename_keeps_other_references U p q pre post B d hd x hx h,
      fun i hi hne => rename_keeps_other_imports U pick hp p q pre post B d hd i hi hne⟩⟩

/-! ## non-vacuity: `use alpha::Foo; struct Wrapper<P> { v: P }  struct User { f: Foo }` and the same with
`P` renamed to `Foo` -/

def mkField (n : Str) (ty : RustType) : RustField := { id := ⟨n, n, false⟩, ty, comments := [], hasDefault := false, decorators := [] }
def wWrapper : RustStruct :=
  { id := ⟨s%"Wrapper", s%"Wrapper", false⟩, genericTypes := [s%"P"], fields := [mkField s%"v" (.simple s%"P")], comments := [],
    decorators := {}, isRedacted := false }
def wUser : RustStruct :=
  { id := ⟨s%"User", s%"User", false⟩, genericTypes := [], fields := [mkField s%"f" (.vec (.simple s%"Foo"))], comments := [],
    decorators := {}, isRedacted := false }
def wData : ParsedData :=
  { structs := [wWrapper, wUser], typeNames := [s%"Wrapper", s%"User"], importTypes := [⟨s%"alpha", s%"Foo"⟩, ⟨s%"alpha", s%"Unused"⟩],
    crateName := s%"beta", multiFile := true }

/-- before, after renaming `P` to `Foo` (binder `[Foo]`, field `v: Foo`), and back: the import of `Foo`
that `User` needs is kept, the unused one is dropped -/
theorem rename_example :
    (reconcileReferencedTypes .ascii List.head? wData).importTypes = [⟨s%"alpha", s%"Foo"⟩] ∧
    (reconcileReferencedTypes .ascii List.head? (renamedIn s%"P" s%"Foo" [] [wUser] wWrapper wData)).importTypes =
      [⟨s%"alpha", s%"Foo"⟩] ∧
    (renameStruct s%"P" s%"Foo" wWrapper).genericTypes = [s%"Foo"] ∧
    ((renameStruct s%"P" s%"Foo" wWrapper).fields.map (·.ty.id)) = [s%"Foo"] ∧
    (renameStruct s%"Foo" s%"P" (renameStruct s%"P" s%"Foo" wWrapper)).genericTypes = [s%"P"] ∧
    wData.structs = [] ++ wWrapper :: [wUser] :=
  ⟨by decide +kernel, by decide +kernel, by decide +kernel, by decide +kernel, by decide +kernel, rfl⟩

/-- the hypotheses of `needed_by_other_item_kept` on the witness -/
example : wUser ∈ wData.structs ∧ s%"Foo" ∈ (mkField s%"f" (.vec (.simple s%"Foo"))).ty.allIds ∧
    acceptType .ascii s%"Foo" = true ∧ s%"Foo" ∉ wData.typeNames ∧ (⟨s%"alpha", s%"Foo"⟩ : ImportedType) ∈ wData.importTypes :=
  ⟨by simp [wData], by decide +kernel, by decide +kernel, by decide +kernel, by decide +kernel⟩

end TsV.C14_ParamNames
