import TsV.Lemmas.C10_Lex
import TsV.Lemmas.C10_LexPy
import TsV.Lemmas.C15
/-!
# C10, Python — the algebra of the Python automaton `C10LexPy`

Runs, neutral pieces (`NBp`), plain strings, brackets, `#` comments, `"…"` literals (a possibly empty
literal is handled together with the text that follows it: after `""` the automaton is still waiting
for a third quote), docstrings (`\"\"\"` … `\"\"\"` around lines that contain no unescaped `\"\"\"`),
and the frame lemma that turns `wellBracketedPy` into a neutral piece.
-/
namespace TsV.C10Files.Py
open TsV TsV.Lang TsV.C10LexPy

abbrev Mode := C10LexPy.Mode
abbrev PSt := C10LexPy.St

/-- the run over `x` from `a` ends in `b` -/
def Run (x : Str) (a b : PSt) : Prop := scan a x = some b

theorem scan_append : ∀ (x y : Str) (a : PSt), scan a (x ++ y) = (scan a x).bind fun b => scan b y
  | [], _, _ => rfl
  | c :: cs, y, a => by
    simp only [List.cons_append, scan]
    cases step a c with
    | none => rfl
    | some a' => exact scan_append cs y a'

theorem Run.nil {a : PSt} : Run [] a a := rfl

theorem Run.append {x y : Str} {a b c : PSt} (h1 : Run x a b) (h2 : Run y b c) : Run (x ++ y) a c := by
  unfold Run at *
  rw [scan_append, h1]; exact h2

/-- neutral piece: code state to code state with the same stack, whatever the stack -/
def NBp (x : Str) : Prop := ∀ stk, Run x ⟨.code, stk⟩ ⟨.code, stk⟩

theorem NBp.wb {x : Str} (h : NBp x) : wellBracketedPy x = true := by
  have := h []
  unfold Run at this
  simp [wellBracketedPy, init, this]

theorem NBp.nil : NBp [] := fun _ => rfl

theorem NBp.append {x y : Str} (hx : NBp x) (hy : NBp y) : NBp (x ++ y) := fun stk => (hx stk).append (hy stk)

theorem NBp.flatMap {α} (f : α → Str) : ∀ (l : List α), (∀ a ∈ l, NBp (f a)) → NBp (l.flatMap f)
  | [], _ => NBp.nil
  | a :: as, h => by
    rw [List.flatMap_cons]
    exact (h a (by simp)).append (NBp.flatMap f as fun b hb => h b (by simp [hb]))

theorem NBp.flatten (l : List Str) (h : ∀ a ∈ l, NBp a) : NBp l.flatten := by
  have := NBp.flatMap id l (by simpa using h)
  simpa using this

theorem NBp.intercalate (sep : Str) (hs : NBp sep) : ∀ (l : List Str), (∀ a ∈ l, NBp a) → NBp (Str.intercalate sep l)
  | [], _ => NBp.nil
  | [x], h => h x (by simp)
  | x :: y :: r, h => by
    show NBp (x ++ sep ++ Str.intercalate sep (y :: r))
    exact ((h x (by simp)).append hs).append (NBp.intercalate sep hs (y :: r) fun a ha => h a (by simp [ha]))

macro "nbp_lit" : tactic => `(tactic| exact fun _ => rfl)
macro "nbp_pieces" : tactic => `(tactic| repeat' (with_reducible apply NBp.append))

/-! ## plain characters -/

def plainPy (c : Char) : Bool :=
  c != '#' && c != '"' && c != '\'' && c != '(' && c != '[' && c != '{' && c != ')' && c != ']' && c != '}'

def PlainPy (s : Str) : Prop := ∀ c ∈ s, plainPy c = true
instance (s : Str) : Decidable (PlainPy s) := by unfold PlainPy; infer_instance

theorem codeStep_plain {stk : List Char} {c : Char} (h : plainPy c = true) : codeStep stk c = some ⟨.code, stk⟩ := by
  simp only [plainPy, Bool.and_eq_true, bne_iff_ne, ne_eq] at h
  obtain ⟨⟨⟨⟨⟨⟨⟨⟨h1, h2⟩, h3⟩, h4⟩, h5⟩, h6⟩, h7⟩, h8⟩, h9⟩ := h
  simp [codeStep, h1, h2, h3, h4, h5, h6, h7, h8, h9]

theorem PlainPy.nb : ∀ {s : Str}, PlainPy s → NBp s
  | [], _ => NBp.nil
  | c :: cs, h => by
    intro stk
    have hc := h c (by simp)
    have ih := PlainPy.nb (s := cs) (fun d hd => h d (by simp [hd])) stk
    unfold Run at *
    simp only [scan, step, codeStep_plain hc]
    exact ih

theorem plainPy_of_plain (c : Char) (h : C10Lex.plainChar ⟨false, false⟩ c = true) (h' : c ≠ '#') : plainPy c = true := by
  simp only [C10Lex.plainChar, C10Lex.isQuote, C10Lex.isOpen, C10Lex.opener?, Bool.and_eq_true, bne_iff_ne, ne_eq,
    Bool.not_eq_true', Bool.or_eq_false_iff, beq_eq_false_iff_ne, Option.isNone_iff_eq_none, Bool.false_and] at h
  obtain ⟨⟨⟨⟨_, h2, h3⟩, _⟩, h4⟩, h5⟩ := h
  have h6 : c ≠ ')' := by intro e; subst e; simp at h5
  have h7 : c ≠ ']' := by intro e; subst e; simp at h5
  have h8 : c ≠ '}' := by intro e; subst e; simp at h5
  simp [plainPy, h', h2, h3, h4.1.1, h4.1.2, h6, h7, h8]

theorem dottedChar_plainPy (c : Char) (h : C10Lex.dottedChar c = true) : plainPy c = true :=
  plainPy_of_plain c (C10Lex.dottedChar_plain _ c h) (by intro e; subst e; revert h; decide)

theorem keyChar_plainPy (c : Char) (h : C10Lex.keyChar c = true) : plainPy c = true :=
  dottedChar_plainPy c (by simp [C10Lex.dottedChar, h])

theorem Dotted.nbp {s : Str} (h : C10Lex.Dotted s) : NBp s := PlainPy.nb fun c hc => dottedChar_plainPy c (h c hc)
theorem KeyStr.nbp {s : Str} (h : C10Lex.KeyStr s) : NBp s := PlainPy.nb fun c hc => keyChar_plainPy c (h c hc)
theorem IdentStr.nbp {s : Str} (h : C10Lex.IdentStr s) : NBp s := KeyStr.nbp h.key

theorem natToStr_nbp (n : Nat) : NBp (Str.natToStr n) :=
  PlainPy.nb fun c hc => plainPy_of_plain c (C10Lex.natToStr_plain _ n c hc) (by
    intro e; subst e
    have := C10Lex.natToStr_plain ⟨false, false⟩ n '#' hc
    have hd : Str.natToStr n = Nat.toDigits 10 n := by simp [Str.natToStr, Nat.repr, toString, ToString.toString]
    rw [hd] at hc
    have := Nat.isDigit_of_mem_toDigits (by decide) (by decide) hc
    revert this; decide)

theorem NBp.nl : NBp Lang.nl := by nbp_lit

theorem nbp_commaSep : NBp s%", " := by nbp_lit

theorem indent_eq (n : Nat) : Python.indent (n + 1) = s%"    " ++ Python.indent n := by
  simp [Python.indent, List.replicate_succ]

theorem NBp.indent (n : Nat) : NBp (Python.indent n) := by
  induction n with
  | zero => exact NBp.nil
  | succ k ih => rw [indent_eq]; exact NBp.append (by nbp_lit) ih

/-! ## brackets -/

theorem NBp.paren {x : Str} (h : NBp x) : NBp (s%"(" ++ x ++ s%")") := by
  intro stk
  have h1 : Run s%"(" ⟨.code, stk⟩ ⟨.code, '(' :: stk⟩ := rfl
  have h3 : Run s%")" ⟨.code, '(' :: stk⟩ ⟨.code, stk⟩ := rfl
  exact (h1.append (h _)).append h3

theorem NBp.square {x : Str} (h : NBp x) : NBp (s%"[" ++ x ++ s%"]") := by
  intro stk
  have h1 : Run s%"[" ⟨.code, stk⟩ ⟨.code, '[' :: stk⟩ := rfl
  have h3 : Run s%"]" ⟨.code, '[' :: stk⟩ ⟨.code, stk⟩ := rfl
  exact (h1.append (h _)).append h3

theorem NBp.bracket (ps : List Str) (h : ∀ p ∈ ps, NBp p) : NBp (Python.bracket ps) :=
  NBp.square (NBp.intercalate _ nbp_commaSep ps h)

theorem NBp.bracketSuffix (ps : List Str) (h : ∀ p ∈ ps, NBp p) : NBp (Python.bracketSuffix ps) := by
  unfold Python.bracketSuffix
  split
  · exact NBp.nil
  · exact NBp.bracket ps h

/-! ## `#` comments -/

theorem hash_body : ∀ (s : Str) (stk : List Char), '\n' ∉ s → Run s ⟨.hash, stk⟩ ⟨.hash, stk⟩
  | [], _, _ => rfl
  | c :: cs, stk, h => by
    have hc : c ≠ '\n' := fun e => h (by simp [e])
    have ih := hash_body cs stk (fun e => h (by simp [e]))
    unfold Run at *
    simp only [scan, step, hc, if_false]
    exact ih

/-- `# text \n` -/
theorem NBp.hashComment (text : Str) (h : '\n' ∉ text) : NBp (s%"#" ++ text ++ s%"\n") := by
  intro stk
  have h1 : Run s%"#" ⟨.code, stk⟩ ⟨.hash, stk⟩ := rfl
  have h3 : Run s%"\n" ⟨.hash, stk⟩ ⟨.code, stk⟩ := rfl
  exact (h1.append (hash_body text stk h)).append h3

/-! ## `"…"` literals -/

theorem str_body : ∀ (s : Str) (stk : List Char), (∀ c ∈ s, C10Lex.strChar c = true) →
    Run s ⟨.str '"', stk⟩ ⟨.str '"', stk⟩
  | [], _, _ => rfl
  | c :: cs, stk, h => by
    have hc := h c (by simp)
    simp only [C10Lex.strChar, Bool.and_eq_true, bne_iff_ne, ne_eq] at hc
    have ih := str_body cs stk (fun d hd => h d (by simp [hd]))
    unfold Run at *
    simp only [scan, step, hc.1.1, hc.1.2, hc.2, if_false]
    exact ih

/-- a `"`-literal over harmless characters, **followed by** a text that does not start with a quote:
the literal is closed and the rest is read from code state (for the empty literal the automaton is in
`q2` after `""`, where any character but a third quote is read as in code state) -/
theorem run_quoted_then (s : Str) (hs : ∀ c ∈ s, C10Lex.strChar c = true) (c : Char) (rest : Str) (hc : c ≠ '"')
    (stk : List Char) (b : PSt) (h : Run (c :: rest) ⟨.code, stk⟩ b) :
    Run (s%"\"" ++ s ++ s%"\"" ++ (c :: rest)) ⟨.code, stk⟩ b := by
  cases s with
  | nil =>
    unfold Run at *
    simp only [List.append_nil, List.cons_append, List.nil_append, scan, step, codeStep] at h ⊢
    simpa [hc] using h
  | cons x t =>
    have hx := hs x (by simp)
    simp only [C10Lex.strChar, Bool.and_eq_true, bne_iff_ne, ne_eq] at hx
    have r1 : Run (s%"\"" ++ [x]) ⟨.code, stk⟩ ⟨.str '"', stk⟩ := by
      unfold Run
      simp [scan, step, codeStep, hx.1.1, hx.1.2, hx.2]
    have r2 := str_body t stk (fun d hd => hs d (by simp [hd]))
    have r3 : Run s%"\"" ⟨.str '"', stk⟩ ⟨.code, stk⟩ := rfl
    have := ((r1.append r2).append r3).append h
    simpa [List.append_assoc] using this

/-! ## docstrings -/

/-- inside a `\"\"\"` literal -/
def InDoc (stk : List Char) (b : PSt) : Prop :=
  b = ⟨.tri '"', stk⟩ ∨ b = ⟨.triEsc '"', stk⟩ ∨ b = ⟨.t1 '"', stk⟩ ∨ b = ⟨.t2 '"', stk⟩

open TsV.C15 in
/-- a text without an unescaped `\"\"\"` never closes the literal -/
theorem doc_body (stk : List Char) : ∀ (c : Str),
    (unescapedTripleQuote false c = false → ∃ b, InDoc stk b ∧ Run c ⟨.tri '"', stk⟩ b) ∧
    (unescapedTripleQuote true c = false → ∃ b, InDoc stk b ∧ Run c ⟨.triEsc '"', stk⟩ b) ∧
    (Str.startsWith c s%"\"\"" = false → unescapedTripleQuote false c = false →
      ∃ b, InDoc stk b ∧ Run c ⟨.t1 '"', stk⟩ b) ∧
    (Str.startsWith c s%"\"" = false → unescapedTripleQuote false c = false →
      ∃ b, InDoc stk b ∧ Run c ⟨.t2 '"', stk⟩ b)
  | [] => ⟨fun _ => ⟨_, .inl rfl, rfl⟩, fun _ => ⟨_, .inr (.inl rfl), rfl⟩, fun _ _ => ⟨_, .inr (.inr (.inl rfl)), rfl⟩,
      fun _ _ => ⟨_, .inr (.inr (.inr rfl)), rfl⟩⟩
  | x :: t => by
    obtain ⟨ih0, ihE, ih1, ih2⟩ := doc_body stk t
    have lift : ∀ (a a' : PSt), step a x = some a' → (∃ b, InDoc stk b ∧ Run t a' b) →
        ∃ b, InDoc stk b ∧ Run (x :: t) a b := by
      intro a a' hs ⟨b, hb, hr⟩
      refine ⟨b, hb, ?_⟩
      unfold Run at *
      simp only [scan, hs]; exact hr
    by_cases hq : x = '"'
    · subst hq
      refine ⟨?_, ?_, ?_, ?_⟩
      · intro h
        simp [unescapedTripleQuote, Str.startsWith] at h
        exact lift _ ⟨.t1 '"', stk⟩ (by simp [step]) (ih1 (by simpa [Str.startsWith] using h.1) h.2)
      · intro h
        simp only [unescapedTripleQuote] at h
        exact lift _ ⟨.tri '"', stk⟩ (by simp [step]) (ih0 h)
      · intro hs h
        simp [unescapedTripleQuote, Str.startsWith] at h
        exact lift _ ⟨.t2 '"', stk⟩ (by simp [step]) (ih2 (by simpa [Str.startsWith] using hs) h.2)
      · intro hs _
        simp [Str.startsWith] at hs
    · by_cases hb : x = '\\'
      · subst hb
        refine ⟨?_, ?_, ?_, ?_⟩
        · intro h
          simp only [unescapedTripleQuote] at h
          exact lift _ ⟨.triEsc '"', stk⟩ (by simp [step]) (ihE (by simpa using h))
        · intro h
          simp only [unescapedTripleQuote] at h
          exact lift _ ⟨.tri '"', stk⟩ (by simp [step]) (ih0 h)
        · intro _ h
          simp only [unescapedTripleQuote] at h
          exact lift _ ⟨.triEsc '"', stk⟩ (by simp [step]) (ihE (by simpa using h))
        · intro _ h
          simp only [unescapedTripleQuote] at h
          exact lift _ ⟨.triEsc '"', stk⟩ (by simp [step]) (ihE (by simpa using h))
      · have hq' : (x == '"') = false := by simpa using hq
        refine ⟨?_, ?_, ?_, ?_⟩
        · intro h
          simp only [unescapedTripleQuote, hb, if_false, Str.startsWith, hq', Bool.false_and, Bool.false_or] at h
          exact lift _ ⟨.tri '"', stk⟩ (by simp [step, hq, hb]) (ih0 h)
        · intro h
          simp only [unescapedTripleQuote] at h
          exact lift _ ⟨.tri '"', stk⟩ (by simp [step]) (ih0 h)
        · intro _ h
          simp only [unescapedTripleQuote, hb, if_false, Str.startsWith, hq', Bool.false_and, Bool.false_or] at h
          exact lift _ ⟨.tri '"', stk⟩ (by simp [step, hq, hb]) (ih0 h)
        · intro _ h
          simp only [unescapedTripleQuote, hb, if_false, Str.startsWith, hq', Bool.false_and, Bool.false_or] at h
          exact lift _ ⟨.tri '"', stk⟩ (by simp [step, hq, hb]) (ih0 h)

theorem indent_tri (n : Nat) (stk : List Char) : Run (Python.indent n) ⟨.tri '"', stk⟩ ⟨.tri '"', stk⟩ := by
  induction n with
  | zero => rfl
  | succ k ih => rw [indent_eq]; exact Run.append (b := ⟨.tri '"', stk⟩) rfl ih

theorem nl_inDoc (stk : List Char) (b : PSt) (h : InDoc stk b) : Run Lang.nl b ⟨.tri '"', stk⟩ := by
  rcases h with rfl | rfl | rfl | rfl <;> rfl

/-- one written doc line, from inside the literal, stays inside -/
theorem docLine_run (n : Nat) (c : Str) (stk : List Char) :
    ∃ b, InDoc stk b ∧ Run (Python.indent n ++ Python.escapeDoc c) ⟨.tri '"', stk⟩ b := by
  obtain ⟨b, hb, hr⟩ := (doc_body stk (Python.escapeDoc c)).1 (C15.py_escape_ok c).1
  exact ⟨b, hb, (indent_tri n stk).append hr⟩

theorem docLines_run (n : Nat) (stk : List Char) : ∀ (cs : List Str),
    ∃ b, InDoc stk b ∧ Run (Str.intercalate Lang.nl (cs.map fun c => Python.indent n ++ Python.escapeDoc c))
      ⟨.tri '"', stk⟩ b
  | [] => ⟨_, .inl rfl, rfl⟩
  | [c] => docLine_run n c stk
  | c :: d :: r => by
    obtain ⟨b1, hb1, r1⟩ := docLine_run n c stk
    obtain ⟨b2, hb2, r2⟩ := docLines_run n stk (d :: r)
    exact ⟨b2, hb2, (r1.append (nl_inDoc stk b1 hb1)).append r2⟩

/-- **every docstring the model writes is a closed literal, whatever the doc text** -/
theorem docstring_nbp (n : Nat) (cs : List Str) : NBp (Python.docstring n cs) := by
  unfold Python.docstring
  split
  · exact NBp.nil
  · intro stk
    have r0 := NBp.indent n stk
    have r1 : Run s%"\"\"\"\n" ⟨.code, stk⟩ ⟨.tri '"', stk⟩ := rfl
    obtain ⟨b, hb, r2⟩ := docLines_run n stk cs
    have r3 := nl_inDoc stk b hb
    have r4 := indent_tri n stk
    have r5 : Run s%"\"\"\"" ⟨.tri '"', stk⟩ ⟨.code, stk⟩ := rfl
    have r6 : Run Lang.nl ⟨.code, stk⟩ ⟨.code, stk⟩ := rfl
    exact ((((((r0.append r1).append r2).append r3).append r4).append r5).append r6)

/-- `intercalate nl l ++ nl` is one line per element -/
theorem intercalate_nl (l : List Str) (h : l ≠ []) :
    Str.intercalate Lang.nl l ++ Lang.nl = l.flatMap fun x => x ++ Lang.nl := by
  induction l with
  | nil => exact absurd rfl h
  | cons x t ih =>
    cases t with
    | nil => simp [Str.intercalate]
    | cons y r =>
      have := ih (by simp)
      simp only [Str.intercalate, List.flatMap_cons, List.append_assoc] at this ⊢
      rw [this]

/-- `write_comments(…, false, …)`: `#` lines, closed when no doc line has a line break -/
theorem hashComments_nbp (n : Nat) (cs : List Str) (h : ∀ c ∈ cs, '\n' ∉ c) : NBp (Python.hashComments n cs) := by
  unfold Python.hashComments
  split
  · exact NBp.nil
  · rename_i hne
    rw [intercalate_nl _ (by
      intro e
      have : cs = [] := by simpa using e
      simp [this] at hne)]
    apply NBp.flatMap
    intro x hx
    simp only [List.mem_map] at hx
    obtain ⟨c, hc, rfl⟩ := hx
    have e : Python.indent n ++ s%"# " ++ c ++ Lang.nl = Python.indent n ++ (s%"#" ++ (s%" " ++ c) ++ s%"\n") := by
      simp [Lang.nl]
    rw [e]
    refine (NBp.indent n).append (NBp.hashComment _ ?_)
    have := h c hc
    simp [this]

/-! ## frame: `wellBracketedPy` pieces are neutral on every stack -/

theorem codeStep_frame {stk : List Char} {c : Char} {st' : PSt} (t : List Char) (h : codeStep stk c = some st') :
    codeStep (stk ++ t) c = some ⟨st'.mode, st'.stack ++ t⟩ := by
  unfold codeStep at *
  repeat' split at h
  all_goals first | cases h | skip
  all_goals first | (simp_all; done) | (simp_all; assumption)

theorem step_frame {a : PSt} {c : Char} {b : PSt} (t : List Char) (h : step a c = some b) :
    step ⟨a.mode, a.stack ++ t⟩ c = some ⟨b.mode, b.stack ++ t⟩ := by
  cases a with | mk m s =>
  cases m <;> simp only [step] at h ⊢
  case code => exact codeStep_frame t h
  case q2 q =>
    split at h
    · cases h; simp_all
    · simp only [*, if_false]; exact codeStep_frame t h
  all_goals
    repeat' split at h
    all_goals first | cases h | skip
    all_goals simp_all

theorem scan_frame (t : List Char) : ∀ (x : Str) (a b : PSt), scan a x = some b →
    scan ⟨a.mode, a.stack ++ t⟩ x = some ⟨b.mode, b.stack ++ t⟩
  | [], a, b, h => by cases h; rfl
  | c :: cs, a, b, h => by
    simp only [scan] at h ⊢
    cases hs : step a c with
    | none => rw [hs] at h; cases h
    | some a' =>
      rw [hs] at h
      rw [step_frame t hs]
      exact scan_frame t cs a' b h

theorem nbp_of_wb {x : Str} (h : wellBracketedPy x = true) : NBp x := by
  intro stk
  have h0 : scan init x = some init := by simpa [wellBracketedPy] using h
  have := scan_frame stk x init init h0
  simpa [init, Run] using this

end TsV.C10Files.Py
