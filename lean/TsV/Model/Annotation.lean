import TsV.Model.Str
/-!
# Model of `annotation/src/lib.rs`: the `#[typeshare]` attribute macro

The macro receives the item *without* the `#[typeshare(..)]` attribute that invoked it (the
compiler removes it).  If the item parses as a `syn::DeriveInput` (struct, enum, union) the macro
removes, from variants, variant fields, struct fields and union fields, every attribute whose path
prints as `typeshare`; every other item is passed through unchanged.  Everything the macro does not
look at is an opaque token string here.
-/
namespace TsV.Annotation

structure AAttr where
  path : List Str       -- path segments
  tokens : Str          -- the rest of the attribute, opaque
deriving DecidableEq, Repr

structure AField where
  attrs : List AAttr
  rest : Str            -- visibility, name, type: opaque
deriving DecidableEq, Repr

structure AVariant where
  attrs : List AAttr
  name : Str
  fields : List AField
  rest : Str            -- discriminant etc.: opaque
deriving DecidableEq, Repr

inductive AItem where
  | struct (attrs : List AAttr) (head : Str) (fields : List AField)
  | enum (attrs : List AAttr) (head : Str) (variants : List AVariant)
  | union (attrs : List AAttr) (head : Str) (fields : List AField)
  | other (tokens : Str)          -- type alias, const, fn, impl, …: not a DeriveInput
deriving DecidableEq, Repr

/-- `x.path().to_token_stream().to_string() != "typeshare"`: only the single-segment path
`typeshare` is a configuration attribute (`typeshare::typeshare` prints as `typeshare :: typeshare`) -/
def isConfig (a : AAttr) : Bool := a.path == [s%"typeshare"]

def stripAttrs (as : List AAttr) : List AAttr := as.filter fun a => !isConfig a
def stripField (f : AField) : AField := { f with attrs := stripAttrs f.attrs }
def stripVariant (v : AVariant) : AVariant :=
  { v with attrs := stripAttrs v.attrs, fields := v.fields.map stripField }

/-- the macro -/
def expand : AItem → AItem
  | .struct a h fs => .struct a h (fs.map stripField)
  | .enum a h vs => .enum a h (vs.map stripVariant)
  | .union a h fs => .union a h (fs.map stripField)
  | .other t => .other t

end TsV.Annotation
