import TsV.Lemmas.C10_Lex
/-!
# C10 — the lexical layer for Python (specification)

`#` comments, `'`/`"` string literals, triple-quoted literals (doc strings), brackets `( [ {`.
`wellBracketedPy s`: the run over `s` from code state with the empty stack ends in code state with
the empty stack.
-/
namespace TsV.C10LexPy
open TsV

inductive Mode where
  | code | hash
  | q1 (q : Char)      -- one quote seen: a literal has begun (it may still become `""` or `"""`)
  | q2 (q : Char)      -- two quotes seen: the empty literal, or the first two of a triple quote
  | str (q : Char) | strEsc (q : Char)
  | tri (q : Char) | triEsc (q : Char)
  | t1 (q : Char) | t2 (q : Char)   -- inside a triple-quoted literal, one / two closing quotes seen
deriving DecidableEq, Repr

structure St where
  mode : Mode
  stack : List Char
deriving DecidableEq, Repr

def codeStep (stk : List Char) (c : Char) : Option St :=
  if c = '#' then some ⟨.hash, stk⟩
  else if c = '"' ∨ c = '\'' then some ⟨.q1 c, stk⟩
  else if c = '(' ∨ c = '[' ∨ c = '{' then some ⟨.code, c :: stk⟩
  else
    match (if c = ')' then some '(' else if c = ']' then some '[' else if c = '}' then some '{' else none) with
    | some o =>
      (match stk with
       | top :: rest => if top = o then some ⟨.code, rest⟩ else none
       | [] => none)
    | none => some ⟨.code, stk⟩

def step (st : St) (c : Char) : Option St :=
  match st.mode with
  | .code => codeStep st.stack c
  | .hash => if c = '\n' then some ⟨.code, st.stack⟩ else some ⟨.hash, st.stack⟩
  | .q1 q =>
    if c = q then some ⟨.q2 q, st.stack⟩ else if c = '\\' then some ⟨.strEsc q, st.stack⟩
    else if c = '\n' then none else some ⟨.str q, st.stack⟩
  | .q2 q => if c = q then some ⟨.tri q, st.stack⟩ else codeStep st.stack c
  | .str q =>
    if c = '\\' then some ⟨.strEsc q, st.stack⟩ else if c = q then some ⟨.code, st.stack⟩
    else if c = '\n' then none else some ⟨.str q, st.stack⟩
  | .strEsc q => some ⟨.str q, st.stack⟩
  | .tri q =>
    if c = '\\' then some ⟨.triEsc q, st.stack⟩ else if c = q then some ⟨.t1 q, st.stack⟩
    else some ⟨.tri q, st.stack⟩
  | .triEsc q => some ⟨.tri q, st.stack⟩
  | .t1 q =>
    if c = q then some ⟨.t2 q, st.stack⟩ else if c = '\\' then some ⟨.triEsc q, st.stack⟩
    else some ⟨.tri q, st.stack⟩
  | .t2 q =>
    if c = q then some ⟨.code, st.stack⟩ else if c = '\\' then some ⟨.triEsc q, st.stack⟩
    else some ⟨.tri q, st.stack⟩

def scan : St → Str → Option St
  | st, [] => some st
  | st, c :: cs =>
    match step st c with
    | some st' => scan st' cs
    | none => none

def init : St := ⟨.code, []⟩

/-- **the specification for Python** -/
def wellBracketedPy (s : Str) : Bool := scan init s == some init

example : wellBracketedPy s%"class A(BaseModel):\n    \"\"\"\n    doc (\n    \"\"\"\n    x: List[int] = Field(alias=\"a-b\")  # c (\n" = true := by
  decide
example : wellBracketedPy s%"x = \"\"\ny = (\"\"\"a\"\"\")\n" = true := by decide
example : wellBracketedPy s%"x = [1\n" = false := by decide
example : wellBracketedPy s%"\"\"\"\nunterminated\n" = false := by decide

end TsV.C10LexPy
