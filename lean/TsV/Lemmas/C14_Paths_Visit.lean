import TsV.Lemmas.C14_Paths_Spec
/-!
# What `visit_path` contributes to a file's `import_types`

* `visitedPaths`: every `syn::Path` the visitor hands to `visit_path` for an item tree (attribute paths, the
  paths of field / alias / const types at any depth, the paths `Item.other` mentions);
* `visitItem_imports` / `visitFile_imports`: **exact membership** in `import_types` after the visit:
  what was there, plus `importOfPath` of every visited path, plus the imports of every `use` tree;
* `importOfPath_qualified`: `extract_root_and_types` on `c::…::T`;
* `qualifiedRefs_paths` / `typePaths_refs`: the qualified references of a type are exactly the visited type
  paths with at least two segments;
* `declItems_paths`: the type paths of every declaring item (at any module depth) are visited.
-/
namespace TsV.C14P
open TsV TsV.Syn TsV.Visitor TsV.C14I

/-! ### `extract_root_and_types` -/

/-- `importOfPath` on a path with a non-empty qualifier list `c::qs…::T` -/
theorem importOfPath_qualified (E : Ext) (ctx : ParseContext) (cn c : Str) (qs : List Str) (T : Str) :
    importOfPath E ctx cn (c :: (qs ++ [T])) =
      if acceptCrate E.U c && acceptType E.U T && !ctx.ignoredTypes.contains T && c != T then
        some ⟨resolveBase cn c, T⟩ else none := by
  have h2 : (c :: (qs ++ [T])).getLast? = some T := by
    rw [← List.cons_append]; exact List.getLast?_concat
  simp only [importOfPath, List.head?_cons, h2, resolveBase]

/-- `importOfPath` on a single-segment path: never an import (`first != last` fails) -/
theorem importOfPath_single (E : Ext) (ctx : ParseContext) (cn T : Str) :
    importOfPath E ctx cn [T] = none := by
  simp [importOfPath]

theorem importOfPath_qualified_some (E : Ext) (ctx : ParseContext) (cn c : Str) (qs : List Str) (T : Str)
    (hc : acceptCrate E.U c = true) (hT : acceptType E.U T = true) (hmap : T ∉ ctx.ignoredTypes)
    (hne : c ≠ T) :
    importOfPath E ctx cn (c :: (qs ++ [T])) = some ⟨resolveBase cn c, T⟩ := by
  rw [importOfPath_qualified]
  have h3 : ctx.ignoredTypes.contains T = false := by simpa using hmap
  have h4 : (c != T) = true := by simpa using hne
  rw [hc, hT, h3, h4]
  rfl

/-- conversely: what an import produced by `c::qs…::T` looks like -/
theorem importOfPath_qualified_inv (E : Ext) (ctx : ParseContext) (cn c : Str) (qs : List Str) (T : Str)
    (i : ImportedType) (h : importOfPath E ctx cn (c :: (qs ++ [T])) = some i) :
    i = ⟨resolveBase cn c, T⟩ ∧ acceptCrate E.U c = true ∧ acceptType E.U T = true ∧
      T ∉ ctx.ignoredTypes ∧ c ≠ T := by
  rw [importOfPath_qualified] at h
  split at h
  · rename_i hcond
    simp only [Bool.and_eq_true, Bool.not_eq_true', bne_iff_ne, ne_eq] at hcond
    obtain ⟨⟨⟨h1, h2⟩, h3⟩, h4⟩ := hcond
    simp only [Option.some.injEq] at h
    exact ⟨h.symm, h1, h2, by simpa using h3, h4⟩
  · simp at h

/-! ### qualified references = the visited type paths with a qualifier -/

mutual
  theorem qualifiedRefs_paths (c T : Str) : ∀ ty : SynType, (c, T) ∈ qualifiedRefs ty →
      ∃ qs, (c :: (qs ++ [T])) ∈ typePaths ty
    | .tuple es, h => by
      simp only [qualifiedRefs] at h; simp only [typePaths]; exact qualifiedRefsList_paths c T es h
    | .reference e, h => by
      simp only [qualifiedRefs] at h; simp only [typePaths]; exact qualifiedRefs_paths c T e h
    | .path quals last args, h => by
      simp only [qualifiedRefs, List.mem_append] at h
      simp only [typePaths, List.mem_cons]
      rcases h with h | h
      · cases quals with
        | nil => simp [headRef] at h
        | cons q qs =>
          simp only [headRef, List.mem_singleton, Prod.mk.injEq] at h
          obtain ⟨rfl, rfl⟩ := h
          exact ⟨qs, Or.inl rfl⟩
      · obtain ⟨qs, hq⟩ := qualifiedRefsList_paths c T args h
        exact ⟨qs, Or.inr hq⟩
    | .array e _, h => by
      simp only [qualifiedRefs] at h; simp only [typePaths]; exact qualifiedRefs_paths c T e h
    | .slice e, h => by
      simp only [qualifiedRefs] at h; simp only [typePaths]; exact qualifiedRefs_paths c T e h
    | .other, h => by simp [qualifiedRefs] at h
  theorem qualifiedRefsList_paths (c T : Str) : ∀ l : List SynType, (c, T) ∈ qualifiedRefsList l →
      ∃ qs, (c :: (qs ++ [T])) ∈ typePathsList l
    | [], h => by simp [qualifiedRefsList] at h
    | t :: ts, h => by
      simp only [qualifiedRefsList, List.mem_append] at h
      simp only [typePathsList, List.mem_append]
      rcases h with h | h
      · obtain ⟨qs, hq⟩ := qualifiedRefs_paths c T t h; exact ⟨qs, Or.inl hq⟩
      · obtain ⟨qs, hq⟩ := qualifiedRefsList_paths c T ts h; exact ⟨qs, Or.inr hq⟩
end

mutual
  /-- every visited type path is a single segment or `c::qs…::T` with `(c, T)` a qualified reference -/
  theorem typePaths_refs (p : List Str) : ∀ ty : SynType, p ∈ typePaths ty →
      (∃ T, p = [T]) ∨ ∃ c qs T, p = c :: (qs ++ [T]) ∧ (c, T) ∈ qualifiedRefs ty
    | .tuple es, h => by
      simp only [typePaths] at h; simp only [qualifiedRefs]; exact typePathsList_refs p es h
    | .reference e, h => by
      simp only [typePaths] at h; simp only [qualifiedRefs]; exact typePaths_refs p e h
    | .path quals last args, h => by
      simp only [typePaths, List.mem_cons] at h
      simp only [qualifiedRefs, List.mem_append]
      rcases h with h | h
      · cases quals with
        | nil => exact Or.inl ⟨last, by simpa using h⟩
        | cons q qs => exact Or.inr ⟨q, qs, last, by simpa using h, Or.inl (by simp [headRef])⟩
      · rcases typePathsList_refs p args h with h' | ⟨c, qs, T, h1, h2⟩
        · exact Or.inl h'
        · exact Or.inr ⟨c, qs, T, h1, Or.inr h2⟩
    | .array e _, h => by
      simp only [typePaths] at h; simp only [qualifiedRefs]; exact typePaths_refs p e h
    | .slice e, h => by
      simp only [typePaths] at h; simp only [qualifiedRefs]; exact typePaths_refs p e h
    | .other, h => by simp [typePaths] at h
  theorem typePathsList_refs (p : List Str) : ∀ l : List SynType, p ∈ typePathsList l →
      (∃ T, p = [T]) ∨ ∃ c qs T, p = c :: (qs ++ [T]) ∧ (c, T) ∈ qualifiedRefsList l
    | [], h => by simp [typePathsList] at h
    | t :: ts, h => by
      simp only [typePathsList, List.mem_append] at h
      simp only [qualifiedRefsList, List.mem_append]
      rcases h with h | h
      · rcases typePaths_refs p t h with h' | ⟨c, qs, T, h1, h2⟩
        · exact Or.inl h'
        · exact Or.inr ⟨c, qs, T, h1, Or.inl h2⟩
      · rcases typePathsList_refs p ts h with h' | ⟨c, qs, T, h1, h2⟩
        · exact Or.inl h'
        · exact Or.inr ⟨c, qs, T, h1, Or.inr h2⟩
end

/-! ### the paths the visitor visits -/

mutual
  /-- every path the visitor hands to `visit_path` for an item tree, in visit order -/
  def visitedPaths : Item → List (List Str)
    | .struct attrs _ _ fields => attrPaths attrs ++ fieldsPaths fields
    | .enum attrs _ _ variants =>
      attrPaths attrs ++ variants.flatMap fun v => attrPaths v.attrs ++ fieldsPaths v.fields
    | .alias attrs _ _ ty => attrPaths attrs ++ typePaths ty
    | .const attrs _ ty _ => attrPaths attrs ++ typePaths ty
    | .use _ => []
    | .mod attrs _ items => attrPaths attrs ++ visitedPathsList items
    | .other paths items => paths ++ visitedPathsList items
  def visitedPathsList : List Item → List (List Str)
    | [] => []
    | i :: is => visitedPaths i ++ visitedPathsList is
end

theorem fieldsTypes_paths (fields : Fields) (ty : SynType) (hty : ty ∈ fieldsTypes fields) (p : List Str)
    (hp : p ∈ typePaths ty) : p ∈ fieldsPaths fields := by
  cases fields with
  | named fs =>
    simp only [fieldsTypes, List.mem_map] at hty
    obtain ⟨f, hf, rfl⟩ := hty
    simp only [fieldsPaths, List.mem_flatMap, List.mem_append]
    exact ⟨f, hf, Or.inr hp⟩
  | unnamed fs =>
    simp only [fieldsTypes, List.mem_map] at hty
    obtain ⟨f, hf, rfl⟩ := hty
    simp only [fieldsPaths, List.mem_flatMap, List.mem_append]
    exact ⟨f, hf, Or.inr hp⟩
  | unit => simp [fieldsTypes] at hty

/-- the type paths of an item's own types are among the paths visited for it -/
theorem itemTypes_paths (it : Item) (ty : SynType) (hty : ty ∈ itemTypes it) (p : List Str)
    (hp : p ∈ typePaths ty) : p ∈ visitedPaths it := by
  cases it with
  | struct a i g f =>
    simp only [itemTypes] at hty
    simp only [visitedPaths, List.mem_append]
    exact Or.inr (fieldsTypes_paths f ty hty p hp)
  | «enum» a i g vs =>
    simp only [itemTypes, List.mem_flatMap] at hty
    obtain ⟨v, hv, hty⟩ := hty
    simp only [visitedPaths, List.mem_append, List.mem_flatMap]
    exact Or.inr ⟨v, hv, Or.inr (fieldsTypes_paths v.fields ty hty p hp)⟩
  | «alias» a i g t =>
    simp only [itemTypes, List.mem_singleton] at hty; subst hty
    simp only [visitedPaths, List.mem_append]; exact Or.inr hp
  | const a i t l =>
    simp only [itemTypes, List.mem_singleton] at hty; subst hty
    simp only [visitedPaths, List.mem_append]; exact Or.inr hp
  | use t => simp [itemTypes] at hty
  | mod a i items => simp [itemTypes] at hty
  | other ps items => simp [itemTypes] at hty

mutual
  /-- … at any depth: the type paths of every declaring item below `it` are visited -/
  theorem declItems_paths (it' : Item) (p : List Str) (hp : p ∈ visitedPaths it') :
      ∀ it : Item, it' ∈ declItems it → p ∈ visitedPaths it
    | .struct a i g f, h => by simp only [declItems, List.mem_singleton] at h; subst h; exact hp
    | .enum a i g v, h => by simp only [declItems, List.mem_singleton] at h; subst h; exact hp
    | .alias a i g t, h => by simp only [declItems, List.mem_singleton] at h; subst h; exact hp
    | .const a i t l, h => by simp only [declItems, List.mem_singleton] at h; subst h; exact hp
    | .use t, h => by simp [declItems] at h
    | .mod a i items, h => by
      simp only [declItems] at h
      simp only [visitedPaths, List.mem_append]
      exact Or.inr (declItemsList_paths it' p hp items h)
    | .other ps items, h => by
      simp only [declItems] at h
      simp only [visitedPaths, List.mem_append]
      exact Or.inr (declItemsList_paths it' p hp items h)
  theorem declItemsList_paths (it' : Item) (p : List Str) (hp : p ∈ visitedPaths it') :
      ∀ items : List Item, it' ∈ declItemsList items → p ∈ visitedPathsList items
    | [], h => by simp [declItemsList] at h
    | i :: is, h => by
      simp only [declItemsList, List.mem_append] at h
      simp only [visitedPathsList, List.mem_append]
      rcases h with h | h
      · exact Or.inl (declItems_paths it' p hp i h)
      · exact Or.inr (declItemsList_paths it' p hp is h)
end

mutual
  /-- the annotated, accepted items are declaring items -/
  theorem annotated_sub_decl (ctx : ParseContext) (it' : Item) :
      ∀ it : Item, it' ∈ C03.annotated ctx it → it' ∈ declItems it
    | .struct a i g f, h => by
      simp only [C03.annotated] at h; split at h
      · simpa [declItems] using h
      · simp at h
    | .enum a i g v, h => by
      simp only [C03.annotated] at h; split at h
      · simpa [declItems] using h
      · simp at h
    | .alias a i g t, h => by
      simp only [C03.annotated] at h; split at h
      · simpa [declItems] using h
      · simp at h
    | .const a i t l, h => by
      simp only [C03.annotated] at h; split at h
      · simpa [declItems] using h
      · simp at h
    | .use t, h => by simp [C03.annotated] at h
    | .mod a i items, h => by
      simp only [C03.annotated] at h; simp only [declItems]
      exact annotatedList_sub_decl ctx it' items h
    | .other ps items, h => by
      simp only [C03.annotated] at h; simp only [declItems]
      exact annotatedList_sub_decl ctx it' items h
  theorem annotatedList_sub_decl (ctx : ParseContext) (it' : Item) :
      ∀ items : List Item, it' ∈ C03.annotatedList ctx items → it' ∈ declItemsList items
    | [], h => by simp [C03.annotatedList] at h
    | i :: is, h => by
      simp only [C03.annotatedList, List.mem_append] at h
      simp only [declItemsList, List.mem_append]
      rcases h with h | h
      · exact Or.inl (annotated_sub_decl ctx it' i h)
      · exact Or.inr (annotatedList_sub_decl ctx it' is h)
end

/-! ### exact membership in `import_types` after the visit -/

theorem mem_addPaths (E : Ext) (ctx : ParseContext) (hmf : ctx.multiFile = true) (d : ParsedData)
    (ps : List (List Str)) (i : ImportedType) :
    i ∈ (addPaths E ctx d ps).importTypes ↔
      i ∈ d.importTypes ∨ ∃ p ∈ ps, importOfPath E ctx d.crateName p = some i := by
  simp only [addPaths, hmf, if_true, mem_addImports, List.mem_filterMap]

/-- in single-file mode `visit_path` records nothing -/
theorem addPaths_single (E : Ext) (ctx : ParseContext) (hmf : ctx.multiFile = false) (d : ParsedData)
    (ps : List (List Str)) : addPaths E ctx d ps = d := by
  simp [addPaths, hmf]

theorem push_imports (d : ParsedData) (ri : RustItem) :
    (push d ri).importTypes = d.importTypes ∧ (push d ri).crateName = d.crateName := by
  cases ri <;> exact ⟨rfl, rfl⟩

theorem collectIf_imports (ctx : ParseContext) (fp : Str) (d d' : ParsedData) (attrs : List Attr)
    (o : Outcome RustItem) (h : collectIf ctx fp d attrs o = .ok d') :
    d'.importTypes = d.importTypes ∧ d'.crateName = d.crateName := by
  unfold collectIf at h
  split at h
  · cases o with
    | ok it => simp only [collectResult, Outcome.ok.injEq] at h; subst h; exact push_imports d it
    | err e => simp only [collectResult, Outcome.ok.injEq] at h; subst h; exact ⟨rfl, rfl⟩
    | panic s => simp [collectResult] at h
  · simp only [pure, Outcome.ok.injEq] at h; subst h; exact ⟨rfl, rfl⟩

/-- what the visit of an item tree contributes: `importOfPath` of a visited path, or an import of a `use` tree -/
def Contrib (E : Ext) (ctx : ParseContext) (cn : Str) (ps : List (List Str)) (ts : List UseTree)
    (i : ImportedType) : Prop :=
  (∃ p ∈ ps, importOfPath E ctx cn p = some i) ∨ (∃ t ∈ ts, i ∈ useImports E ctx cn t)

theorem contrib_append (E : Ext) (ctx : ParseContext) (cn : Str) (ps₁ ps₂ : List (List Str))
    (ts₁ ts₂ : List UseTree) (i : ImportedType) :
    Contrib E ctx cn (ps₁ ++ ps₂) (ts₁ ++ ts₂) i ↔ Contrib E ctx cn ps₁ ts₁ i ∨ Contrib E ctx cn ps₂ ts₂ i := by
  simp only [Contrib, List.mem_append]
  constructor
  · rintro (⟨p, hp | hp, h⟩ | ⟨t, ht | ht, h⟩)
    · exact Or.inl (Or.inl ⟨p, hp, h⟩)
    · exact Or.inr (Or.inl ⟨p, hp, h⟩)
    · exact Or.inl (Or.inr ⟨t, ht, h⟩)
    · exact Or.inr (Or.inr ⟨t, ht, h⟩)
  · rintro ((⟨p, hp, h⟩ | ⟨t, ht, h⟩) | (⟨p, hp, h⟩ | ⟨t, ht, h⟩))
    · exact Or.inl ⟨p, Or.inl hp, h⟩
    · exact Or.inr ⟨t, Or.inl ht, h⟩
    · exact Or.inl ⟨p, Or.inr hp, h⟩
    · exact Or.inr ⟨t, Or.inr ht, h⟩

theorem contrib_paths_only (E : Ext) (ctx : ParseContext) (cn : Str) (ps : List (List Str)) (i : ImportedType) :
    Contrib E ctx cn ps [] i ↔ ∃ p ∈ ps, importOfPath E ctx cn p = some i := by
  simp [Contrib]

/-- the shape shared by the four item visitors -/
theorem collectThenPaths_imports (E : Ext) (ctx : ParseContext) (hmf : ctx.multiFile = true) (fp : Str)
    (d d' : ParsedData) (attrs : List Attr) (o : Outcome RustItem) (ps : List (List Str))
    (h : ((collectIf ctx fp d attrs o).bind fun d₁ => pure (addPaths E ctx d₁ ps)) = .ok d') (i : ImportedType) :
    i ∈ d'.importTypes ↔ i ∈ d.importTypes ∨ Contrib E ctx d.crateName ps [] i := by
  obtain ⟨d₁, h1, h2⟩ := (Outcome.bind_eq_ok _ _ _).1 h
  simp only [pure, Outcome.ok.injEq] at h2; subst h2
  obtain ⟨e1, e2⟩ := collectIf_imports ctx fp d d₁ attrs o h1
  rw [mem_addPaths E ctx hmf, e1, e2, contrib_paths_only]

mutual
  /-- **exact membership, one item tree**: after visiting `it` from `d`, `import_types` holds what `d` held,
  plus `importOfPath` of every visited path, plus the imports of every `use` tree — nothing else -/
  theorem visitItem_imports (E : Ext) (ctx : ParseContext) (hmf : ctx.multiFile = true) (fp : Str) :
      ∀ (it : Item) (d d' : ParsedData), visitItem E ctx fp d it = .ok d' → ∀ i : ImportedType,
        (i ∈ d'.importTypes ↔
          i ∈ d.importTypes ∨ Contrib E ctx d.crateName (visitedPaths it) (useTrees it) i)
    | .struct a id g f, d, d', h, i => by
      simp only [visitItem] at h
      simpa only [visitedPaths, useTrees] using collectThenPaths_imports E ctx hmf fp d d' a _ _ h i
    | .enum a id g v, d, d', h, i => by
      simp only [visitItem] at h
      simpa only [visitedPaths, useTrees] using collectThenPaths_imports E ctx hmf fp d d' a _ _ h i
    | .alias a id g t, d, d', h, i => by
      simp only [visitItem] at h
      simpa only [visitedPaths, useTrees] using collectThenPaths_imports E ctx hmf fp d d' a _ _ h i
    | .const a id t l, d, d', h, i => by
      simp only [visitItem] at h
      simpa only [visitedPaths, useTrees] using collectThenPaths_imports E ctx hmf fp d d' a _ _ h i
    | .use t, d, d', h, i => by
      simp only [visitItem, hmf, if_true, pure, Outcome.ok.injEq] at h
      subst h
      rw [mem_addImports]
      simp [Contrib, visitedPaths, useTrees, useImports]
    | .mod a id items, d, d', h, i => by
      simp only [visitItem] at h
      rw [visitItems_imports E ctx hmf fp items _ d' h i, mem_addPaths E ctx hmf,
        (addPaths_grows E ctx d _).crateName]
      have := contrib_append E ctx d.crateName (attrPaths a) (visitedPathsList items) [] (useTreesList items) i
      simp only [List.nil_append] at this
      simp only [visitedPaths, useTrees, this, contrib_paths_only, or_assoc]
    | .other ps items, d, d', h, i => by
      simp only [visitItem] at h
      rw [visitItems_imports E ctx hmf fp items _ d' h i, mem_addPaths E ctx hmf,
        (addPaths_grows E ctx d _).crateName]
      have := contrib_append E ctx d.crateName ps (visitedPathsList items) [] (useTreesList items) i
      simp only [List.nil_append] at this
      simp only [visitedPaths, useTrees, this, contrib_paths_only, or_assoc]
  theorem visitItems_imports (E : Ext) (ctx : ParseContext) (hmf : ctx.multiFile = true) (fp : Str) :
      ∀ (items : List Item) (d d' : ParsedData), visitItems E ctx fp d items = .ok d' → ∀ i : ImportedType,
        (i ∈ d'.importTypes ↔
          i ∈ d.importTypes ∨ Contrib E ctx d.crateName (visitedPathsList items) (useTreesList items) i)
    | [], d, d', h, i => by
      simp only [visitItems, pure, Outcome.ok.injEq] at h; subst h
      simp [Contrib, visitedPathsList, useTreesList]
    | it :: is, d, d', h, i => by
      simp only [visitItems] at h
      obtain ⟨d₁, h1, h2⟩ := (Outcome.bind_eq_ok _ _ _).1 h
      rw [visitItems_imports E ctx hmf fp is d₁ d' h2 i, visitItem_imports E ctx hmf fp it d d₁ h1 i,
        (visitItem_grows E ctx fp it d d₁ h1).crateName]
      simp only [visitedPathsList, useTreesList, contrib_append, or_assoc]
end

/-- every path visited for a file: its inner attributes, then its items -/
def fileVisitedPaths (f : File) : List (List Str) := attrPaths f.attrs ++ visitedPathsList f.items

/-- **exact membership, whole file** (multi-file mode, file visited): `import_types` is `importOfPath` of the
visited paths plus the imports of the `use` trees -/
theorem visitFile_imports (E : Ext) (ctx : ParseContext) (hmf : ctx.multiFile = true) (cn fn fp : Str) (f : File)
    (d : ParsedData) (h : visitFile E ctx cn fn fp f = .ok d) (hne : isEmpty d = false) (i : ImportedType) :
    i ∈ d.importTypes ↔ Contrib E ctx cn (fileVisitedPaths f) (useTreesList f.items) i := by
  have hv := visitFile_visited E ctx cn fn fp f d h hne
  rw [visitItems_imports E ctx hmf fp f.items _ d hv i, mem_addPaths E ctx hmf,
    (addPaths_grows E ctx (d0 ctx cn fn) _).crateName]
  have := contrib_append E ctx cn (attrPaths f.attrs) (visitedPathsList f.items) [] (useTreesList f.items) i
  simp only [List.nil_append] at this
  simp only [fileVisitedPaths, this, contrib_paths_only, d0, List.not_mem_nil, false_or]

/-- a type path of a declaring item of the file is a visited path of the file -/
theorem file_declItem_path (f : File) (it : Item) (hit : it ∈ declItemsList f.items) (ty : SynType)
    (hty : ty ∈ itemTypes it) (p : List Str) (hp : p ∈ typePaths ty) : p ∈ fileVisitedPaths f := by
  simp only [fileVisitedPaths, List.mem_append]
  exact Or.inr (declItemsList_paths it p (itemTypes_paths it ty hty p hp) f.items hit)

/-! ### single-file mode -/

theorem collectAll_imports (path : Str) : ∀ (os : List (Outcome RustItem)) (d d' : ParsedData),
    C03.collectAll path d os = .ok d' → d'.importTypes = d.importTypes
  | [], d, d', h => by simp only [C03.collectAll, pure, Outcome.ok.injEq] at h; subst h; rfl
  | o :: os, d, d', h => by
    simp only [C03.collectAll] at h
    obtain ⟨d₁, h1, h2⟩ := (Outcome.bind_eq_ok _ _ _).1 h
    rw [collectAll_imports path os d₁ d' h2]
    cases o with
    | ok it => simp only [collectResult, Outcome.ok.injEq] at h1; subst h1; exact (push_imports d it).1
    | err e => simp only [collectResult, Outcome.ok.injEq] at h1; subst h1; rfl
    | panic s => simp [collectResult] at h1

/-- in single-file mode a visit records no import -/
theorem visitFile_single_imports (E : Ext) (ctx : ParseContext) (hsf : ctx.multiFile = false) (cn fn fp : Str)
    (f : File) (d : ParsedData) (h : visitFile E ctx cn fn fp f = .ok d) : d.importTypes = [] := by
  rw [visitFile_eq] at h
  split at h
  · rw [addPaths_single E ctx hsf, C03.visitItems_collects E ctx hsf] at h
    rw [collectAll_imports fp _ _ d h]; rfl
  · simp only [pure, Outcome.ok.injEq] at h; subst h; rfl

end TsV.C14P
