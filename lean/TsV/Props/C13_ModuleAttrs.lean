import TsV.Lemmas.C13_ModuleAttrs
import TsV.Props.C13_Pruned
/-!
# C13 / C03 — an inline module is not an attachment level

The abstract AST records the attribute list of an inline module (`Item.mod attrs ident items`), so the
independence is a theorem, not a property of the translation.  The visitor never *decides* anything on these
attributes — no `--target-os` rule, no `cfg(test)` rule, no annotation test: `visit_item_mod` is not
overridden, `syn::visit::visit_item_mod` walks the attribute paths (`visit_path`) and then the items.

`SameButModAttrs f f'` (`Lemmas/C13_ModuleAttrs.lean`): `f'` is `f` with the attribute list of any inline
modules, at any depth (also inside function bodies), replaced by any other lists — same inner attributes,
same marker, same items after blanking module attributes (`stripItems`).  `reattr g f` is one way to make
such a file: `g depth name old` is the new list of the module `name` at nesting depth `depth`.

* `C13_ModuleAttrs_full`: `parser::parse` answers the same for `f` and `f'` in every context.  **False in
  folder mode** (`C13_ModuleAttrs_not_full`): the *path* of a module attribute is walked like every other
  path, so `#[other::Foo] mod m {}` records the import `other::Foo`, which survives
  `reconcile_referenced_types` when a kept item mentions `Foo`.  (Only the raw import set is affected.)
* `C13_ModuleAttrs` (single-file mode, every `--target-os` list): outright equality.
* `C13_ModuleAttrs_folder` (every mode, every list): equality of everything except `importTypes` — the same
  structs, enums, aliases, consts, members, error entries, type names, `None`-ness, panics.
* `C13_ModuleAttrs_plain` (every mode, every list): outright equality when the module attributes on both sides
  have single-identifier paths (`cfg(..)`, `cfg_attr(..)`, `doc`, `path = ".."`, `allow(..)`, `typeshare`,
  `serde(..)` …) — every attribute the round-14 test part uses.
* `visit_mod`, `visit_mod_single`: the visitor's result on `Item.mod` is the fold over the module's items
  started in the *enclosing* state (plus, in folder mode, the imports of the attribute paths), nothing else.
* `C13_ModuleAttrs_text`: the same when the replacement changes whether the text contains `#[typeshare`
  (e.g. `#[typeshare] mod m {..}` in a file without any annotated item): both answers are `None`.
-/
namespace TsV.C13_ModuleAttrs
open TsV TsV.Syn TsV.Parser TsV.Visitor TsV.C13P TsV.C13MA TsV.C13_Pruned

/-- **the independence at full strength**: in every context (`--target-os` list, single-file or folder mode,
ignored types) `parser::parse` answers the same whatever attributes the inline modules carry -/
def C13_ModuleAttrs_full : Prop :=
  ∀ (E : Ext) (ctx : ParseContext) (pick : List ImportedType → Option ImportedType) (cn fn fp : Str)
    (f f' : File), SameButModAttrs f f' →
    parseFile E ctx pick cn fn fp f' = parseFile E ctx pick cn fn fp f

/-! ## the visitor on a module -/

/-- the visitor's result on an inline module is the fold over the module's items, started in the enclosing
state to which the paths of the module's attributes have been offered as imports — no test of any kind -/
theorem visit_mod (E : Ext) (ctx : ParseContext) (fp : Str) (d : ParsedData) (attrs : List Attr) (ident : Str)
    (items : List Item) :
    visitItem E ctx fp d (.mod attrs ident items) =
      visitItems E ctx fp (addPaths E ctx d (attrPaths attrs)) items := by
  simp only [visitItem]

/-- offering paths changes the raw import set only -/
theorem addPaths_forget (E : Ext) (ctx : ParseContext) (d : ParsedData) (ps : List (List Str)) :
    forget (addPaths E ctx d ps) = forget d := by
  unfold addPaths; split <;> rfl

/-- in single-file mode: the fold over the module's items with the enclosing state, nothing else -/
theorem visit_mod_single (E : Ext) (ctx : ParseContext) (fp : Str) (d : ParsedData) (attrs : List Attr)
    (ident : Str) (items : List Item) (hsingle : ctx.multiFile = false) :
    visitItem E ctx fp d (.mod attrs ident items) = visitItems E ctx fp d items := by
  simp only [visitItem, addPaths, hsingle]
  rfl

/-- in every mode, for attributes with single-identifier paths: the same -/
theorem visit_mod_plain (E : Ext) (ctx : ParseContext) (fp : Str) (d : ParsedData) (attrs : List Attr)
    (ident : Str) (items : List Item) (hp : plain attrs = true) :
    visitItem E ctx fp d (.mod attrs ident items) = visitItems E ctx fp d items := by
  simp only [visitItem, addPaths_plain E ctx d attrs hp]

/-! ## whole files -/

theorem visitFile_same (E : Ext) (ctx : ParseContext) (cn fn fp : Str) (f f' : File)
    (h : SameButModAttrs f f') :
    AgreeO ctx (visitFile E ctx cn fn fp f) (visitFile E ctx cn fn fp f') := by
  obtain ⟨ha, _, hi⟩ := h
  simp only [visitFile, ha]
  split
  · exact visitItems_same E ctx fp f.items f'.items _ hi
  · exact Agree.refl ctx _

theorem parseFile_same_both (E : Ext) (ctx : ParseContext) (pick : List ImportedType → Option ImportedType)
    (cn fn fp : Str) (f f' : File) (h : SameButModAttrs f f') :
    forgetR (parseFile E ctx pick cn fn fp f') = forgetR (parseFile E ctx pick cn fn fp f) ∧
    (ctx.multiFile = false → parseFile E ctx pick cn fn fp f' = parseFile E ctx pick cn fn fp f) := by
  rw [parseFile_eq, parseFile_eq, h.2.1]
  split
  · exact ⟨rfl, fun _ => rfl⟩
  · have := finish_agree E ctx pick _ _ (visitFile_same E ctx cn fn fp f f' h)
    exact ⟨this.1.symm, fun hf => (this.2 hf).symm⟩

/-! ## the statements -/

/-- **C13_ModuleAttrs (single-file mode).**  With `-o`, for every `--target-os` list: replacing the attribute
lists of inline modules, at any depth, by any other lists does not change the answer of `parser::parse`. -/
theorem C13_ModuleAttrs (E : Ext) (ctx : ParseContext) (pick : List ImportedType → Option ImportedType)
    (cn fn fp : Str) (f f' : File) (h : SameButModAttrs f f') (hsingle : ctx.multiFile = false) :
    parseFile E ctx pick cn fn fp f' = parseFile E ctx pick cn fn fp f :=
  (parseFile_same_both E ctx pick cn fn fp f f' h).2 hsingle

/-- **C13_ModuleAttrs (every mode).**  The two answers agree in everything but the raw import set. -/
theorem C13_ModuleAttrs_folder (E : Ext) (ctx : ParseContext) (pick : List ImportedType → Option ImportedType)
    (cn fn fp : Str) (f f' : File) (h : SameButModAttrs f f') :
    forgetR (parseFile E ctx pick cn fn fp f') = forgetR (parseFile E ctx pick cn fn fp f) :=
  (parseFile_same_both E ctx pick cn fn fp f f' h).1

/-- **C13_ModuleAttrs (every mode, single-identifier attribute paths).**  When the module attributes of both
files are of the kind `cfg(..)`, `cfg_attr(..)`, `doc = ".."`, `path = ".."`, `allow(..)`, `typeshare`,
`serde(..)`, the answers are equal outright — folder mode included. -/
theorem C13_ModuleAttrs_plain (E : Ext) (ctx : ParseContext) (pick : List ImportedType → Option ImportedType)
    (cn fn fp : Str) (f f' : File) (h : SameButModAttrs f f')
    (hp : modsPlainList f.items = true) (hp' : modsPlainList f'.items = true) :
    parseFile E ctx pick cn fn fp f' = parseFile E ctx pick cn fn fp f := by
  obtain ⟨ha, hm, hi⟩ := h
  simp only [parseFile, visitFile, ha, hm,
    ← visitItems_strip_plain E ctx fp f.items _ hp, ← visitItems_strip_plain E ctx fp f'.items _ hp', hi]

/-- field by field, for a file that yields data -/
theorem C13_ModuleAttrs_fields (E : Ext) (ctx : ParseContext) (pick : List ImportedType → Option ImportedType)
    (cn fn fp : Str) (f f' : File) (hs : SameButModAttrs f f') (d : ParsedData)
    (h : parseFile E ctx pick cn fn fp f = .ok (some d)) :
    ∃ d', parseFile E ctx pick cn fn fp f' = .ok (some d') ∧
      d'.structs = d.structs ∧ d'.enums = d.enums ∧ d'.aliases = d.aliases ∧ d'.consts = d.consts ∧
      d'.errors = d.errors ∧ d'.typeNames = d.typeNames ∧ d'.crateName = d.crateName ∧
      d'.fileName = d.fileName ∧ d'.multiFile = d.multiFile := by
  have hf := C13_ModuleAttrs_folder E ctx pick cn fn fp f f' hs
  rw [h] at hf
  cases hp : parseFile E ctx pick cn fn fp f' with
  | ok r =>
    rw [hp] at hf
    cases r with
    | none => simp [forgetR] at hf
    | some d' =>
      simp only [forgetR, Option.map_some, Outcome.ok.injEq, Option.some.injEq] at hf
      refine ⟨d', rfl, ?_⟩
      simp only [forget] at hf
      injection hf with h1 h2 h3 h4 h5 h6 h7 h8 h9 h10
      exact ⟨h1, h2, h3, h4, h7, h6, h8, h9, h10⟩
  | err e => rw [hp] at hf; simp [forgetR] at hf
  | panic s => rw [hp] at hf; simp [forgetR] at hf

/-- **the text marker.**  A replacement may change whether the text contains `#[typeshare` (a module that
itself carries `#[typeshare]`).  Whichever value `m` the marker of the new text has — the old one, or any
value when no item of the file is annotated — the answers agree. -/
theorem C13_ModuleAttrs_text (E : Ext) (ctx : ParseContext) (pick : List ImportedType → Option ImportedType)
    (cn fn fp : Str) (f f' : File) (m : Bool) (h : SameButModAttrs f f')
    (hm : m = f.marker ∨ noAnnotatedList f.items = true) :
    forgetR (parseFile E ctx pick cn fn fp { f' with marker := m }) = forgetR (parseFile E ctx pick cn fn fp f) := by
  rcases hm with rfl | hn
  · exact C13_ModuleAttrs_folder E ctx pick cn fn fp f { f' with marker := f.marker } ⟨h.1, rfl, h.2.2⟩
  · have hn' : noAnnotatedList f'.items = true := by
      rw [← noAnnotatedList_strip, h.2.2, noAnnotatedList_strip]; exact hn
    rw [parseFile_noAnnotated E ctx pick cn fn fp f hn,
      parseFile_noAnnotated E ctx pick cn fn fp { f' with marker := m } hn']

/-- rewriting every module's attribute list by a function of depth, name and old list -/
def reattr (g : Nat → Str → List Attr → List Attr) (f : File) : File :=
  { f with items := reattrItems g 0 f.items }

theorem reattr_same (g : Nat → Str → List Attr → List Attr) (f : File) : SameButModAttrs f (reattr g f) :=
  ⟨rfl, rfl, strip_reattrItems g 0 f.items⟩

/-- blanking is the special case; and the relation is symmetric, so "any list by any other list" -/
theorem same_symm {f f' : File} (h : SameButModAttrs f f') : SameButModAttrs f' f :=
  ⟨h.1.symm, h.2.1.symm, h.2.2.symm⟩

/-! ## the witness against the full statement (folder mode), kernel-checked -/

def wCtx : ParseContext := { multiFile := true }
def pathAttr : Attr := ⟨.path [s%"other", s%"Foo"]⟩
def keptStruct : Item := .struct [tsAttr] s%"Kept" [] (.named [⟨[], some s%"y", .path [] s%"Foo" []⟩])

/-- ```
#[other::Foo] mod m {}
#[typeshare] pub struct Kept { pub y: Foo }
``` -/
def wFile : File := { attrs := [], marker := true, items := [.mod [pathAttr] s%"m" [], keptStruct] }
/-- the same with `mod m {}` bare -/
def wFile' : File := { attrs := [], marker := true, items := [.mod [] s%"m" [], keptStruct] }

theorem wSame : SameButModAttrs wFile wFile' := ⟨rfl, rfl, rfl⟩

theorem witness_original :
    importsOf (parseFile wE wCtx List.head? s%"mine" s%"mine" s%"src/lib.rs" wFile) = [⟨s%"other", s%"Foo"⟩] := by
  decide +kernel

theorem witness_bare :
    importsOf (parseFile wE wCtx List.head? s%"mine" s%"mine" s%"src/lib.rs" wFile') = [] := by
  decide +kernel

/-- **the full statement is false in folder mode**: the path of a module attribute is an import candidate. -/
theorem C13_ModuleAttrs_not_full : ¬ C13_ModuleAttrs_full := by
  intro h
  have := congrArg importsOf (h wE wCtx List.head? s%"mine" s%"mine" s%"src/lib.rs" wFile wFile' wSame)
  rw [witness_original, witness_bare] at this
  exact absurd this (by decide)

/-! ## non-vacuity -/

def cfgTest : Attr := ⟨.list [s%"cfg"] true [.path [s%"test"]]⟩
def cfgIos : Attr := ⟨.list [s%"cfg"] true [.nameValue [s%"target_os"] (some (.str s%"ios"))]⟩
def cfgNotAndroid : Attr :=
  ⟨.list [s%"cfg"] true [.list [s%"not"] true [.nameValue [s%"target_os"] (some (.str s%"android"))]]⟩

/-- ```
#[cfg(test)] mod a { #[cfg(target_os = "ios")] mod b { #[typeshare] struct Kept { y: Foo } } }
fn body() { #[cfg(not(target_os = "android"))] #[typeshare] mod c { #[typeshare] struct Kept { y: Foo } } }
``` -/
def nFile : File :=
  { attrs := [], marker := true,
    items := [.mod [cfgTest] s%"a" [.mod [cfgIos] s%"b" [keptStruct]],
              .other [] [.mod [cfgNotAndroid, tsAttr] s%"c" [keptStruct]]] }
/-- the twin without module attributes -/
def nTwin : File :=
  { attrs := [], marker := true,
    items := [.mod [] s%"a" [.mod [] s%"b" [keptStruct]], .other [] [.mod [] s%"c" [keptStruct]]] }

/-- the hypotheses of the three theorems hold for the pair … -/
example : SameButModAttrs nTwin nFile := ⟨rfl, rfl, rfl⟩
example : modsPlainList nFile.items = true ∧ modsPlainList nTwin.items = true := by decide +kernel
example : reattr (fun _ _ _ => []) nFile = nTwin := rfl
/-- … both structs are parsed under `--target-os android`, in folder mode, although the modules are
`cfg(test)`, `cfg(target_os = "ios")` and `cfg(not(target_os = "android"))` -/
example : (match parseFile wE { multiFile := true, targetOs := [s%"android"] } List.head? s%"mine" s%"mine"
      s%"src/lib.rs" nFile with
    | .ok (some d) => d.structs.map (·.id.original) | _ => []) = [s%"Kept", s%"Kept"] := by decide +kernel
/-- the witness pair is outside `C13_ModuleAttrs_plain` and inside the other two -/
example : modsPlainList wFile.items = false := by decide +kernel

end TsV.C13_ModuleAttrs
