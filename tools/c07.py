"""C07 — the tool always terminates with output or a diagnostic; it never panics or hangs."""
from common import *
from syn_gen import *
from gen import Gen
import l1, l2

NEEDS = ("runner", "cli")

# panic sites of the back ends that are open known findings: site -> id
KNOWN_SITES = {}


def known_site(a, cfg):
    """an open known finding for this panic? (go.rs: only with a non-ASCII entry in uppercase_acronyms)"""
    if str(a.get("panic", "")).startswith("go.rs") and any(ord(ch) > 127 for x in cfg.get("uppercase_acronyms", []) for ch in x):
        return "go-nonascii-acronym"
    return None


def run(check):
    rng = check.rng
    n = 8000 if check.thorough else 1500
    check.rule = ("edge stream: empty tuple structs/variants, containers without arguments, unknown nested typeshare(..) "
                  "lists, non-ASCII and underscore-only identifiers under every rename_all rule, bare `use foo;`, consts, "
                  "arrays with non-literal lengths, non-path types, unparsable serialized_as strings, cfg attributes; "
                  "through parser::parse (single and multi-file), through parse->reconcile->generate for all six back ends "
                  "in-process, and through the real binary (exit status, stderr, 30 s time-out) incl. unparsable and "
                  "non-UTF-8 files and an empty Scala package; non-trivial = the case contains at least one edge construct")
    cases = []
    for i in range(n):
        g = Gen(rng, p_edge=0.35, p_unsupported=0.05, p_cfg=0.1, nonascii=0.15, p_flatten=0.03, p_const=0.5,
                multi_file=(i % 3 == 0), crates=["alpha", "beta_x"])
        f = g.file()
        multi = (i % 3 == 0)
        m, r, text = l1.requests(f, g, multi_file=multi, crate="alpha" if multi else "")
        cases.append(dict(m=m, r=r, text=text, feats=dict(g.features), file=f, gen=g, multi=multi))
    mans, rans, diffs = l1.compare([(c["m"], c["r"]) for c in cases])
    first_panic = None
    for c, ma, ra in zip(cases, mans, rans):
        edge = any(k.startswith("edge") for k in c["feats"])
        check.saw(c["text"], nontrivial=edge)
        for k in c["feats"]:
            if k.startswith("edge"):
                check.count(k)
        check.count("parse-" + ("panic" if "panic" in ra else "err" if "err" in ra else "ok"))
        if "panic" in ra and first_panic is None:
            first_panic = (c, ra, ma)
    if first_panic:
        c, ra, ma = first_panic
        check.violation("parser::parse panics at %s" % ra["panic"], case={"source": c["text"], "request": c["r"]},
                        impl=ra, model=ma, failing_input=True)
    elif diffs:
        c = cases[diffs[0]]
        check.violation("parser::parse differs from the model: %s" % l1.first_diff(mans[diffs[0]], rans[diffs[0]]),
                        case={"source": c["text"], "request": c["r"]}, impl=rans[diffs[0]], model=mans[diffs[0]],
                        failing_input=False, broken="correspondence L1 parser::parse (theorem TsV.C07.parse_never_panics)")
    # ---- generation, all back ends, in-process
    sub = rng.sample(cases, min(len(cases), 3000 if check.thorough else 600))
    greqs, meta = [], []
    for idx, c in enumerate(sub):
        lang = LANGS[idx % 6]
        cfg = {"package": rng.choice(["com.example", "com.example", "", "single"]), "module_name": "m",
               "prefix": rng.choice(["", "OP"]), "type_mappings": {}}
        if lang == "go" and not cfg["package"]:
            cfg["package"] = "proto"
        _, rreq, _ = l2.requests(lang, cfg, [{"crate": "", "file_name": "out", "path": "src/lib.rs", "file": c["file"]}], c["gen"])
        greqs.append(rreq)
        meta.append((lang, c, cfg))
    gans = runner(greqs)
    new_panic = None
    for (lang, c, cfg), a in zip(meta, gans):
        check.saw(("gen", lang, c["text"], json.dumps(cfg, sort_keys=True)), nontrivial=True)
        check.count("generate-%s-%s" % (lang, "panic" if "panic" in a else "ok" if "ok" in a else "error"))
        if "panic" in a:
            kid = known_site(a, cfg)
            if kid and check.known(kid, {"lang": lang, "config": cfg, "source": c["text"], "panic": a["panic"]}):
                continue
            if new_panic is None:
                new_panic = (lang, c, cfg, a)
    if new_panic:
        lang, c, cfg, a = new_panic
        check.violation("%s generation panics at %s" % (lang, a["panic"]),
                        case={"source": c["text"], "lang": lang, "config": cfg}, impl=a, failing_input=True)
    # stored witnesses of the open known findings
    # witnesses: the open finding, and the repaired ones (a panic there is a regression = violation)
    wit = [("go", {"package": "p", "uppercase_acronyms": ["é"]}, "#[typeshare]\npub struct S { pub é: u8 }\n"),
           ("kotlin", {"package": "p"}, "#[typeshare]\npub const X: u32 = 1;\n"),
           ("swift", {}, "#[typeshare]\npub const X: u32 = 1;\n"),
           ("scala", {"package": ""}, "#[typeshare]\npub struct S { pub a: u8 }\n"),
           ("go", {"package": "p"}, "#[typeshare]\n#[serde(tag = \"t\", content = \"c\")]\npub enum Éa { A(u8) }\n")]
    wans = runner([{"op": "generate", "lang": l, "config": cfg, "files": [{"src": s_, "crate": "", "file_name": "o", "path": "w.rs"}]}
                   for l, cfg, s_ in wit])
    for (l, cfg, s_), a in zip(wit, wans):
        if "panic" in a:
            kid = known_site(a, cfg)
            if not (kid and check.known(kid, {"lang": l, "config": cfg, "source": s_, "panic": a["panic"]})):
                check.violation("%s generation panics at %s (regression of a repaired defect)" % (l, a["panic"]),
                                case={"source": s_, "lang": l, "config": cfg}, impl=a, failing_input=True)
    cli_part(check, cases)
    check.assumptions += ["what happens after a worker thread of the `ignore` walker panics (hang vs abort) is not modelled; it is observed through the 30 s time-out of the process-level runs",
                          "back-end panic freedom is claimed only through the in-process runs here until the back-end models carry their own no-panic theorems"]


def cli_part(check, cases):
    rng = check.rng
    picks = rng.sample(cases, min(len(cases), 90 if check.thorough else 30))
    extra = [("unparsable", "#[typeshare]\npub struct S { a: u8,,, }\n"), ("non-utf8", None), ("empty", ""),
             ("only-comment", "// #[typeshare]\n")]
    jobs = [(c["text"], "edge") for c in picks] + [(t, k) for k, t in extra]
    for idx, (text, kind) in enumerate(jobs):
        lang = LANGS[idx % 6]
        multi = idx % 4 == 0
        with Scratch() as sc:
            if text is None:
                p = sc.write("proj/src/lib.rs", "")
                with open(p, "wb") as f:
                    f.write(b"#[typeshare]\npub struct S { a: u8 } // \xff\xfe\n")
            else:
                sc.write("proj/src/lib.rs", text)
            sc.write("proj/src/fine.rs", "#[typeshare]\npub struct Fine { pub a: u8 }\n")
            out = ["-d", sc.path("outdir")] if multi else ["-o", sc.path("out." + EXT[lang])]
            r = run_cli(["--lang", lang] + out + lang_args(lang) + [sc.path("proj")], cwd=sc.dir, timeout=30)
            check.saw(("cli", lang, multi, text), nontrivial=True)
            check.count("cli-%s-rc=%s" % (kind, "timeout" if r["timed_out"] else r["rc"]))
            problem = None
            if r["timed_out"]:
                problem = "did not terminate within 30 s"
            elif "panicked at" in r["err"]:
                problem = "panicked: " + [l for l in r["err"].splitlines() if "panicked at" in l][0]
            elif r["rc"] not in (0, 1):
                problem = "exit status %s" % r["rc"]
            elif r["rc"] == 1 and kind in ("unparsable", "non-utf8") and "lib.rs" not in r["err"]:
                problem = "the diagnostic does not name the offending file"
            if problem:
                check.violation("typeshare --lang %s %s: %s" % (lang, "-d" if multi else "-o", problem),
                                case={"source": text, "lang": lang, "multi_file": multi},
                                impl={"rc": r["rc"], "stderr": r["err"][-2000:]}, failing_input=True)
                return


def odd_paths_part(check):
    """the offending file may sit anywhere a file system lets it: under directory and file names with spaces, non-ASCII letters and
    bytes that are not UTF-8 (legal on Linux).  A file that cannot be read as text or cannot be parsed still ends the run with a
    diagnostic that names it; a fine file under such a path is generated or reported, never a panic"""
    dirs = [("ascii", "models"), ("space", "my models"), ("non-ascii", "caf\u00e9"), ("non-utf8", os.fsdecode(b"caf\xe9")),
            ("non-utf8-2", os.fsdecode(b"\xff\xfe_dir"))]
    contents = [("non-utf8-content", b"#[typeshare]\npub struct S { a: u8 } // \xff\xfe\n"),
                ("unparsable", b"#[typeshare]\npub struct S { a: u8,,, }\n"),
                ("fine", b"#[typeshare]\npub struct S { pub a: u8 }\n")]
    n = 0
    for dlabel, dname in dirs:
        for clabel, content in contents:
            for fname in (["broken_input.rs"] if dlabel != "ascii" else ["broken_input.rs", os.fsdecode(b"broken_\xe9_input.rs")]):
                lang = LANGS[n % 6]
                multi = n % 3 == 0
                n += 1
                with Scratch() as sc:
                    p = sc.write("proj/src/%s/%s" % (dname, fname), "")
                    with open(p, "wb") as f:
                        f.write(content)
                    sc.write("proj/src/fine.rs", "#[typeshare]\npub struct Fine { pub a: u8 }\n")
                    out = ["-d", sc.path("outdir")] if multi else ["-o", sc.path("out." + EXT[lang])]
                    r = run_cli(["--lang", lang] + out + lang_args(lang) + [sc.path("proj")], cwd=sc.dir, timeout=30)
                check.saw(("odd-path", dlabel, clabel, os.fsencode(fname).hex(), lang, multi), nontrivial=True)
                check.count("odd-path-%s-%s-rc=%s" % (dlabel, clabel, "timeout" if r["timed_out"] else r["rc"]))
                problem = None
                if r["timed_out"]:
                    problem = "did not terminate within 30 s"
                elif "panicked at" in r["err"]:
                    problem = "panicked: " + [l for l in r["err"].splitlines() if "panicked at" in l][0]
                elif r["rc"] not in (0, 1):
                    problem = "exit status %s" % r["rc"]
                elif r["rc"] == 1 and "_input.rs" not in r["err"]:
                    problem = "exits 1 and the diagnostic does not name the offending file"
                elif r["rc"] == 0 and clabel != "fine":
                    problem = "exits 0 although the file cannot be %s" % ("parsed" if clabel == "unparsable" else "read as text")
                if problem:
                    check.violation("typeshare --lang %s %s, a file (%s) under the directory name %r / file name %r: %s"
                                    % (lang, "-d" if multi else "-o", clabel, os.fsencode(dname), os.fsencode(fname), problem),
                                    case={"content": content.decode("latin-1"), "directory_name_bytes": list(os.fsencode(dname)),
                                          "file_name_bytes": list(os.fsencode(fname)), "lang": lang, "multi_file": multi},
                                    impl={"rc": r["rc"], "stderr": r["err"][-2000:]}, failing_input=True)
                    return


def array_expansion_part(check):
    """a fixed-size array type is valid Rust whatever its length; TypeScript writes `[T; N]` as an N-tuple, so nested arrays multiply:
    `[[[[[u8; 256]; 256]; 256]; 256]; 256]` (a legal 1 TiB type) asks for a text of 2^40 elements.  Run under an address-space limit of
    3 GiB (so that the machine is not taken down): every language answers with output or a diagnostic - or, TypeScript, aborts on the
    failed allocation (recorded finding typescript-array-tuple-expansion)"""
    import resource, subprocess
    src = "#[typeshare]\npub struct Big { pub table: [[[[[u8; 256]; 256]; 256]; 256]; 256] }\n"
    def limit():
        resource.setrlimit(resource.RLIMIT_AS, (3 << 30, 3 << 30))
    for lang in LANGS:
        with Scratch() as sc:
            sc.write("proj/src/lib.rs", src)
            e = dict(ENV); e["RUST_LOG"] = "info"; e.pop("RUST_BACKTRACE", None)
            try:
                p = subprocess.run([CLI_BIN, "--lang", lang, "-o", sc.path("out." + EXT[lang])] + lang_args(lang) + [sc.path("proj")], cwd=sc.dir, env=e,
                                   stdout=subprocess.PIPE, stderr=subprocess.PIPE, text=True, errors="replace", timeout=120, preexec_fn=limit)
                rc, err = p.returncode, p.stderr
            except subprocess.TimeoutExpired:
                rc, err = None, "no answer within 120 s"
        check.saw(("array-expansion", lang), nontrivial=True)
        check.count("array-expansion-rc=%s" % rc)
        if rc in (0, 1) and "panicked at" not in err:
            continue
        witness = {"lang": lang, "source": src, "address_space_limit": "3 GiB", "exit_status": rc, "stderr": err[-400:]}
        if lang == "typescript" and check.known("typescript-array-tuple-expansion", witness):
            continue
        check.violation("typeshare --lang %s on a five-fold nested `[_; 256]` array type: %s" % (
            lang, "did not terminate" if rc is None else "exit status %s (%s)" % (rc, err.strip().splitlines()[-1][:200] if err.strip() else "")),
                        case=witness, impl={"rc": rc, "stderr": err[-1500:]}, failing_input=True)
        return


def error_among_many_part(check):
    """one file the parser cannot read among hundreds of good ones: the collector stops at the first error while the walker
    threads are still delivering results - the run must end with the diagnostic naming that file (exit 1), not with a panic in a
    walker thread.  A race: repeated, with several thread counts"""
    bad_texts = ["#[typeshare]\npub struct {{{ \n", "#[typeshare]\npub struct S { a: u8,,, }\n", "#[typeshare]\npub enum E { A(, }\n"]
    reps = 24 if check.thorough else 10
    with Scratch() as sc:
        for i in range(400):
            sc.write("ws/src/f%d.rs" % i, "#[typeshare]\npub struct S%d { pub a: String }\n" % i)
        for k in range(reps):
            sc.write("ws/src/a_bad.rs", bad_texts[k % len(bad_texts)])
            multi = k % 3 == 2
            lang = LANGS[k % 6]
            out = ["-d", sc.path("outdir")] if multi else ["-o", sc.path("out." + EXT[lang])]
            threads = [None, "2", "4", "16"][k % 4]
            r = run_cli(["--lang", lang] + out + lang_args(lang) + [sc.path("ws/src")], cwd=sc.path("ws"), timeout=30,
                        env={"TYPESHARE_VERIF_THREADS": threads} if threads else {})
            check.saw(("error-among-many", k), nontrivial=True)
            check.count("error-among-many-rc=%s" % ("timeout" if r["timed_out"] else r["rc"]))
            problem = None
            if r["timed_out"]:
                problem = "did not terminate within 30 s"
            elif "panicked at" in r["err"]:
                problem = "panicked: " + [l for l in r["err"].splitlines() if "panicked at" in l][0]
            elif r["rc"] != 1 or "a_bad.rs" not in r["err"]:
                problem = "exit status %s, diagnostic %s the unparsable file" % (r["rc"], "names" if "a_bad.rs" in r["err"] else "does not name")
            if problem:
                check.violation("typeshare --lang %s over 400 good files and one unparsable file (run %d of %d, walker threads %s): %s"
                                % (lang, k + 1, reps, threads or "default", problem),
                                case={"files": "400 x `#[typeshare] pub struct S<i> { pub a: String }` + src/a_bad.rs", "a_bad.rs": bad_texts[k % len(bad_texts)],
                                      "lang": lang, "multi_file": multi, "threads": threads},
                                impl={"rc": r["rc"], "stderr": r["err"][-1500:]}, failing_input=True)
                return


def entry_points_part(check):
    """the ways a source tree can be named on the command line: relative to the working directory (`src`, `.`, `./src`, `src/`,
    `../proj/src`), a single file, several roots (overlapping, repeated), a path that does not exist, an empty directory - each in
    single- and multi-file mode.  Output or a diagnostic, exit status 0 or 1, no panic, within 20 s"""
    spellings = [["src"], ["."], ["./src"], ["src/"], ["../proj/src"], ["src/lib.rs"], ["src", "../other/src"], ["src", "src"],
                 [".", "src"], ["nope"], ["empty_dir"], ["src/../src"], ["../other"], ["src/nested/src"]]
    for idx, inputs in enumerate(spellings):
        for multi in (False, True):
            lang = LANGS[(idx + multi) % 6]
            with Scratch() as sc:
                sc.write("proj/src/lib.rs", "#[typeshare]\npub struct Root { pub a: u8 }\n")
                sc.write("proj/src/nested/src/inner.rs", "#[typeshare]\npub struct Inner { pub b: u8 }\n")
                sc.write("other/src/lib.rs", "#[typeshare]\npub struct Other { pub c: u8 }\n")
                os.makedirs(sc.path("proj/empty_dir"))
                out = ["-d", sc.path("outdir")] if multi else ["-o", sc.path("out." + EXT[lang])]
                r = run_cli(["--lang", lang] + out + lang_args(lang) + inputs, cwd=sc.path("proj"), timeout=20)
            check.saw(("entry-point", tuple(inputs), multi, lang), nontrivial=True)
            check.count("entry-point-rc=%s" % ("timeout" if r["timed_out"] else r["rc"]))
            problem = None
            if r["timed_out"]:
                problem = "did not terminate within 20 s" + (" after: " + [l for l in r["err"].splitlines() if "panicked at" in l][0]
                                                               if "panicked at" in r["err"] else "")
            elif "panicked at" in r["err"]:
                problem = "panicked: " + [l for l in r["err"].splitlines() if "panicked at" in l][0]
            elif r["rc"] not in (0, 1, 2):
                problem = "exit status %s" % r["rc"]
            if problem:
                check.violation("typeshare --lang %s %s %s (working directory: the crate): %s" % (lang, "-d out" if multi else "-o out", " ".join(inputs), problem),
                                case={"inputs": inputs, "lang": lang, "multi_file": multi, "cwd": "proj",
                                      "tree": ["proj/src/lib.rs", "proj/src/nested/src/inner.rs", "other/src/lib.rs", "proj/empty_dir/"]},
                                impl={"rc": r["rc"], "stderr": r["err"][-2000:]}, failing_input=True)
                return


ODD_ATTRS = ['typescript("readonly")', "swift(5)", 'go(readonly, "x")', 'python(= "str")', "kotlin(,)", 'typescript(readonly,, type = "x")',
             'typescript(type = )', "swift(type = 5)", 'kotlin(type = "x" "y")', "scala(readonly(nested(deep)))", 'go(type = "a", type = "b")',
             "serialized_as = 5", 'serialized_as = "Vec<"', 'serialized_as = ""', "skip = \"yes\"", "redacted(really)", 'swift = 5',
             '"just a string"', "5", "a::b::c", "typescript", "typescript()", "= 3", "skip, , skip", "(nested)", "[1, 2]", "{ a: 1 }",
             "swift(readonly) swift(other)", "-1", "r#type(x)", "typescript(r#type = \"x\")"]


def odd_attrs_part(check):
    """argument lists of `#[typeshare(..)]` / `#[serde(..)]` that rustc and syn accept (attribute arguments are free-form token trees)
    but that are not what the attribute parsers expect - on an item, a field, a variant, a struct-variant field: output or a
    diagnostic, never a panic, an endless loop or a crash; in-process for all six languages and through the binary"""
    srcs = []
    for a in ODD_ATTRS:
        for where in ("field", "variant-field", "item", "variant"):
            at = "#[typeshare(%s)]" % a
            if where == "field":
                src = "#[typeshare]\npub struct S {\n    %s\n    pub f: u8,\n    pub g: String,\n}\n" % at
            elif where == "variant-field":
                src = "#[typeshare]\n#[serde(tag = \"t\", content = \"c\")]\npub enum E {\n    V {\n        %s\n        f: u8,\n    },\n    W,\n}\n" % at
            elif where == "variant":
                src = "#[typeshare]\n#[serde(tag = \"t\", content = \"c\")]\npub enum E {\n    %s\n    V(u8),\n    W,\n}\n" % at
            else:
                src = "#[typeshare]\n%s\npub struct S {\n    pub f: u8,\n}\n" % at
            srcs.append((a, where, src))
        srcs.append((a, "serde-field", "#[typeshare]\npub struct S {\n    #[serde(%s)]\n    pub f: u8,\n}\n" % a))
    reqs, meta = [], []
    for a, where, src in srcs:
        for lang in LANGS:
            reqs.append({"op": "generate", "lang": lang, "config": {"package": "proto" if lang == "go" else "com.example", "type_mappings": {}},
                         "multi_file": False, "target_os": [], "files": [{"src": src, "crate": "", "file_name": "o", "path": "src/lib.rs"}]})
            meta.append((a, where, src, lang))
    for (a, where, src, lang), ans in zip(meta, runner(reqs)):
        check.saw(("odd-attr", a, where, lang), nontrivial=True)
        check.count("odd-attr-%s" % ("panic" if "panic" in ans else "ok" if "ok" in ans else "error"))
        if "panic" in ans:
            check.violation("%s: `#[%s(%s)]` on a %s: %s" % (lang, "serde" if where == "serde-field" else "typeshare", a, where,
                            "no answer (endless loop)" if ans.get("hang") else "panic / crash at " + str(ans["panic"])),
                            case={"source": src, "lang": lang}, impl=ans, failing_input=True)
            return
    # and through the binary (the parse happens in a walker thread there)
    for k, (a, where, src) in enumerate(srcs[:: 7 if not check.thorough else 2]):
        lang = LANGS[k % 6]
        with Scratch() as sc:
            sc.write("proj/src/lib.rs", src)
            r = run_cli(["--lang", lang, "-o", sc.path("out." + EXT[lang])] + lang_args(lang) + [sc.path("proj")], cwd=sc.dir, timeout=20)
        check.saw(("odd-attr-cli", a, where, lang), nontrivial=True)
        check.count("odd-attr-cli")
        if r["timed_out"] or "panicked at" in r["err"] or r["rc"] not in (0, 1):
            check.violation("typeshare --lang %s on `#[typeshare(%s)]` (%s): %s" % (lang, a, where, "did not terminate within 20 s" if r["timed_out"]
                            else "exit status %s %s" % (r["rc"], r["err"][-300:])), case={"source": src, "lang": lang},
                            impl={"rc": r["rc"], "stderr": r["err"][-1500:]}, failing_input=True)
            return


def const_forms_part(check):
    """annotated constants of every primitive type (the 64-bit ones included) with initialisers of every literal form and some
    non-literal expressions: each back end answers with output or a diagnostic - in particular the back ends that reject constants
    or 64-bit integers do so with an error, not a panic"""
    types = ["u8", "u32", "i32", "u64", "i64", "usize", "isize", "f64", "bool", "&'static str", "String", "char", "U53", "I54", "Foo"]
    inits = ["1", "0x10_00", "1_000", "0b101", "0o17", "-1", "1u8", "(1)", "(1 << 4)", "1 << 4", "\"s\"", "'c'", "true", "1.5", "i64::MAX",
             "FOO", "{ 3 }", "b'x'", "r\"raw\"", "18446744073709551615", "340282366920938463463374607431768211455"]
    reqs, meta = [], []
    for ty in types:
        for init in inits:
            src = "#[typeshare]\npub const LIMIT: %s = %s;\n" % (ty, init)
            for lang in LANGS:
                reqs.append({"op": "generate", "lang": lang, "config": {"package": "proto" if lang == "go" else "com.example", "type_mappings": {}},
                             "multi_file": False, "target_os": [], "files": [{"src": src, "crate": "", "file_name": "o", "path": "src/lib.rs"}]})
                meta.append((ty, init, lang, src))
    for (ty, init, lang, src), ans in zip(meta, runner(reqs)):
        check.saw(("const-form", ty, init, lang), nontrivial=True)
        check.count("const-form-%s" % ("panic" if "panic" in ans else "ok" if "ok" in ans else "error"))
        if "panic" in ans:
            check.violation("%s: `pub const LIMIT: %s = %s;`: %s" % (lang, ty, init, "no answer (endless loop)" if ans.get("hang")
                            else "panic / crash at " + str(ans["panic"])), case={"source": src, "lang": lang}, impl=ans, failing_input=True)
            return


def multi_crate_part(check):
    """folder mode in-process (parse -> merge -> reconcile -> generate, all six back ends) over workspaces in which crates share type
    names: renamed in one crate and not in another, imported by `use`, by glob, by a qualified path or not at all, re-exported through a
    crate that is not part of the run - the cross-crate look-ups of reconcile / used_imports must answer with output or an error"""
    import c06
    rng = check.rng
    reqs, meta = [], []
    g = Gen(rng)
    for k in range(48 if check.thorough else 16):
        shape = c06.AMBIG_SHAPES[k % len(c06.AMBIG_SHAPES)]
        nprov = rng.choice([2, 2, 3])
        files, info = c06.ambiguous_workspace(rng, k, shape, nprov, rng.randint(0, nprov))
        if k % 4 == 3:
            # a consumer that uses the shared name without naming any crate, and one that imports by glob
            word = info["type"]
            ts = [m_path("typeshare")]
            files.append(dict(rel="loner/src/lib.rs", crate="loner", file={"attrs": [], "items": [
                {"kind": "struct", "attrs": list(ts), "ident": word, "generics": [], "fields": ("named", [field([], "own", t_path("u8"))])},
                {"kind": "struct", "attrs": list(ts), "ident": "LonerUser", "generics": [], "fields": ("named", [field([], "x", t_path(word))])}]}))
            files.append(dict(rel="globber/src/lib.rs", crate="globber", file={"attrs": [], "items": [
                {"kind": "use", "tree": ("upath", info["providers"][0].replace("-", "_"), ("uglob",))},
                {"kind": "struct", "attrs": list(ts), "ident": "GlobUser", "generics": [], "fields": ("named", [field([], "x", t_path("Vec", [t_path(word)]))])}]}))
        jobs = [{"crate": f["crate"], "file_name": "x", "path": "ws/" + f["rel"], "file": f["file"]} for f in files]
        for lang in LANGS:
            cfg = {"package": "proto" if lang == "go" else "com.example", "type_mappings": {}}
            _, rreq, texts = l2.requests(lang, cfg, jobs, g, multi_file=True)
            reqs.append(rreq)
            meta.append((lang, shape, texts))
    for (lang, shape, texts), a in zip(meta, runner(reqs)):
        check.saw(("multi-crate", lang, shape, "|".join(texts)), nontrivial=True)
        check.count("multi-crate-%s" % ("panic" if "panic" in a else "ok" if "ok" in a else "error"))
        if "panic" in a:
            check.violation("%s folder mode panics at %s (crates sharing a type name, shape %s)" % (lang, a["panic"], shape),
                            case={"lang": lang, "sources": texts}, impl=a, failing_input=True)
            return


def big_tree_part(check):
    """source trees much larger than the walker's bounded result channel (100): every file yields a result; with and
    without item errors; single- and multi-file mode; several walker thread counts"""
    rng = check.rng
    sizes = [130, 260, 513] if check.thorough else [130, 257]
    for k, n in enumerate(sizes):
        for mode in ("single", "multi"):
            lang = LANGS[(k * 2 + (mode == "multi")) % 6]
            with_error = (k + (mode == "multi")) % 2 == 1
            with Scratch() as sc:
                for i in range(n):
                    crate = "c%d" % (i % 7)
                    body = "#[typeshare]\npub struct T%d { pub a: u8 }\n" % i
                    if with_error and i == n // 2:
                        body += "#[typeshare]\npub struct Bad%d(pub u8, pub u8);\n" % i
                    sc.write("ws/%s/src/f%d.rs" % (crate, i), body)
                out = ["-d", sc.path("outdir")] if mode == "multi" else ["-o", sc.path("out." + EXT[lang])]
                threads = rng.choice(["1", "2", "8", None])
                env = {"TYPESHARE_VERIF_THREADS": threads} if threads else {}
                r = run_cli(["--lang", lang] + out + lang_args(lang) + [sc.path("ws")], cwd=sc.dir, timeout=60, env=env)
                text = ""
                if r["rc"] == 0:
                    if mode == "multi":
                        for fn in sorted(os.listdir(sc.path("outdir"))):
                            text += open(os.path.join(sc.path("outdir"), fn), encoding="utf-8").read()
                    else:
                        text = open(sc.path("out." + EXT[lang]), encoding="utf-8").read()
            check.saw(("big-tree", n, mode, lang, with_error), nontrivial=True)
            check.count("big-tree-%s-%s" % (mode, "with-error" if with_error else "clean"))
            problem = None
            if r["timed_out"]:
                problem = "did not terminate within 60 s on a tree of %d annotated files" % n
            elif "panicked at" in r["err"]:
                problem = "panicked: " + [l for l in r["err"].splitlines() if "panicked at" in l][0]
            elif with_error and (r["rc"] == 0 or ("f%d.rs" % (n // 2)) not in r["err"]):
                problem = "exit status %s although f%d.rs holds an unsupported item (or the diagnostic does not name it)" % (r["rc"], n // 2)
            elif not with_error and r["rc"] != 0:
                problem = "exit status %s: %s" % (r["rc"], r["err"][-300:])
            elif not with_error:
                missing = [i for i in range(n) if not re.search(r"\bT%d\b" % i, text)]
                if missing:
                    problem = "%d of %d definitions are missing from the output (first: T%d)" % (len(missing), n, missing[0])
            if problem:
                check.violation("typeshare --lang %s (%s-file mode, %d files, walker threads %s): %s" % (lang, mode, n, threads or "default", problem),
                                case={"files": n, "mode": mode, "lang": lang, "with_error": with_error, "threads": threads},
                                impl={"rc": r["rc"], "stderr": r["err"][-1000:]}, failing_input=True)
                return


_run_small = run


def odd_types_part(check):
    """a catalogue of unusual but valid type expressions (containers as map keys, zero-length arrays, unit inside containers,
    deep wrapper nests) at every position (field, tuple payload, struct-variant field, alias) through all six back ends
    in-process: whatever a back end makes of them, it must be output or an error, never a panic - and the same as the model"""
    u8, st, unit = t_path("u8"), t_path("String"), ("tuple", [])
    vec = lambda t: t_path("Vec", [t])
    opt = lambda t: t_path("Option", [t])
    hm = lambda k, v: t_path("HashMap", [k, v])
    box = lambda t: t_path("Box", [t])
    CATALOGUE = [hm(vec(st), u8), hm(hm(st, u8), u8), hm(opt(st), u8), hm(unit, unit), hm(("array", u8, 2), st), ("array", u8, 0),
                 vec(("array", st, 0)), opt(opt(opt(u8))), box(box(vec(box(st)))), vec(unit), ("array", unit, 3),
                 ("ref", ("slice", ("ref", ("slice", u8), False)), False), opt(vec(opt(hm(st, vec(unit))))), hm(st, hm(st, hm(st, st))),
                 t_path("HashMap", [st, u8, t_path("RandomState")]), vec(t_path("Missing", [u8])), ("array", ("array", u8, 1), 1)]
    ts = [m_path("typeshare")]
    tagged = m_list("serde", [m_nv("tag", lit_s("t")), m_nv("content", lit_s("c"))])
    g = Gen(check.rng)
    mreqs, rreqs, meta = [], [], []
    for k, ty in enumerate(CATALOGUE):
        for pos in ("field", "payload", "variant-field", "alias"):
            if pos == "field":
                item = {"kind": "struct", "attrs": list(ts), "ident": "S%d" % k, "generics": [], "fields": ("named", [field([], "f", ty)])}
            elif pos == "payload":
                item = {"kind": "enum", "attrs": list(ts) + [tagged], "ident": "E%d" % k, "generics": [],
                        "variants": [{"attrs": [], "ident": "V", "fields": ("unnamed", [field([], None, ty)])}, {"attrs": [], "ident": "U", "fields": ("unit",)}]}
            elif pos == "variant-field":
                item = {"kind": "enum", "attrs": list(ts) + [tagged], "ident": "F%d" % k, "generics": [],
                        "variants": [{"attrs": [], "ident": "V", "fields": ("named", [field([], "f", ty)])}]}
            else:
                item = {"kind": "alias", "attrs": list(ts), "ident": "A%d" % k, "generics": [], "ty": ty}
            f = {"attrs": [], "items": [item]}
            for lang in LANGS:
                cfg = {"package": "proto" if lang == "go" else "com.example", "type_mappings": {}}
                m, r, texts = l2.requests(lang, cfg, [{"crate": "", "file_name": "o", "path": "src/lib.rs", "file": f}], g)
                mreqs.append(m)
                rreqs.append(r)
                meta.append((lang, pos, texts[0]))
    mans = [l2.norm(a) for a in model(mreqs)]
    rans = [l2.norm(a) for a in runner(rreqs)]
    mismatch = None
    for (lang, pos, text), ma, ra in zip(meta, mans, rans):
        check.saw(("odd-type", lang, pos, text), nontrivial=True)
        check.count("odd-types-%s" % ("ok" if "ok" in ra else "panic" if "panic" in ra else "error"))
        if "panic" in ra:
            check.violation("%s panics on a valid type expression at position %s: %s" % (lang, pos, ra["panic"]),
                            case={"lang": lang, "position": pos, "source": text}, impl=ra, model=ma, failing_input=True)
            return
        if ma != ra and mismatch is None:
            mismatch = (lang, pos, text, ma, ra)
    if mismatch:
        lang, pos, text, ma, ra = mismatch
        check.violation("%s generation differs from the model on an unusual type expression (%s)" % (lang, pos),
                        case={"lang": lang, "position": pos, "source": text}, impl=ra, model=ma, failing_input=False,
                        broken="correspondence L2 format_type on unusual types (theorems TsV.C07_Backends.*)")


RN_NOUNS = ["Account", "Address", "ApiKey", "AuditEvent", "Basket", "Booking", "Campaign", "Contact", "Coupon", "Customer", "Device",
            "Discount", "Document", "Feature", "Invoice", "Ledger", "LoginAttempt", "Membership", "Message", "Notification", "Order",
            "OrderItem", "Organization", "Payment", "Permission", "Product", "Refund", "Report", "Role", "Session", "Shipment",
            "Subscription", "TaxRate", "Team", "Ticket", "Token", "UserProfile", "Vault", "Warehouse", "Webhook", "Zone"]
RN_PLURAL = {"struct": "structs", "enum": "enums", "alias": "aliases", "const": "consts"}
RN_SUFFIXES = ["", "", "", "Request", "Response", "Summary", "Id", "Kind", "Status", "List", "V2", "Draft"]


def renamed_program(rng, k):
    """one program of the renamed-many dimension: dict(items=[abstract items in declaration order], renames=[(kind, Rust name,
    wire name, how)], counts={kind: n}, order=...)"""
    n = rng.randint(20, 80)
    dominant = ["struct", "struct", "enum", "alias", "const", "even", "struct", "enum"][k % 8]
    kinds_all = ["struct", "enum", "alias", "const"]
    if dominant == "even":
        counts = {kd: n // 4 for kd in kinds_all}
        counts["struct"] += n - sum(counts.values())
    else:
        nd = max(1, min(n, int(round(n * rng.uniform(0.6, 0.95)))))
        others = [kd for kd in kinds_all if kd != dominant and (kd != "const" or rng.random() < 0.3)]
        counts = {kd: 0 for kd in kinds_all}
        counts[dominant] = nd
        for _ in range(n - nd):
            counts[rng.choice(others)] += 1
    words = set()
    while len(words) < n:
        words.add(rng.choice(RN_NOUNS) + rng.choice(RN_SUFFIXES))
    words = sorted(words)
    rng.shuffle(words)
    kind_of, pos = {}, 0
    for kd in kinds_all:
        for w in words[pos:pos + counts[kd]]:
            kind_of[w] = kd
        pos += counts[kd]
    def rust_name(w):
        return re.sub(r"(?<=[a-z0-9])(?=[A-Z])", "_", w).upper() if kind_of[w] == "const" else w
    names = {w: rust_name(w) for w in words}
    types = [names[w] for w in words if kind_of[w] != "const"]
    # ---- which items carry a container-level serde(rename), and to what
    renames = {}            # Rust name -> (wire name, how)
    by_kind = {kd: sorted(names[w] for w in words if kind_of[w] == kd) for kd in kinds_all}
    nren = rng.choice([0, 1, 1, 2, 3, 4, 5, 6, 8])
    # most renames go to the kind with the most items (the order of a kind's list is what the rename may disturb)
    biggest = max(kinds_all, key=lambda kd: counts[kd])
    tries = 0
    while len(renames) < nren and tries < 100:
        tries += 1
        kd = biggest if rng.random() < 0.7 else rng.choice([x for x in kinds_all if counts[x]])
        free = [x for x in by_kind[kd] if x not in renames]
        if not free:
            continue
        me = rng.choice(free)
        peers = by_kind[kd]
        how = rng.choice(["before", "between", "after", "after", "swap", "equal", "case", "same", "kebab"])
        snake = re.sub(r"(?<=[a-z0-9])(?=[A-Z])", "_", me).lower()
        if how == "before":
            new = rng.choice(["A0" + me, "AAA" + me, "0" + snake]) if kd != "const" else "A0_" + me
        elif how == "after":
            new = rng.choice([snake + "_v2", snake, "zz" + me, me[0].lower() + me[1:]])
        elif how == "between":
            a = rng.choice(peers)
            new = a + rng.choice(["A", "0", "_", "Z"])
            if new in names.values():
                continue
        elif how == "swap":
            free2 = [x for x in free if x != me]
            if not free2 or len(renames) + 2 > nren:
                continue
            other = rng.choice(free2)
            renames[other] = (me, "swap")
            new = other
        elif how == "equal":
            # the name another item (of the same or of another kind) has in Rust and keeps
            new = rng.choice([x for x in names.values() if x != me])
        elif how == "case":
            new = rng.choice([me.lower(), me.upper()])
        elif how == "kebab":
            new = snake.replace("_", "-")
        else:
            new = me
        renames[me] = (new, how)
    # ---- the items
    ts = [m_path("typeshare")]
    def ref():
        r = rng.random()
        leaf = t_path(rng.choice(types)) if types and r < 0.6 else t_path(rng.choice(["String", "u8", "u32", "bool", "f64", "i32"]))
        r = rng.random()
        return (leaf if r < 0.4 else t_path("Option", [leaf]) if r < 0.6 else t_path("Vec", [leaf]) if r < 0.8
                else t_path("HashMap", [t_path("String"), leaf]))
    items = []
    for w in words:
        kd, name = kind_of[w], names[w]
        attrs = list(ts)
        if rng.random() < 0.5:
            attrs.append(m_list("derive", [m_path("Serialize"), m_path("Deserialize")]))
        if name in renames:
            extra = [m_nv("rename", lit_s(renames[name][0]))]
            if kd in ("struct", "enum") and rng.random() < 0.3:
                extra.append(m_nv("rename_all", lit_s(rng.choice(["camelCase", "snake_case", "PascalCase"]))))
                rng.shuffle(extra)
            attrs.append(m_list("serde", extra))
        if kd == "struct":
            it = {"kind": "struct", "attrs": attrs, "ident": name, "generics": [],
                  "fields": ("named", [field([], fn, ref()) for fn in rng.sample(["id", "label", "owner", "items", "parent", "note"], rng.randint(1, 3))])}
        elif kd == "enum":
            if rng.random() < 0.5:
                vs = [{"attrs": [], "ident": v, "fields": ("unit",)} for v in rng.sample(["Active", "Closed", "Pending", "Unknown"], rng.randint(1, 3))]
            else:
                attrs.append(m_list("serde", [m_nv("tag", lit_s("type")), m_nv("content", lit_s("content"))]))
                vs = [{"attrs": [], "ident": "Empty", "fields": ("unit",)}, {"attrs": [], "ident": "One", "fields": ("unnamed", [field([], None, ref())])},
                      {"attrs": [], "ident": "Detailed", "fields": ("named", [field([], "value", ref())])}][rng.choice([0, 0, 1]):rng.randint(2, 3)]
            it = {"kind": "enum", "attrs": attrs, "ident": name, "generics": [], "variants": vs}
        elif kd == "alias":
            it = {"kind": "alias", "attrs": attrs, "ident": name, "generics": [], "ty": ref()}
        else:
            v = rng.choice([0, 1, 42, 255, 1000000])
            it = {"kind": "const", "attrs": attrs, "ident": name, "ty": t_path(rng.choice(["u32", "i32", "u8"])), "expr_text": str(v), "init": ("i", v, "")}
        items.append(it)
    order = rng.choice(["shuffled", "shuffled", "shuffled", "shuffled", "ascending", "descending", "by-kind", "nearly-sorted"])
    if order in ("ascending", "descending", "nearly-sorted"):
        items.sort(key=lambda it: it["ident"], reverse=(order == "descending"))
        if order == "nearly-sorted":
            for _ in range(3):
                i, j = rng.randrange(len(items)), rng.randrange(len(items))
                items[i], items[j] = items[j], items[i]
    elif order == "by-kind":
        items.sort(key=lambda it: kinds_all.index(it["kind"]))
    return dict(items=items, counts=counts, order=order,
                renames=[(it["kind"], it["ident"], renames[it["ident"]][0], renames[it["ident"]][1]) for it in items if it["ident"] in renames])


def renamed_many_part(check):
    """quantity x container-level renames: programs of 20-80 annotated items of every kind (structs, enums, aliases, consts; one kind
    usually dominates, so that each kind's list gets longer than the 20 elements up to which std sorts by plain insertion) in shuffled /
    ascending / descending / nearly sorted / grouped declaration order, in which 0-8 items carry a container-level serde(rename) to a
    name that sorts before / between / after the Rust names of its kind, that differs only in case, that is another item's Rust name, or
    that swaps two names - so that the emitted name and the Rust name of an item sit at different places of the per-kind order the
    reconciliation step establishes.  Split over 1-3 files of one or two crates.  Every program in-process through one back end in
    single-file mode and another in folder mode; the first 40 (thorough: 200) through all six back ends, through the binary with -o
    and -d, and through the model: output or a diagnostic, never a panic (exit 101), an abort or a hang; and the same definitions as
    the model writes"""
    rng = check.rng
    nprog, nfull = (1000, 200) if check.thorough else (200, 40)
    g = Gen(rng)
    progs, mreqs, rreqs, meta, allnames = [], [], [], [], set()
    for k in range(nprog):
        p = renamed_program(rng, k)
        nfiles = rng.choice([1, 1, 2, 3])
        two_crates = nfiles > 1 and rng.random() < 0.3
        cuts = sorted(rng.sample(range(1, len(p["items"])), nfiles - 1))
        chunks = [p["items"][a:b] for a, b in zip([0] + cuts, cuts + [len(p["items"])])]
        p["files"] = [{"crate": ("beta_x" if two_crates and i == nfiles - 1 else "alpha"), "rel": "src/%s.rs" % ("lib" if i == 0 else "part%d" % i),
                       "file": {"attrs": [], "items": c}} for i, c in enumerate(chunks)]
        p["label"] = "%d items (%s), declaration order %s, %d file(s)%s, %d renamed%s" % (
            len(p["items"]), ", ".join("%d %s" % (v, RN_PLURAL[kd]) for kd, v in p["counts"].items() if v), p["order"], nfiles,
            " in two crates" if two_crates else "", len(p["renames"]),
            ": " + ", ".join("%s %s -> %r (%s)" % r for r in p["renames"]) if p["renames"] else "")
        full = k < nfull
        if full:
            for f in p["files"]:
                allnames |= l2.names_of(f["file"])
        check.count("renamed-many-programs")
        check.count("renamed-many-renames", len(p["renames"]))
        for _, _, _, how in p["renames"]:
            check.count("renamed-many-rename-" + how)
        check.count("renamed-many-order-" + p["order"])
        for kd, v in p["counts"].items():
            if v > 20:
                check.count("renamed-many-more-than-20-%s" % RN_PLURAL[kd])
                if any(r[0] == kd for r in p["renames"]):
                    check.count("renamed-many-more-than-20-%s-with-a-renamed-one" % RN_PLURAL[kd])
        if full:
            progs.append(p)
        p["texts"] = [render_file(f["file"]) for f in p["files"]]
        for mode in ("single", "folder"):
            for lang in (LANGS if mode == "single" and full else [LANGS[(k + 3 * (mode == "folder")) % 6]]):
                cfg = {"package": "proto" if lang == "go" else "com.example", "type_mappings": {}}
                jobs = [{"crate": f["crate"] if mode == "folder" else "", "file_name": "out", "path": "ws/%s/%s" % (f["crate"], f["rel"]), "file": f["file"]}
                        for f in p["files"]]
                if full:
                    m, r, texts = l2.requests(lang, cfg, jobs, g, multi_file=(mode == "folder"))
                else:
                    m, r = None, {"op": "generate", "lang": lang, "config": cfg, "multi_file": mode == "folder", "target_os": [],
                                  "files": [{"src": t, "crate": j["crate"], "file_name": j["file_name"], "path": j["path"]} for j, t in zip(jobs, p["texts"])]}
                mreqs.append(m)
                rreqs.append(r)
                meta.append((p, mode, lang, cfg, p["texts"]))
    rans = runner(rreqs)
    for (p, mode, lang, cfg, texts), ra in zip(meta, rans):
        check.saw(("renamed-many", mode, lang, "|".join(texts)), nontrivial=bool(p["renames"]))
        check.count("renamed-many-%s-%s" % (mode, "panic" if "panic" in ra else "ok" if "ok" in ra else "error"))
        if "panic" in ra:
            check.violation("%s, %s mode, in-process, on a program of %s: %s" % (
                lang, "single-file" if mode == "single" else "folder", p["label"],
                "no answer (endless loop)" if ra.get("hang") else "panic / crash at " + str(ra["panic"])),
                            case={"lang": lang, "config": cfg, "multi_file": mode == "folder", "renames": p["renames"],
                                  "files": {"ws/%s/%s" % (f["crate"], f["rel"]): t for f, t in zip(p["files"], texts)},
                                  "replay": "write the files, then: typeshare --lang %s %s %s ws" % (
                                      lang, "-d outdir" if mode == "folder" else "-o out." + EXT[lang], " ".join(lang_args(lang)))},
                            impl={k_: str(v)[:1500] for k_, v in ra.items()}, failing_input=True)
            return
    # ---- the binary: single-file (-o) and folder (-d) output over the same trees
    for k, p in enumerate(progs):
        texts = p["texts"]
        for multi in (False, True):
            lang = LANGS[(2 * k + multi) % 6]
            with Scratch() as sc:
                for f, t in zip(p["files"], texts):
                    sc.write("ws/%s/%s" % (f["crate"], f["rel"]), t)
                outs = ["-d", sc.path("outdir")] if multi else ["-o", sc.path("out." + EXT[lang])]
                r = run_cli(["--lang", lang] + outs + lang_args(lang) + [sc.path("ws")], cwd=sc.dir, timeout=30)
                written = []
                if multi and os.path.isdir(sc.path("outdir")):
                    written = sorted(fn for fn in os.listdir(sc.path("outdir")) if os.path.getsize(os.path.join(sc.path("outdir"), fn)))
                elif not multi and os.path.exists(sc.path("out." + EXT[lang])) and os.path.getsize(sc.path("out." + EXT[lang])):
                    written = ["out." + EXT[lang]]
            check.saw(("renamed-many-cli", lang, multi, "|".join(texts)), nontrivial=bool(p["renames"]))
            check.count("renamed-many-cli-%s-rc=%s" % ("d" if multi else "o", "timeout" if r["timed_out"] else r["rc"]))
            problem = None
            if r["timed_out"]:
                problem = "did not terminate within 30 s" + (" after: " + [l for l in r["err"].splitlines() if "panicked at" in l][0]
                                                               if "panicked at" in r["err"] else "")
            elif "panicked at" in r["err"]:
                lines = r["err"].splitlines()
                at = [i for i, l in enumerate(lines) if "panicked at" in l][0]
                problem = "exit status %s, panicked: %s" % (r["rc"], " ".join(l.strip() for l in lines[at:at + 2]))
            elif r["rc"] not in (0, 1):
                problem = "exit status %s" % r["rc"]
            elif r["rc"] == 1 and not r["err"].strip():
                problem = "exit status 1 without any diagnostic"
            elif r["rc"] == 0 and not written:
                problem = "exit status 0 but no output was written"
            if problem:
                check.violation("typeshare --lang %s %s on a program of %s: %s" % (lang, "-d outdir" if multi else "-o out." + EXT[lang], p["label"], problem),
                                case={"lang": lang, "multi_file": multi, "renames": p["renames"], "command": "typeshare --lang %s %s %s ws" % (
                                    lang, "-d outdir" if multi else "-o out." + EXT[lang], " ".join(lang_args(lang))),
                                      "files": {"ws/%s/%s" % (f["crate"], f["rel"]): t for f, t in zip(p["files"], texts)}},
                                impl={"rc": r["rc"], "stderr": r["err"][-2000:], "written": written}, failing_input=True)
                return
    # ---- the same definitions as the model writes
    both = [(mt, l2.norm(ra)) for mt, m, ra in zip(meta, mreqs, rans) if m is not None]
    mans = [l2.norm(a) for a in model([m for m in mreqs if m is not None], names=allnames)]
    for ((p, mode, lang, cfg, texts), ra), ma in zip(both, mans):
        if ma == ra:
            check.count("renamed-many-model-agrees")
            continue
        check.count("renamed-many-model-differs")
        check.violation("%s, %s mode: generation differs from the model on a program of %s: %s" % (
            lang, "single-file" if mode == "single" else "folder", p["label"], corpus_describe(ma, ra)),
                        case={"lang": lang, "config": cfg, "multi_file": mode == "folder", "renames": p["renames"],
                              "files": {"%s/%s" % (f["crate"], f["rel"]): t for f, t in zip(p["files"], texts)}},
                        impl=ra, model=ma, failing_input=False,
                        broken="correspondence L2 reconcile + generate on many items with container-level renames (theorems TsV.C07_Backends.*)")
        return


ACR_STEMS = ["id", "url", "api", "http", "db", "ip", "io", "ui", "uuid", "sql", "os", "tcp", "a", "x", "qr", "cpu", "json", "tls"]
ACR_FILL = ["User", "To", "Target", "Source", "Of", "Group", "Key", "Map", "By", "Last", "V2", "Is"]
ACR_POSITIONS = ["field-name", "struct-name", "alias-name", "enum-name", "unit-variant", "tuple-variant", "struct-variant", "tag-key",
                 "variant-field-name", "field-type", "payload-type", "alias-type", "variant-field-type", "everywhere"]
ACR_RESERVED = {"Wrapper", "Pair", "Holder", "Plain", "Other", "String", "Vec", "Option", "HashMap", "Box", "Self", "T", "L", "R"}


def acr_pascal(entry):
    """typeshare's to_pascal_case (rename.rs) on an ASCII string: the spelling of an `uppercase_acronyms` entry that is looked for"""
    allup = not any("a" <= c <= "z" for c in entry)
    out, cap = "", True
    for c in entry:
        if c == "_":
            cap = True
        elif cap:
            out += c.upper()
            cap = False
        else:
            out += c.lower() if allup else c
    return out


def acr_list(rng):
    """an `uppercase_acronyms` list: 1-4 ASCII entries of 1-4 letters in upper / lower / capitalised / mixed case, often with one entry
    a prefix of another, sometimes with the same acronym twice in two spellings; returns (entries, [labels])"""
    def spell(stem):
        how = rng.choice(["upper", "lower", "capitalised", "mixed"])
        if how == "upper":
            return stem.upper(), how
        if how == "lower":
            return stem, how
        if how == "capitalised":
            return stem[0].upper() + stem[1:], how
        return "".join(c.upper() if rng.random() < 0.5 else c for c in stem), how
    n = rng.choice([1, 1, 2, 2, 3, 4])
    entries, labels = [], set()
    for stem in rng.sample(ACR_STEMS, n):
        e, how = spell(stem)
        entries.append(e)
        labels.add("entry-" + how)
        labels.add("entry-of-%d-letters" % len(e))
    r = rng.random()
    if len(entries) < 4 and r < 0.35:
        longer = [e for e in entries if len(e) > 1]
        if longer:
            e = rng.choice(longer)
            entries.insert(rng.randrange(len(entries) + 1), e[:rng.randint(1, len(e) - 1)])
            labels.add("one-entry-a-prefix-of-another")
    elif len(entries) < 4 and r < 0.45:
        e = rng.choice(entries)
        entries.append(rng.choice([e.upper(), e.lower(), e]))
        labels.add("one-acronym-listed-twice")
    return entries, sorted(labels)


def acr_pieces(rng, pats):
    """the pieces (each starting with a capital) of one name in which a looked-for spelling occurs 0 / 1 / 2 / 3 times: adjacent,
    separated, overlapping (`Idid`, `IdIdentity`), at the start and at the end, two different entries; returns (pieces, label)"""
    p = rng.choice(pats)
    q = rng.choice(pats)
    f = lambda: rng.choice(ACR_FILL)
    low = p + rng.choice(["entity", "s", "x", p.lower()])          # followed by a lower-case letter: `Identity`, `Idid`
    recipes = [
        ("none", lambda: [f(), f()]),
        ("none-lower-case-spelling", lambda: [f() + p.lower(), f()]),
        ("once-at-the-start", lambda: [p, f()]),
        ("once-at-the-end", lambda: [f(), p]),
        ("once-in-the-middle", lambda: [f(), p, f()]),
        ("once-alone", lambda: [p]),
        ("once-before-a-lower-case-letter", lambda: [f(), low]),
        ("twice-adjacent", lambda: [p, p]),
        ("twice-adjacent-inside", lambda: [f(), p, p, f()]),
        ("twice-separated", lambda: [f(), p, f(), p]),
        ("twice-start-and-end", lambda: [p, f(), p]),
        ("twice-overlapping", lambda: [low, p]),
        ("twice-first-before-a-lower-case-letter", lambda: [low, f(), p]),
        ("twice-two-entries", lambda: [p, f(), q]),
        ("twice-far-apart", lambda: [p, f(), f(), f(), f(), p]),
        ("three-times-adjacent", lambda: [p, p, p]),
        ("three-times-separated", lambda: [p, f(), p, f(), p]),
        ("three-times-mixed", lambda: [f(), p, p, f(), q]),
        ("three-times-with-lower-case-neighbours", lambda: [low, p, low, p]),
    ]
    label, make = rng.choice(recipes)
    return make(), label


def go_acronyms_part(check):
    """Go's `uppercase_acronyms` setting x the names it is applied to.  Lists of 1-4 ASCII entries of 1-4 letters (upper, lower,
    capitalised and mixed case, one entry a prefix of another, one acronym listed twice) against names in which the looked-for spelling
    occurs 0 / 1 / 2 / 3 times - adjacent, separated, overlapping (`Idid`), before a lower-case letter (`Identity`), at the start and at
    the end, two different entries in one name - at every place the Go back end applies the pass: field names, struct / alias / enum
    names, unit / tuple / struct variant names (the latter inside `<Enum><Variant>Inner`), the serde tag key, fields of struct
    variants, and whole type expressions (`map[UserId]GroupId`: field types, variant payloads, alias targets) whose type names each
    hold the spelling 0-2 times.  In-process through the Go generator (no answer within the runner's limit = a failing input) and
    through the binary with a typeshare.toml: the run ends with output or with a diagnostic, never a panic, a crash or an endless
    loop; and the output is the model's"""
    rng = check.rng
    ncases, ncli = (2400, 48) if check.thorough else (420, 14)
    g = Gen(rng)
    ts = [m_path("typeshare")]
    st, u8 = t_path("String"), t_path("u8")
    cases = []
    for k in range(ncases):
        entries, elabels = acr_list(rng)
        pats = [x for x in (acr_pascal(e) for e in entries) if x]
        used = set(ACR_RESERVED)

        def type_name(twice_ok=True):
            for _ in range(50):
                pieces, label = acr_pieces(rng, pats)
                name = "".join(pieces)
                if name not in used and (twice_ok or max(name.count(x) for x in pats) <= 1):
                    used.add(name)
                    return name, label
            name = "Plain%d" % len(used)
            used.add(name)
            return name, "none"

        def field_name():
            pieces, label = acr_pieces(rng, pats)
            return "_".join(x[0].lower() + x[1:] for x in pieces), label

        def type_expr():
            """a type expression over two user types whose names hold the spelling 0-2 times each (and the definitions of those types)"""
            (a, la), (b, lb) = type_name(rng.random() < 0.3), type_name(rng.random() < 0.3)
            ta, tb = t_path(a), t_path(b)
            shapes = [("plain", lambda: ta), ("vec", lambda: t_path("Vec", [ta])), ("option", lambda: t_path("Option", [ta])),
                      ("map", lambda: t_path("HashMap", [ta, tb])), ("map", lambda: t_path("HashMap", [ta, tb])),
                      ("map-same", lambda: t_path("HashMap", [ta, ta])), ("map-of-vec", lambda: t_path("HashMap", [st, t_path("Vec", [tb])])),
                      ("generic", lambda: t_path("Wrapper", [ta])), ("generic-2", lambda: t_path("Pair", [ta, tb])),
                      ("nested", lambda: t_path("Option", [t_path("HashMap", [ta, t_path("Vec", [t_path("Pair", [tb, ta])])])])),
                      ("array", lambda: ("array", tb, 3))]
            shape, mk = rng.choice(shapes)
            defs = [{"kind": "struct", "attrs": list(ts), "ident": n, "generics": [], "fields": ("named", [field([], "v", u8)])} for n in (a, b)]
            return mk(), defs, "%s of %s / %s" % (shape, la, lb)

        pos = ACR_POSITIONS[k % len(ACR_POSITIONS)]
        every = pos == "everywhere"
        items, labels = [], []
        generic_defs = [{"kind": "struct", "attrs": list(ts), "ident": "Wrapper", "generics": [("ty", "T")], "fields": ("named", [field([], "inner", t_path("T"))])},
                        {"kind": "struct", "attrs": list(ts), "ident": "Pair", "generics": [("ty", "L"), ("ty", "R")],
                         "fields": ("named", [field([], "l", t_path("L")), field([], "r", t_path("R"))])}]

        def pick(here, maker, plain):
            if every or pos == here:
                v, label = maker()
                labels.append("%s: %s" % (here, label))
                return v
            return plain

        def pick_type(here):
            if every or pos == here:
                ty, defs, label = type_expr()
                items.extend(defs)
                labels.append("%s: %s" % (here, label))
                return ty
            return st

        # a struct
        sname = pick("struct-name", type_name, "Holder")
        fields_ = [field([], pick("field-name", field_name, "count"), pick_type("field-type")), field([], "other", u8)]
        if every:
            for _ in range(3):
                fields_.append(field([], pick("field-name", field_name, "x%d" % len(fields_)), pick_type("field-type")))
            fields_ = list({f["ident"]: f for f in fields_}.values())
        items.append({"kind": "struct", "attrs": list(ts), "ident": sname, "generics": [], "fields": ("named", fields_)})
        # an alias
        if every or pos in ("alias-name", "alias-type"):
            items.append({"kind": "alias", "attrs": list(ts), "ident": pick("alias-name", type_name, "Other"), "generics": [], "ty": pick_type("alias-type")})
        # a unit enum
        if every or pos in ("enum-name", "unit-variant"):
            vs = [pick("unit-variant", type_name, "First"), pick("unit-variant", type_name, "Second")]
            items.append({"kind": "enum", "attrs": list(ts), "ident": pick("enum-name", type_name, "Plain"), "generics": [],
                          "variants": [{"attrs": [], "ident": v, "fields": ("unit",)} for v in dict.fromkeys(vs)]})
        # an algebraic enum
        if every or pos in ("enum-name", "tuple-variant", "struct-variant", "tag-key", "variant-field-name", "payload-type", "variant-field-type"):
            tag = pick("tag-key", field_name, "type")
            content = "content" if tag != "content" else "c"
            vs = [{"attrs": [], "ident": pick("tuple-variant", type_name, "One"), "fields": ("unnamed", [field([], None, pick_type("payload-type"))])},
                  {"attrs": [], "ident": pick("struct-variant", type_name, "Detailed"),
                   "fields": ("named", [field([], pick("variant-field-name", field_name, "value"), pick_type("variant-field-type"))])},
                  {"attrs": [], "ident": "Empty", "fields": ("unit",)}]
            items.append({"kind": "enum", "attrs": list(ts) + [m_list("serde", [m_nv("tag", lit_s(tag)), m_nv("content", lit_s(content))])],
                          "ident": pick("enum-name", type_name, "Choice"), "generics": [], "variants": vs})
        if any(it["ident"] == "Wrapper" or "Wrapper" in render_item(it) or "Pair<" in render_item(it) for it in items):
            items = generic_defs + items
        rng.shuffle(items)
        f = {"attrs": [], "items": items}
        cfg = {"package": "proto", "type_mappings": {}, "uppercase_acronyms": entries, "no_pointer_slice": rng.random() < 0.3}
        m, r, texts = l2.requests("go", cfg, [{"crate": "", "file_name": "out", "path": "src/lib.rs", "file": f}], g)
        # how often a looked-for spelling occurs in one string the pass is applied to (judged on the names / type names in the text)
        words = set(re.findall(r"[A-Za-z_][A-Za-z0-9_]*", texts[0]))
        words |= {acr_pascal(w) for w in words}
        most = max(w.count(x) for w in words | set(texts[0].split("\n")) for x in pats)
        cases.append(dict(m=m, r=r, text=texts[0], cfg=cfg, pos=pos, labels=labels, elabels=elabels, most=most,
                          label="uppercase_acronyms = %s (looked for: %s); %s" % (json.dumps(entries), ", ".join(pats), "; ".join(labels))))
        check.count("go-acronyms-programs")
        check.count("go-acronyms-position-" + pos)
        check.count("go-acronyms-list-of-%d" % len(entries))
        for l_ in elabels:
            check.count("go-acronyms-" + l_)
        check.count("go-acronyms-most-occurrences-in-one-name-%s" % (most if most < 3 else "3-or-more"))
        for l_ in labels:
            check.count("go-acronyms-name-" + l_.split(": ", 1)[1].split(" of ")[0])

    def toml(cfg):
        return "[go]\npackage = \"proto\"\nuppercase_acronyms = %s\n%s" % (json.dumps(cfg["uppercase_acronyms"]),
                                                                            "no_pointer_slice = true\n" if cfg["no_pointer_slice"] else "")

    def replay_of(c):
        return {"lang": "go", "config": c["cfg"], "what": c["label"], "files": {"proj/typeshare.toml": toml(c["cfg"]), "proj/src/lib.rs": c["text"]},
                "replay": "write the files, then: timeout 30 typeshare --lang go -c proj/typeshare.toml -o out.go proj/src"}

    def through_binary(c, timeout=30):
        with Scratch() as sc:
            sc.write("proj/src/lib.rs", c["text"])
            sc.write("proj/typeshare.toml", toml(c["cfg"]))
            r = run_cli(["--lang", "go", "-c", sc.path("proj/typeshare.toml"), "-o", sc.path("out.go"), sc.path("proj/src")], cwd=sc.dir, timeout=timeout)
            written = os.path.exists(sc.path("out.go")) and os.path.getsize(sc.path("out.go")) > 0
        problem = None
        if r["timed_out"]:
            problem = "did not terminate within %d s (no output, no diagnostic)" % timeout
        elif "panicked at" in r["err"]:
            lines = r["err"].splitlines()
            at = [i for i, l in enumerate(lines) if "panicked at" in l][0]
            problem = "exit status %s, panicked: %s" % (r["rc"], " ".join(l.strip() for l in lines[at:at + 2]))
        elif r["rc"] not in (0, 1):
            problem = "exit status %s" % r["rc"]
        elif r["rc"] == 1 and not r["err"].strip():
            problem = "exit status 1 without any diagnostic"
        elif r["rc"] == 0 and not written:
            problem = "exit status 0 but no output was written"
        return problem, {"rc": r["rc"], "stderr": r["err"][-1500:], "output_written": written}

    # ---- the binary with a typeshare.toml, over every number of occurrences (first: a run that does not end is seen here at the
    # price of one time-out, with the exact input)
    by_most = {}
    for i in range(len(cases)):
        by_most.setdefault(min(cases[i]["most"], 3), []).append(i)
    for v in by_most.values():
        rng.shuffle(v)
    chosen = []
    while len(chosen) < ncli and any(by_most.values()):
        for mo in (2, 3, 1, 0):
            if by_most.get(mo) and len(chosen) < ncli:
                chosen.append(by_most[mo].pop())
    for i in chosen:
        c = cases[i]
        problem, seen = through_binary(c)
        check.saw(("go-acronyms-cli", c["text"], json.dumps(c["cfg"], sort_keys=True)), nontrivial=c["most"] >= 1)
        check.count("go-acronyms-cli-rc=%s" % seen["rc"])
        check.count("go-acronyms-cli-most-occurrences-%s" % (c["most"] if c["most"] < 3 else "3-or-more"))
        if problem:
            check.violation("typeshare --lang go -c typeshare.toml with %s: %s" % (c["label"], problem), case=replay_of(c), impl=seen, failing_input=True)
            return
    # ---- in-process, in small batches: the first batch with a request that is not answered ends the part.  The runner's answers
    # are lost when it has to be killed, so which request of the batch it was is found by running the batch's programs through the binary
    rans = []
    for i in range(0, len(cases), 60):
        batch = cases[i:i + 60]
        part = runner([c["r"] for c in batch])
        rans += part
        bad = [j for j, a in enumerate(part) if "panic" in a and not known_site(a, batch[j]["cfg"])]
        if not bad:
            continue
        a = part[bad[0]]
        check.count("go-acronyms-in-process-panic")
        how = "no answer (endless loop)" if a.get("hang") else "process killed" if a.get("crash") else "panic at " + str(a["panic"])
        if a.get("hang") or a.get("crash"):
            for c in batch:
                problem, seen = through_binary(c)
                if problem:
                    check.violation("typeshare --lang go -c typeshare.toml with %s: %s (found in-process first: a batch of %d programs with this one: %s)"
                                    % (c["label"], problem, len(batch), how), case=replay_of(c),
                                    impl={"binary": seen, "in_process": {k_: str(v)[:600] for k_, v in a.items()}}, failing_input=True)
                    return
            c = batch[bad[0]]
            check.violation("go, in-process, a batch of %d programs (the first: %s): %s; each of them ends through the binary" % (len(batch), c["label"], how),
                            case=dict(replay_of(c), batch=[x["r"] for x in batch]), impl={k_: str(v)[:1500] for k_, v in a.items()}, failing_input=True)
            return
        c = batch[bad[0]]
        problem, seen = through_binary(c)
        check.violation("go, in-process, %s: %s; the binary on the same files: %s" % (c["label"], how, problem or "exit status %s" % seen["rc"]),
                        case=replay_of(c), impl={"in_process": {k_: str(v)[:1500] for k_, v in a.items()}, "binary": seen}, failing_input=True)
        return
    for c, a in zip(cases, rans):
        check.saw(("go-acronyms", c["text"], json.dumps(c["cfg"], sort_keys=True)), nontrivial=c["most"] >= 1)
        check.count("go-acronyms-in-process-%s" % ("ok" if "ok" in a else "panic" if "panic" in a else "error"))
        if "panic" in a:
            check.known(known_site(a, c["cfg"]), {"lang": "go", "config": c["cfg"], "source": c["text"], "panic": a["panic"]})
    # ---- the same text as the model writes
    mans = [l2.norm(a) for a in model([c["m"] for c in cases])]
    for c, ma, ra in zip(cases, mans, (l2.norm(a) for a in rans)):
        if ma == ra:
            check.count("go-acronyms-model-agrees")
            continue
        check.count("go-acronyms-model-differs")
        check.violation("go generation differs from the model with %s: %s" % (c["label"], corpus_describe(ma, ra)),
                        case=replay_of(c), impl=ra, model=ma, failing_input=False,
                        broken="correspondence L2 Go acronym pass (Go.convertAcronyms; theorems TsV.C07_Backends.*)")
        return


def corpus_describe(m, r):
    import corpus
    return corpus.describe(m, r)


def run(check):
    _run_small(check)
    if not check.has_failing():
        renamed_many_part(check)
    if not check.has_failing():
        odd_types_part(check)
    if not check.has_failing():
        big_tree_part(check)
    if not check.has_failing():
        entry_points_part(check)
    if not check.has_failing():
        error_among_many_part(check)
    if not check.has_failing():
        odd_paths_part(check)
    if not check.has_failing():
        array_expansion_part(check)
    if not check.has_failing():
        import c03
        c03.quantity_part(check, judge="crash")
    if not check.has_failing():
        multi_crate_part(check)
    if not check.has_failing():
        odd_attrs_part(check)
    if not check.has_failing():
        const_forms_part(check)
    if not check.has_failing():
        go_acronyms_part(check)
    check.rule += ("; 14 spellings of the input roots (relative, single file, several / overlapping / missing / empty roots) x "
                   "{-o, -d} from inside the crate directory; trees of 130-257 (thorough 513) annotated files in 7 crates - more results than the walker's bounded channel "
                   "holds - clean and with one unsupported item in the middle, single- and multi-file mode, 1/2/8/default walker "
                   "threads: termination within 60 s, exit status, the offending file named, no definition missing"
                   "; programs of 20-80 annotated items of every kind in shuffled / sorted / nearly sorted declaration order, 0-8 of them "
                   "with a container-level serde(rename) to a name that sorts before / between / after the Rust names, differs in case, "
                   "equals another item's Rust name or swaps two names, over 1-3 files of 1-2 crates: in-process (six back ends, single-file "
                   "and folder mode), the binary (-o, -d) and the model"
                   "; Go with uppercase_acronyms lists of 1-4 ASCII entries (upper / lower / mixed case, prefixes of one another) against field, type, "
                   "variant and tag names and whole type expressions holding a looked-for spelling 0-3 times (adjacent, separated, overlapping, "
                   "at both ends): in-process, the binary with a typeshare.toml, and the model")
