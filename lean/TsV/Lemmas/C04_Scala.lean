import TsV.Model.Lang.Scala
import TsV.Lemmas.C04_Common
/-!
# C04 for the Scala back end (`write_element`, scala.rs:376-400)
-/
namespace TsV.C04.Sc
open TsV TsV.Lang TsV.Lang.Scala TsV.C04

/-! ## binding semantics (trusted specification)

Scala's idiom for an optional case-class parameter is `name: Option[T] = None`. -/

def isOptional (p : ScParam) : Bool :=
  p.default == s%" = None" && (s%"Option[").isPrefixOf p.ty && endsWith p.ty s%"]"

/-- the type without the marker: what is inside `Option[…]` -/
def stripOptional (p : ScParam) : Str :=
  if isOptional p then (p.ty.drop 7).dropLast else p.ty

theorem formatType_option (cfg : Cfg) (gens : List Str) (r : RustType) :
    formatType cfg gens (.option r) =
      (formatType cfg gens r).bind fun s => .ok (s%"Option[" ++ s ++ s%"]") := by
  rw [formatType]

theorem formatType_option_ok {cfg : Cfg} {gens : List Str} {r : RustType} {t : Str}
    (h : formatType cfg gens (.option r) = .ok t) :
    ∃ s, formatType cfg gens r = .ok s ∧ t = s%"Option[" ++ s ++ s%"]" := by
  rw [formatType_option] at h
  obtain ⟨s, hs, h⟩ := bind_ok h
  exact ⟨s, hs, by simpa using h.symm⟩

/-- the default suffix `write_element` prints (scala.rs:393-398) -/
def defaultSuffix (f : RustField) : Str :=
  if f.hasDefault && !f.ty.isOptional then s%" = _" else if f.ty.isOptional then s%" = None" else []

theorem paramFacts_ok {cfg : Cfg} {gens : List Str} {f : RustField} {p : ScParam}
    (h : paramFacts cfg gens f = .ok p) :
    p.default = defaultSuffix f ∧
    (match typeOverride f .scala with
     | some t => p.ty = t
     | none => formatType cfg gens f.ty = .ok p.ty) := by
  unfold paramFacts at h
  obtain ⟨ty, hty, h⟩ := bind_ok h
  simp only [Outcome.ok.injEq] at h
  subst h
  refine ⟨rfl, ?_⟩
  cases ho : typeOverride f .scala with
  | some t => rw [ho] at hty; simp at hty; simp [hty]
  | none => rw [ho] at hty; simpa using hty

/-- **Scala, one field** (no `scala(type = …)` override): the parameter is `Option[T] = None`
exactly when the Rust type is `Option<_>` — `serde(default)` does NOT make it optional (it prints
`T = _`) — and without the marker the type is the translation of the `Option`-stripped type -/
theorem field {cfg : Cfg} {gens : List Str} {f : RustField} {p : ScParam}
    (hov : typeOverride f .scala = none) (h : paramFacts cfg gens f = .ok p) :
    isOptional p = f.ty.isOptional ∧ formatType cfg gens (stripOption f.ty) = .ok (stripOptional p) := by
  obtain ⟨hd, ht⟩ := paramFacts_ok h
  rw [hov] at ht
  simp only at ht
  by_cases ho : f.ty.isOptional = true
  · obtain ⟨r, hr⟩ := (isOptional_iff _).1 ho
    rw [hr] at ht
    obtain ⟨s, hs, hts⟩ := formatType_option_ok ht
    have hdf : defaultSuffix f = s%" = None" := by simp [defaultSuffix, ho]
    rw [hdf] at hd
    have h3 : endsWith p.ty s%"]" = true := by rw [hts]; exact endsWith_append _ _
    have h2 : (s%"Option[").isPrefixOf p.ty = true := by
      rw [hts, List.append_assoc]; exact isPrefixOf_append _ _
    have hopt : isOptional p = true := by simp [isOptional, hd, h2, h3]
    refine ⟨by rw [hopt, ho], ?_⟩
    simp [stripOptional, hopt, hts, hr, stripOption, hs]
  · have ho' : f.ty.isOptional = false := by simpa using ho
    rw [stripOption_of_not_optional _ ho']
    have hne : isOptional p = false := by
      cases hdef : f.hasDefault <;> simp [isOptional, hd, defaultSuffix, ho', hdef]
    refine ⟨by rw [hne, ho'], ?_⟩
    simp only [stripOptional, hne]
    exact ht

/-- the known class: a non-`Option` field with `serde(default)` is printed `name: T = _` -/
theorem field_default_non_option {cfg : Cfg} {gens : List Str} {f : RustField} {p : ScParam}
    (hd : f.hasDefault = true) (ho : f.ty.isOptional = false) (h : paramFacts cfg gens f = .ok p) :
    p.default = s%" = _" ∧ isOptional p = false ∧ opt f = true := by
  obtain ⟨hdf, _⟩ := paramFacts_ok h
  have : defaultSuffix f = s%" = _" := by simp [defaultSuffix, hd, ho]
  rw [this] at hdf
  exact ⟨hdf, by simp [isOptional, hdf], by simp [opt, hd]⟩

/-- with a `scala(type = "t")` override the text replaces the translated type including the
`Option[…]` wrapper -/
theorem field_override {cfg : Cfg} {gens : List Str} {f : RustField} {p : ScParam} {t : Str}
    (hov : typeOverride f .scala = some t) (h : paramFacts cfg gens f = .ok p) :
    p.ty = t ∧ p.default = defaultSuffix f := by
  obtain ⟨hd, ht⟩ := paramFacts_ok h
  rw [hov] at ht
  exact ⟨ht, hd⟩

/-! ## every field of a struct, of a struct variant; payloads; aliases -/

def FieldGen (cfg : Cfg) (gens : List Str) (f : RustField) (p : ScParam) : Prop :=
  paramFacts cfg gens f = .ok p

/-- **every field of every struct** has its parameter, in order -/
theorem struct_fields {cfg : Cfg} {rs : RustStruct} {c : ScClass} (h : classFacts cfg rs = .ok c) :
    Pointwise (FieldGen cfg rs.genericTypes) rs.fields c.params := by
  unfold classFacts at h
  obtain ⟨ps, hps, h⟩ := bind_ok h
  simp only [Outcome.ok.injEq] at h
  subst h
  exact mapM'_pointwise _ _ _ hps

/-- **every field of every struct variant**: one inner class per struct variant, in order -/
theorem variant_fields {cfg : Cfg} {e : RustEnum} {se : ScEnum} (h : enumFacts cfg e = .ok se) :
    Pointwise (fun (v : Id × List RustField) c => ∃ gens, Pointwise (FieldGen cfg gens) v.2 c.params)
      (structVariants e) se.inner := by
  unfold enumFacts at h
  obtain ⟨inner, hin, h⟩ := bind_ok h
  obtain ⟨cases, _, h⟩ := bind_ok h
  simp only [Outcome.ok.injEq] at h
  subst h
  unfold innerClasses at hin
  refine Pointwise.imp ?_ (mapM'_pointwise _ _ _ hin)
  rintro ⟨id, fields⟩ c hc
  exact ⟨_, struct_fields hc⟩

/-- **newtype-variant payload**: printed as the translation of the payload type (so `Option<T>`
gives `Option[T]`, by `formatType_option`) -/
theorem payload {cfg : Cfg} {e : RustEnum} {tag ck : Str} {id : Id} {cs : List Str} {ty : RustType} {c : ScCase}
    (hk : e.keys = some (tag, ck)) (h : caseFacts cfg e (.tuple id cs ty) = .ok c) :
    ∃ t, c.content = some (e.genericTypes, ck, t) ∧ formatType cfg e.genericTypes ty = .ok t := by
  unfold caseFacts at h
  rw [hk] at h
  simp only at h
  obtain ⟨t, ht, h⟩ := bind_ok h
  simp only [Outcome.ok.injEq] at h
  subst h
  exact ⟨t, rfl, ht⟩

/-- **alias**: `type X = <translation of the type>` -/
theorem alias {cfg : Cfg} {a : RustTypeAlias} {sa : ScAlias} (h : aliasFacts cfg a = .ok sa) :
    formatType cfg a.genericTypes a.ty = .ok sa.ty := by
  unfold aliasFacts at h
  obtain ⟨ty, hty, h⟩ := bind_ok h
  simp only [Outcome.ok.injEq] at h
  subst h
  exact hty

end TsV.C04.Sc
