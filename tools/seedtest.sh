#!/bin/sh
# usage: tools/seedtest.sh <patch.diff> <check id>...   -- run checks against a scratch worktree of /repo with the patch applied
set -e
PATCH="$1"; shift
WT=${SEEDWT:-/tmp/seedwt}
if [ ! -d "$WT" ]; then git -C /repo worktree add -q "$WT" HEAD; fi
git -C "$WT" checkout -q --detach "$(git -C /repo rev-parse HEAD)"
git -C "$WT" checkout -q -- .
git -C "$WT" apply "$PATCH"
cd /verif
for id in "$@"; do
  echo "=== $id against $(basename "$(dirname "$PATCH")")"
  VERIF_REPO="$WT" ./check "$id" 2>&1 | grep -E "VIOLATION|KNOWN-FINDING|quick:|thorough:|INFRA" | cut -c1-260 || true
done
git -C "$WT" checkout -q -- .
