"""C06 — output is a deterministic function of the inputs, not of scheduling or hashing."""
import hashlib, itertools
from common import *
from syn_gen import *
from gen import Gen, TYPE_WORDS
import l2

NEEDS = ("runner", "cli")
MODELLED = ["typescript", "kotlin", "scala", "python", "swift", "go"]


def const_item(rng, name):
    return {"kind": "const", "attrs": [m_path("typeshare")], "ident": name, "ty": t_path(rng.choice(["u32", "u8", "i32"])),
            "expr_text": str(rng.randint(0, 999)), "init": None}


def make_tree(rng, nfiles, multi, with_consts, only=None):
    """files: list of dict(rel path, crate, abstract file); type names disjoint across files.
    `only`: restrict every file to one item kind ("const", "struct", "enum", "alias") - crates that hold a single
    kind of item take different paths through reconcile / generate"""
    if only == "const":
        crates = ["alpha", "beta-x"] if multi else [""]
        names = ["C_%s" % w.upper() for w in rng.sample(TYPE_WORDS, 2 * nfiles)]
        rng.shuffle(names)
        files = []
        for i in range(nfiles):
            items = []
            for nm in names[2 * i:2 * i + 2]:
                c = const_item(rng, nm)
                v = rng.randint(0, 999)
                c["expr_text"], c["init"] = str(v), ("i", v, "")
                items.append(c)
            crate = rng.choice(crates)
            rel = ("%s/src/f%d.rs" % (crate, i)) if multi else ("src/f%d.rs" % i)
            files.append(dict(rel=rel, crate=crate.replace("-", "_"), file={"attrs": [], "items": items}))
        return files, Gen(rng)
    pool = TYPE_WORDS + [w + "Two" for w in TYPE_WORDS]
    words = rng.sample(pool, 3 * nfiles)
    crates = ["alpha", "beta-x"] if multi else [""]
    files = []
    g = Gen(rng, p_serialized_as=0.0, p_decorators=0.05, p_cfg=0.0, p_const=0.35 if with_consts else 0.0, p_mod=0.1, p_noise=0.1)
    for i in range(nfiles):
        mine = words[3 * i:3 * i + 3]
        others = [w for w in words if w not in mine]
        f = g.file(names=rng.sample(mine, rng.randint(1, len(mine))), extern_types=rng.sample(others, min(2, len(others))))
        crate = rng.choice(crates)
        sub = rng.choice(["", "sub/", "a/b/"])
        rel = ("%s/src/%sf%d.rs" % (crate, sub, i)) if multi else ("src/%sf%d.rs" % (sub, i))
        files.append(dict(rel=rel, crate=crate.replace("-", "_"), file=f))
    return files, g


def consts_spread(files):
    n = 0
    for f in files:
        if any(it["kind"] == "const" for it in flat_items(f["file"]["items"])):
            n += 1
    return n > 1


def flat_items(items):
    for it in items:
        if it["kind"] in ("mod", "other"):
            yield from flat_items(it["items"])
        else:
            yield it


def digest(outputs):
    h = hashlib.sha256()
    for k in sorted(outputs):
        h.update(k.encode() + b"\0" + outputs[k].encode("utf-8", "replace") + b"\0")
    return h.hexdigest()


def run_diff(a, b):
    """first differing line of the outputs of two runs"""
    la, lb = a.split("\n"), b.split("\n")
    for i, (x, y) in enumerate(zip(la, lb)):
        if x != y:
            return "line %d: %r in one run, %r in the other" % (i + 1, x, y)
    return "%d vs %d lines" % (len(la), len(lb))


def run_once(sc, lang, multi, env, extra=()):
    out = sc.path("out")
    shutil.rmtree(out, ignore_errors=True)
    os.makedirs(out)
    tgt = ["-d", out] if multi else ["-o", os.path.join(out, "out." + EXT[lang])]
    r = run_cli(["--lang", lang] + tgt + lang_args(lang) + list(extra) + [sc.path("ws")], cwd=sc.dir, env=env)
    files = {}
    for f in sorted(os.listdir(out)):
        files[f] = open(os.path.join(out, f), encoding="utf-8", errors="replace").read()
    return r, files


def run(check):
    rng = check.rng
    ntrees = 96 if check.thorough else 24
    max_exh = 5 if check.thorough else 4
    check.rule = ("source trees of 2-12 files (structs, enums, aliases, consts; types referencing each other across files), "
                  "single-file and multi-file mode, six languages; the real binary under every arrival order of the per-file "
                  "results for <= %d files (collector hook TYPESHARE_VERIF_ORDER), sampled orders beyond, walker thread counts "
                  "1-16 (TYPESHARE_VERIF_THREADS) and repeated processes (fresh hash seeds); all outputs must be byte-identical "
                  "and equal to the text the Lean pipeline model generates from the same files in canonical order; "
                  "non-trivial = the tree has >= 2 files contributing items.  Plus: workspaces in which one type name is reachable from two "
                  "or three crates (0-3 of them serde-renamed; `use` from different files of one crate, `use` next to a qualified / self:: / "
                  "crate:: path, two `use` items, a re-exporting crate that is not part of the run; crate names whose byte order differs from "
                  "the order written) in >= 10 fresh processes and under permuted arrival orders: byte-identical and byte-exact against the "
                  "model; workspaces run under a typeshare.toml whose [<language>.type_mappings] tables have 2-8 keys each, some of them names "
                  "of types one crate defines and another imports (use, grouped use, nested use, glob, qualified paths), the rest foreign names, in "
                  "folder and single-file mode, six languages, >= 12 fresh processes plus thread counts, arrival orders and the same tables "
                  "written in another key order: byte-identical and byte-exact against the model; import mixes, overlapping source "
                  "directories, generic parameter names; the same items in 2-4 small source files and in a file of exactly N bytes, N just below / at / just above 2^16, 2^20, 2^22 (thorough: 2^24), filled up with comments, blank lines, un-annotated items, doc comments, a string literal (single-file mode): same exit status and bytes; the stored witness of the open finding "
                  "duplicate-type-names-arrival-order; single-file destinations that already hold a longer / equally long / shorter / earlier "
                  "output; folder-mode runs (six languages, Swift with a unit type so that Codable.swift is written, 2-3 settings of the "
                  "language's typeshare.toml section per workspace) into folders that already hold the same run's output, another setting's "
                  "output (every ordered pair), two earlier runs' output, empty / longer / cut / altered files of the same names, a mix of "
                  "those, files of other names, an earlier version's output: every file the run into an empty folder writes has the "
                  "same bytes afterwards, and the empty-folder output equals the models' text under every setting" % max_exh)
    for t in range(ntrees):
        lang = LANGS[t % 6]
        multi = (t // 6) % 2 == 1
        nfiles = rng.randint(2, max_exh) if t % 3 else rng.randint(6, 12)
        only = "const" if t % 4 == 3 else None
        if only == "const" and lang in ("kotlin", "swift", "scala"):
            lang = ["typescript", "go", "python"][t % 3]        # the back ends that emit consts
        files, g = make_tree(rng, nfiles, multi, with_consts=(t % 2 == 0), only=only)
        spread = consts_spread(files)
        with Scratch() as sc:
            for f in files:
                sc.write("ws/" + f["rel"], render_file(f["file"]))
            n = len(files)
            if t % 4 == 1:
                # one more file, next to a random one, holds an item no back end can write: the run must fail with the same
                # diagnostic and leave the same (no) output whichever result reaches the collector first or last
                sc.write("ws/" + os.path.dirname(files[rng.randrange(n)]["rel"]) + "/%s_rejected.rs" % rng.choice(["aaa", "mmm", "zzz"]),
                         "#[typeshare]\npub struct RejectedPair(pub String, pub u32);\n\n#[typeshare]\npub struct KeptNextToIt { pub a: u8 }\n")
                n += 1
                check.count("tree-with-rejected-item")
            if n <= max_exh:
                orders = [",".join(map(str, p)) for p in itertools.permutations(range(n))]
            else:
                orders = ["seed:%d" % rng.randint(0, 10**6) for _ in range(24 if check.thorough else 10)] + ["rev"]
            envs = [{"TYPESHARE_VERIF_ORDER": o} for o in orders]
            envs += [{"TYPESHARE_VERIF_THREADS": str(k)} for k in (1, 2, 3, 8, 16)] + [{} for _ in range(3)]
            seen = {}
            first = None
            rc0 = None
            for env in envs:
                r, outs = run_once(sc, lang, multi, env)
                d = digest(outs) + "|%s|%s" % (r["rc"], "_rejected.rs" in r["err"])
                check.saw((t, json.dumps(env, sort_keys=True)), nontrivial=n >= 2)
                check.count("%s-%s" % (lang, "multi" if multi else "single"))
                if first is None:
                    first, rc0 = (env, outs), r
                seen.setdefault(d, (env, outs))
            if len(seen) > 1:
                (e1, o1), (e2, o2) = list(seen.values())[:2]
                if spread and check.known("consts-arrival-order", {"files": [f["rel"] for f in files], "env_a": e1, "env_b": e2}):
                    continue
                check.violation("%s output differs between two runs over the same %d files (%s vs %s)" % (lang, n, e1, e2),
                                case={"lang": lang, "multi_file": multi, "files": {f["rel"]: render_file(f["file"]) for f in files},
                                      "env_a": e1, "env_b": e2},
                                impl={"a": o1, "b": o2}, failing_input=True)
                return
            # the tie: the model's pipeline on the same files
            if lang in MODELLED and rc0["rc"] == 0:
                cfg = {"package": "com.example", "version_header": True, "type_mappings": {}}
                if lang == "go":
                    cfg["package"] = "proto"
                jobs = [{"crate": f["crate"], "file_name": "x", "path": sc.path("ws/" + f["rel"]), "file": f["file"]} for f in files]
                names = set().union(*[l2.names_of(f["file"]) for f in files])
                mreq, _, _ = l2.requests(lang, cfg, jobs, g, multi_file=multi)
                ma = model([mreq], names=names if lang == "python" else None)[0]
                if "ok" in ma:
                    impl_texts = sorted(first[1].values())
                    model_texts = sorted(v for k, v in ma["ok"].items())
                    if impl_texts != model_texts:
                        if l2.norm(ma) == {"err": "format"}:
                            continue
                        check.violation("the binary's %s output differs from the pipeline model's" % lang,
                                        case={"lang": lang, "multi_file": multi, "files": {f["rel"]: render_file(f["file"]) for f in files}},
                                        impl=first[1], model=ma["ok"], failing_input=False,
                                        broken="correspondence L3 collect/reconcile/generate (theorems TsV.C06.*)")
                        return
            if len(check.samples) < 3:
                check.sample({"lang": lang, "multi_file": multi, "files": [f["rel"] for f in files], "orders_tried": len(envs),
                              "distinct_outputs": len(seen)})
    if not check.has_failing():
        import_mix_part(check)
    if not check.has_failing():
        ambiguous_part(check)
    if not check.has_failing():
        remapped_imports_part(check)
    if not check.has_failing():
        duplicate_names_part(check)
    if not check.has_failing():
        repeated_name_split_part(check)
    if not check.has_failing():
        overlap_part(check)
    if not check.has_failing():
        generic_names_part(check)
    if not check.has_failing():
        layout_part(check)
    if not check.has_failing():
        file_size_split_part(check)
    if not check.has_failing():
        # "a function of sources, configuration and options only": also not of what an earlier run left at the destination
        v_now = "#[typeshare]\npub struct Settings { pub a: u8 }\n\n#[typeshare]\npub enum Mode { Fast, Slow }\n"
        v_before = v_now + "\n#[typeshare]\npub struct LegacySettings { pub old_field_one: String, pub old_field_two: Vec<u32>, pub old_field_three: Option<bool> }\n"
        for lang in LANGS:
            prob = dirty_destination(check, "c06", lang, {"src/lib.rs": v_now}, earlier_sources={"src/lib.rs": v_before})
            if prob:
                check.violation("%s: the output depends on what the destination held before the run (%s): it is not what the same sources and "
                                "options give in a fresh destination" % (lang, prob["state"]), case=prob, impl=prob["file_after_run"],
                                model=prob["fresh_run"], failing_input=True)
                break
    if not check.has_failing():
        dirty_folder_part(check)
    check.assumptions += ["a schedule is abstracted to an arrival order of per-file results plus hash iteration orders; real races inside ignore/crossbeam are realised only through the collector hook and repeated runs",
                          "the walker delivers every visible *.rs file exactly once (ignore crate, external)"]


def import_mix_part(check):
    """multi-file mode with imports: a consumer crate refers to several types of one provider crate through a mix of
    `use provider::T`, grouped use, glob, and a re-exporting facade crate (resolved by the fallback).  import_types is a
    HashSet and all_types a HashMap: every process has fresh hash seeds, so repeated runs realise different iteration
    orders; all outputs must be byte-identical (TypeScript and Kotlin print the import clause)."""
    rng = check.rng
    nws = 12 if check.thorough else 4
    reps = 16 if check.thorough else 10
    pool = TYPE_WORDS + [w + "Two" for w in TYPE_WORDS]
    for w in range(nws):
        lang = ["typescript", "kotlin"][w % 2]
        words = rng.sample(pool, 7)
        prov, fac, app = words[:4], words[4:5], words[5:7]
        g = Gen(rng, p_serialized_as=0.0, p_decorators=0.0, p_cfg=0.0, p_const=0.0, p_mod=0.0, p_noise=0.0, p_rename=0.0, p_generic=0.0)
        used = rng.sample(prov, rng.randint(2, 4))
        fprov = g.file(names=prov)
        ffac = g.file(names=fac)
        # the consumer refers to every used type from a field, so that every import survives reconcile_referenced_types
        wrap = lambda t, k: [t_path(t), t_path("Vec", [t_path(t)]), t_path("Option", [t_path(t)])][k % 3]
        fapp = {"attrs": [], "items": [{"kind": "struct", "attrs": [m_path("typeshare")], "ident": app[0], "generics": [],
                                        "fields": ("named", [field([], "f%d" % k, wrap(t, k)) for k, t in enumerate(used)])}]}
        styles = {}
        for t in used:
            st = rng.choice(["use", "use", "group", "facade", "facade", "glob"])
            styles[t] = st
            if st == "use":
                fapp["items"].insert(0, {"kind": "use", "tree": ("upath", "shapes", ("uname", t))})
            elif st == "group":
                fapp["items"].insert(0, {"kind": "use", "tree": ("upath", "shapes", ("ugroup", [("uname", t), ("upath", "sub", ("uname", "Unrelated"))]))})
            elif st == "facade":
                fapp["items"].insert(0, {"kind": "use", "tree": ("upath", "facade", ("uname", t))})
            else:
                fapp["items"].insert(0, {"kind": "use", "tree": ("upath", "shapes", ("uglob",))})
        files = [dict(rel="shapes/src/lib.rs", crate="shapes", file=fprov), dict(rel="facade/src/lib.rs", crate="facade", file=ffac),
                 dict(rel="app/src/lib.rs", crate="app", file=fapp)]
        with Scratch() as sc:
            for f in files:
                sc.write("ws/" + f["rel"], render_file(f["file"]))
            seen = {}
            for k in range(reps):
                env = {"TYPESHARE_VERIF_ORDER": "rev"} if k == reps - 1 else {}
                r, outs = run_once(sc, lang, True, env)
                check.saw(("import-mix", w, k), nontrivial=True)
                check.count("import-mix-%s" % lang)
                seen.setdefault(digest(outs) + "|%s" % r["rc"], (k, outs))
        check.count("import-mix styles " + "+".join(sorted(set(styles.values()))))
        if len(seen) > 1:
            (k1, o1), (k2, o2) = list(seen.values())[:2]
            diff = next(fn for fn in sorted(set(o1) | set(o2)) if o1.get(fn) != o2.get(fn))
            check.violation("%s multi-file output differs between two runs of the same binary over the same three crates (process %d vs %d, "
                            "file %s: %s)" % (lang, k1, k2, diff, run_diff(o1.get(diff, ""), o2.get(diff, ""))),
                            case={"lang": lang, "files": {f["rel"]: render_file(f["file"]) for f in files}, "styles": styles},
                            impl={"a": o1, "b": o2}, failing_input=True)
            return


# byte order (Rust's String: Ord) differs from "dictionary" order on these: digits < `_` < lower-case letters, a prefix first
# (an upper-case first segment is taken for a type, not a crate, by the import collector: no such provider)
AMBIG_PROVIDERS = ["ledger", "directory", "zeta", "alpha-x", "alpha_w", "mid_crate", "mid", "midway", "b2", "b-10"]
AMBIG_CONSUMERS = ["app", "aaa", "zz-app", "mid_crate2", "Zed"]
AMBIG_SHAPES = ["two-files", "use-and-qualified", "two-uses", "self-path", "crate-path", "reexport", "reexport+use", "two-files+reexport", "sibling-defines"]


def ambiguous_workspace(rng, k, shape, nprov, nren):
    """a workspace in which one type name is reachable from several crates.  `nprov` provider crates define a struct of the same
    name (`nren` of them with serde(rename)); a consumer crate refers to it
      two-files          `use p1::T;` in one file, `use p2::T;` in another file of the same crate
      use-and-qualified  `use p1::T;` and a field of type `p2::T` in one file
      two-uses           `use p1::T; use p2::T;` in one file (typeshare does not resolve names: accepted)
      self-path          `use p1::T;` next to a field of type `self::T`
      crate-path         `use p1::T;` next to a field of type `crate::m::T`
      reexport           `use facade::T;` where `facade` is not part of the run (two or three other crates define T)
      reexport+use       the same plus `use p1::T;` from another file
      two-files+reexport two-files plus a third file with `use facade::T;`
      sibling-defines    `use p1::T;` in one file, a sibling file of the same crate defines its own `T`
    crate names are drawn so that the smallest one is not always the first written / the first imported."""
    ts = [m_path("typeshare")]
    word = rng.choice(TYPE_WORDS)
    provs = rng.sample(AMBIG_PROVIDERS, nprov)
    cons = rng.choice(AMBIG_CONSUMERS)
    renamed = set(rng.sample(range(nprov), nren))
    files = []
    for i, pc in enumerate(provs):
        attrs = list(ts)
        if i in renamed:
            attrs.append(m_list("serde", [m_nv("rename", lit_s("%sOf%s" % (word, pc.replace("-", "").replace("_", "").capitalize())))]))
        item = {"kind": "struct", "attrs": attrs, "ident": word, "generics": [],
                "fields": ("named", [field([], "from_%s" % pc.replace("-", "_").lower(), t_path("u32"))])}
        extra = {"kind": "struct", "attrs": list(ts), "ident": "Only%d%s" % (i, word), "generics": [],
                 "fields": ("named", [field([], "n", t_path("u8"))])}
        files.append(dict(rel="%s/src/lib.rs" % pc, crate=pc.replace("-", "_"), file={"attrs": [], "items": [item, extra]}))
    pn = [p.replace("-", "_") for p in provs]
    order = list(range(nprov))
    rng.shuffle(order)                         # which provider is imported first
    p1, p2 = pn[order[0]], pn[order[1]]
    wrap = lambda t, j: [t, t_path("Vec", [t]), t_path("Option", [t]), t_path("HashMap", [t_path("String"), t])][j % 4]
    use = lambda c: {"kind": "use", "tree": ("upath", c, ("uname", word))}
    holder = lambda name, tys: {"kind": "struct", "attrs": list(ts), "ident": name, "generics": [],
                                "fields": ("named", [field([], "f%d" % j, wrap(t, j + k)) for j, t in enumerate(tys)])}
    T = t_path(word)
    cfiles = []
    if shape in ("two-files", "two-files+reexport"):
        cfiles.append(("billing.rs", [use(p1), holder("Billing%d" % k, [T])]))
        cfiles.append(("audit.rs", [use(p2), holder("Audit%d" % k, [T])]))
        if nprov == 3:
            cfiles.append(("third.rs", [use(pn[order[2]]), holder("Third%d" % k, [T])]))
        if shape == "two-files+reexport":
            cfiles.append(("via.rs", [use("facade_missing"), holder("Via%d" % k, [T])]))
    elif shape == "use-and-qualified":
        cfiles.append(("lib.rs", [use(p1), holder("Mixed%d" % k, [T, t_path(word, quals=[p2])])]))
    elif shape == "two-uses":
        cfiles.append(("lib.rs", [use(p1), use(p2)] + ([use(pn[order[2]])] if nprov == 3 else []) + [holder("Both%d" % k, [T])]))
    elif shape == "self-path":
        cfiles.append(("lib.rs", [use(p1), holder("SelfRef%d" % k, [T, t_path(word, quals=["self"])])]))
    elif shape == "crate-path":
        cfiles.append(("lib.rs", [use(p1), holder("CrateRef%d" % k, [t_path(word, quals=["crate", "m"]), T])]))
    elif shape == "reexport":
        cfiles.append(("lib.rs", [use("facade_missing"), holder("Via%d" % k, [T])]))
    elif shape == "reexport+use":
        cfiles.append(("lib.rs", [use("facade_missing"), holder("Via%d" % k, [T])]))
        cfiles.append(("direct.rs", [use(p1), holder("Direct%d" % k, [T])]))
    elif shape == "sibling-defines":
        # one file of the consumer imports the name from a provider, a sibling file of the same crate defines a type of that name
        own = {"kind": "struct", "attrs": list(ts), "ident": word, "generics": [], "fields": ("named", [field([], "own_field", t_path("u8"))])}
        cfiles.append(("uses.rs", [use(p1), holder("Uses%d" % k, [T])]))
        cfiles.append((rng.choice(["own.rs", "a_own.rs", "zz_own.rs"]), [own, holder("OwnUser%d" % k, [T])]))
    else:
        raise ValueError(shape)
    for fn, items in cfiles:
        files.append(dict(rel="%s/src/%s" % (cons, fn), crate=cons.replace("-", "_"), file={"attrs": [], "items": items}))
    rng.shuffle(files)
    return files, dict(type=word, providers=provs, renamed=sorted(provs[i] for i in renamed), consumer=cons, shape=shape,
                       imported_first=p1)


def ambiguous_part(check):
    """the class that was hash-seed dependent before the `fix:` commit "resolve a type name imported from several crates the same way in
    every run": one type name reachable from two or three crates.  The real binary is run in >= 10 fresh processes (fresh hash seeds:
    the iteration orders of import_types / all_types) and under permuted arrival orders of the per-file results; all outputs must be
    byte-identical, and equal byte for byte to what the Lean pipeline + back-end models generate (no `ambiguous` exemption)."""
    from c14 import file_name
    rng = check.rng
    nws = 96 if check.thorough else 24
    reps = 16 if check.thorough else 10
    for w in range(nws):
        # every shape once with each of the two languages that print the import clause, then random shapes in all six languages
        if w < 2 * len(AMBIG_SHAPES):
            shape, lang = AMBIG_SHAPES[w // 2], ["typescript", "kotlin"][w % 2]
        else:
            shape, lang = rng.choice(AMBIG_SHAPES), LANGS[w % 6]
        nprov = 2 if w % 3 else 3
        if "reexport" in shape:
            # the fallback looks the name up among the *renamed* names: at least two providers keep the Rust name
            nren = 0 if nprov == 2 else w % 2
        elif shape == "two-files" and w < 2 * len(AMBIG_SHAPES):
            nren = 2                                 # resolve_renamed has a choice only between crates that both rename the type
        elif lang not in ("typescript", "kotlin"):
            nren = rng.choice([1, 2, nprov])         # without an import clause only the serde names show which crate was taken
        else:
            nren = [2, 1, 0, 2, nprov][w % 5]
        files, meta = ambiguous_workspace(rng, w, shape, nprov, nren)
        g = Gen(rng, p_serialized_as=0.0)
        n = len(files)
        with Scratch() as sc:
            for f in files:
                sc.write("ws/" + f["rel"], render_file(f["file"]))
            if n <= 4:
                orders = [",".join(map(str, p)) for p in itertools.permutations(range(n))]
                if not check.thorough:
                    orders = rng.sample(orders, min(len(orders), 6))
            else:
                orders = ["seed:%d" % rng.randint(0, 10**6) for _ in range(12 if check.thorough else 5)] + ["rev"]
            envs = [{} for _ in range(reps)] + [{"TYPESHARE_VERIF_ORDER": o} for o in orders]
            seen, first, rc0 = {}, None, None
            for k, env in enumerate(envs):
                r, outs = run_once(sc, lang, True, env)
                check.saw(("ambiguous", w, k), nontrivial=True)
                check.count("ambiguous-%s" % lang)
                if first is None:
                    first, rc0 = outs, r
                seen.setdefault(digest(outs) + "|%s" % r["rc"], (env, outs))
            check.count("ambiguous shape %s, %d providers, %d renamed" % (shape, nprov, nren))
            srcs = {f["rel"]: render_file(f["file"]) for f in files}
            if len(seen) > 1:
                (e1, o1), (e2, o2) = list(seen.values())[:2]
                fn = next(fn for fn in sorted(set(o1) | set(o2)) if o1.get(fn) != o2.get(fn))
                check.violation("%s multi-file output differs between two runs of the same binary over the same workspace, in which the "
                                "type name %s is reachable from several crates (%s; %s vs %s; file %s: %s)" % (
                                    lang, meta["type"], shape, e1 or "fresh process", e2 or "fresh process", fn,
                                    run_diff(o1.get(fn, ""), o2.get(fn, ""))),
                                case={"lang": lang, "files": srcs, "workspace": meta, "env_a": e1, "env_b": e2},
                                impl={"a": o1, "b": o2}, failing_input=True)
                return
            if rc0["rc"] != 0:
                check.count("ambiguous: generation error")
                continue
            jobs = [{"crate": f["crate"], "file_name": file_name(lang, f["crate"]), "path": sc.path("ws/" + f["rel"]), "file": f["file"]}
                    for f in sorted(files, key=lambda f: f["rel"])]
            cfg = {"package": "proto" if lang == "go" else "com.example", "version_header": True, "type_mappings": {}}
            names = set().union(*[l2.names_of(f["file"]) for f in files])
            mreq, _, _ = l2.requests(lang, cfg, jobs, g, multi_file=True)
            ma = model([mreq], names=names if lang == "python" else None)[0]
            mtexts = dict(ma.get("ok") or {})
            itexts = {f["crate"]: first[file_name(lang, f["crate"])] for f in files if file_name(lang, f["crate"]) in first}
            if "Codable.swift" in first:
                itexts["<post>/Codable.swift"] = first["Codable.swift"]
            if "ok" not in ma or mtexts != itexts:
                key = next((c for c in sorted(set(mtexts) | set(itexts)) if mtexts.get(c) != itexts.get(c)), None)
                check.violation("the binary's %s output for a workspace with the type name %s reachable from several crates (%s) differs "
                                "from the model's%s" % (lang, meta["type"], shape,
                                                        ": module %s: %s" % (key, l2.text_diff(mtexts.get(key, ""), itexts.get(key, ""))) if key else
                                                        ": the model answers %s" % json.dumps(ma)[:200]),
                                case={"lang": lang, "files": srcs, "workspace": meta}, impl=itexts, model=ma, failing_input=False,
                                broken="correspondence L3 multi-file pipeline on ambiguous imports (theorems TsV.C06.C06_multi*)")
                return
        if len(check.samples) < 5:
            check.sample({"lang": lang, "ambiguous_workspace": meta, "runs": len(envs), "distinct_outputs": len(seen)})


# ------------------------------------------------------------------ remapped names that crates import from each other
REMAP_PROVIDERS = ["common", "core-types", "shared_kit", "zeta", "b2", "model", "aa-base"]
REMAP_CONSUMERS = ["api", "app", "aaa", "zz-svc", "billing", "mid_tier"]
# names people remap (none of them is special to a back end); they spread over the alphabet, so that the keys that are imported
# sort before / between / after the other keys of a table
REMAP_DEFINED = ["Uuid", "Decimal", "Instant", "Duration", "Money", "Email", "Timestamp", "Bytes", "Json", "Locale", "Currency", "Version",
                 "Digest", "Ulid", "BigInt", "Amount", "Zone", "AccountId", "Hash", "Quantity", "Xid", "Cursor", "Nonce", "Token"]
REMAP_FOREIGN = ["NaiveDate", "IpAddr", "Regex", "Semver", "Mime", "Oid", "Bson", "Zoned", "Asn", "Ratio", "Yaml", "Country", "Iban", "Ksuid"]
REMAP_FOREIGN_CRATES = ["chrono", "ipnet", "regex", "bson", "mime", "iso"]
REMAP_VALUES = {"typescript": ["string", "number", "Date", "bigint", "Uint8Array"],
                "kotlin": ["java.util.UUID", "java.time.Instant", "java.math.BigDecimal", "String", "java.net.URI", "Long"],
                "swift": ["UUID", "Date", "Decimal", "String", "Data", "Int64"],
                "scala": ["java.util.UUID", "java.time.Instant", "BigDecimal", "String", "Long"],
                "go": ["string", "int64", "uuid.UUID", "decimal.Decimal", "[]byte"],
                "python": ["str", "int", "UUID", "Decimal", "bytes"]}
REMAP_STYLES = ["use", "use", "group", "group", "nested", "qualified", "qualified", "qualified-deep", "glob"]


def remapped_workspace(rng, k):
    """a workspace whose crates import type names from each other.  One or two provider crates define 3-5 types each (newtypes,
    structs, unit enums); one or two consumer crates of one or two files each refer to 2-5 of them - `use p::T;`, `use p::{T, U};`,
    `use p::models::T;`, `use p::*;`, a field of type `p::T` or `p::models::T` - and to 0-2 names of crates that are not part of the run
    (`use chrono::NaiveDate;`); a consumer may define a type of its own.  Returns the files and the name classes the mapping tables are
    drawn from."""
    ts = [m_path("typeshare")]
    nprov, ncons = rng.choice([1, 1, 2]), rng.choice([1, 1, 2])
    provs, conss = rng.sample(REMAP_PROVIDERS, nprov), rng.sample(REMAP_CONSUMERS, ncons)
    names = rng.sample(REMAP_DEFINED, len(REMAP_DEFINED))
    files, defined = [], {}

    def definition(name, j):
        if j % 3 == 0:
            return {"kind": "struct", "attrs": list(ts), "ident": name, "generics": [],
                    "fields": ("unnamed", [field([], None, t_path(rng.choice(["String", "u32", "i32", "bool"])))])}
        if j % 3 == 1:
            return {"kind": "struct", "attrs": list(ts), "ident": name, "generics": [],
                    "fields": ("named", [field([], "%s_value" % name.lower(), t_path("u32")), field([], "label", t_path("String"))])}
        return {"kind": "enum", "attrs": list(ts), "ident": name, "generics": [],
                "variants": [{"attrs": [], "ident": v + name, "fields": ("unit",)} for v in ("Small", "Large")]}
    for pc in provs:
        mine = [names.pop() for _ in range(rng.randint(3, 5))]
        start = rng.randrange(3)
        for j, nm in enumerate(mine):
            defined[nm] = pc.replace("-", "_")
        files.append(dict(rel="%s/src/lib.rs" % pc, crate=pc.replace("-", "_"),
                          file={"attrs": [], "items": [definition(nm, start + j) for j, nm in enumerate(mine)]}))
    wrap = lambda t, j: [t, t_path("Vec", [t]), t_path("Option", [t]), t_path("HashMap", [t_path("String"), t])][j % 4]
    imported, styles, own, foreign_used = set(), {}, [], []
    for ci, cc in enumerate(conss):
        for fi in range(rng.choice([1, 1, 2])):
            used = rng.sample(sorted(defined), rng.randint(2, min(5, len(defined))))
            uses, tys, groups, globbed = [], [], {}, set()
            for t in used:
                st = rng.choice(REMAP_STYLES)
                p = defined[t]
                styles["%s/%d:%s" % (cc, fi, t)] = st
                if st == "use":
                    uses.append(("upath", p, ("uname", t)))
                    tys.append(t_path(t))
                elif st == "group":
                    groups.setdefault(p, []).append(t)
                    tys.append(t_path(t))
                elif st == "nested":
                    uses.append(("upath", p, ("upath", "models", ("uname", t))))
                    tys.append(t_path(t))
                elif st == "qualified":
                    tys.append(t_path(t, quals=[p]))
                elif st == "qualified-deep":
                    tys.append(t_path(t, quals=[p, "models"]))
                else:
                    if p not in globbed:
                        globbed.add(p)
                        uses.append(("upath", p, ("uglob",)))
                    tys.append(t_path(t))
                imported.add(t)
            for p, ts_ in groups.items():
                uses.append(("upath", p, ("ugroup", [("uname", t) for t in ts_] + ([("upath", "sub", ("uname", "Unshared"))] if rng.random() < 0.3 else []))))
            for _ in range(rng.choice([0, 0, 1, 2])):
                fn_ = rng.choice([n for n in REMAP_FOREIGN if n not in foreign_used] or REMAP_FOREIGN)
                if fn_ not in foreign_used:
                    foreign_used.append(fn_)
                uses.append(("upath", rng.choice(REMAP_FOREIGN_CRATES), ("uname", fn_)))
                tys.append(t_path(fn_))
            rng.shuffle(uses)
            items = [{"kind": "use", "tree": u} for u in uses]
            if rng.random() < 0.4:
                nm = names.pop()
                own.append(nm)
                items.append(definition(nm, rng.randrange(3)))
                tys.append(t_path(nm))
            items.append({"kind": "struct", "attrs": list(ts), "ident": "Holder%d%s%d" % (k, "ABCD"[ci], fi), "generics": [],
                          "fields": ("named", [field([], "f%d" % j, wrap(t, j + k)) for j, t in enumerate(tys)])})
            files.append(dict(rel="%s/src/%s" % (cc, ["lib.rs", "extra.rs"][fi]), crate=cc.replace("-", "_"), file={"attrs": [], "items": items}))
    rng.shuffle(files)
    meta = dict(providers=provs, consumers=conss, defined=defined, imported=sorted(imported), not_imported=sorted(set(defined) - imported),
                own=own, foreign_used=foreign_used, styles=styles)
    return files, meta


def remap_table(rng, lang, meta, need_imported):
    """2-8 keys: 1-3 names a crate imports from another (always for the language under test, mostly for the others), 0-1 defined but
    never imported, 0-1 defined by a consumer itself, 0-2 foreign names the sources mention, the rest foreign names nobody mentions"""
    total = rng.randint(2, 8)
    keys = []
    n_imp = rng.randint(1, 3) if (need_imported or rng.random() < 0.7) else 0
    keys += rng.sample(meta["imported"], min(n_imp, len(meta["imported"]), total))
    for cls in ("not_imported", "own"):
        if meta[cls] and len(keys) < total and rng.random() < 0.4:
            keys.append(rng.choice(meta[cls]))
    for f in rng.sample(meta["foreign_used"], min(len(meta["foreign_used"]), rng.randint(0, 2))):
        if len(keys) < total:
            keys.append(f)
    rest = [n for n in REMAP_FOREIGN if n not in meta["foreign_used"]]
    keys += rng.sample(rest, min(len(rest), total - len(keys)))
    rng.shuffle(keys)
    return {k_: rng.choice(REMAP_VALUES[lang] + ["Mapped" + k_]) for k_ in keys}


def remap_toml(tables, langs):
    """one [<lang>.type_mappings] table per language, the keys in the order of the dicts"""
    out = []
    for L in langs:
        out.append("[%s.type_mappings]" % L)
        out += ["%s = %s" % (k, json.dumps(v)) for k, v in tables[L].items()]
        out.append("")
    return "\n".join(out)


def remapped_imports_part(check):
    """the configuration as an input dimension: workspaces whose crates import type names from each other, run under a typeshare.toml
    in which every language has a [<lang>.type_mappings] table of 2-8 keys (different key sets per language) - some keys are names one
    crate defines and another imports (`use p::T`, grouped / nested `use`, glob, qualified paths `p::T`), some are defined but never
    imported or defined by the importing crate itself, the rest are foreign names.  The names remapped by the table of the language are
    dropped from the imports (`ignored_reference_types`, a list made from a hash map's keys), so how that list is ordered and searched
    must not show.  Folder mode and single-file mode, all six languages (Kotlin and TypeScript, which print import clauses, twice as
    often); the configuration is given with -c or found from the working directory.  Every case: >= 12 fresh processes (fresh hash
    seeds), walker thread counts, permuted arrival orders, and one run under the same tables written in another key and section order
    (a TOML table is an unordered map: the same configuration).  All runs must leave byte-identical files, and the files must equal
    the Lean pipeline + back-end models' text for that table."""
    from c14 import file_name
    rng = check.rng
    ncases = 72 if check.thorough else 24
    occ = {}
    reps = 16 if check.thorough else 12
    seq = ["kotlin", "typescript", "swift", "kotlin", "typescript", "scala", "kotlin", "typescript", "go", "kotlin", "typescript", "python"]
    for w in range(ncases):
        lang = seq[w % len(seq)]
        occ[lang] = occ.get(lang, 0) + 1
        # folder mode three times out of four for the two languages that print import clauses, every other time for the rest
        multi = occ[lang] % 4 != 0 if lang in ("kotlin", "typescript") else occ[lang] % 2 == 1
        files, meta = remapped_workspace(rng, w)
        tables = {L: remap_table(rng, L, meta, need_imported=(L == lang)) for L in LANGS}
        order = rng.sample(LANGS, len(LANGS))
        toml = remap_toml(tables, order)
        shuffled = {L: dict(rng.sample(sorted(tables[L].items()), len(tables[L]))) for L in LANGS}
        if list(shuffled[lang]) == list(tables[lang]):
            shuffled[lang] = dict(reversed(list(tables[lang].items())))
        toml_other_order = remap_toml(shuffled, list(reversed(order)))
        by_search = w % 2 == 1
        g = Gen(rng, p_serialized_as=0.0)
        n = len(files)
        mapped_imported = sorted(k_ for k_ in tables[lang] if k_ in meta["imported"])
        with Scratch() as sc:
            for f in files:
                sc.write("ws/" + f["rel"], render_file(f["file"]))
            sc.write("typeshare.toml" if by_search else "conf/mappings.toml", toml)
            sc.write("conf/other-order.toml", toml_other_order)
            given = [] if by_search else ["-c", sc.path("conf/mappings.toml")]
            if n <= 4:
                orders = [",".join(map(str, p)) for p in itertools.permutations(range(n))]
                if not check.thorough:
                    orders = rng.sample(orders, min(len(orders), 4))
            else:
                orders = ["seed:%d" % rng.randint(0, 10**6) for _ in range(8 if check.thorough else 3)] + ["rev"]
            threads = (1, 2, 3, 8, 16) if check.thorough else (1, 2, 8)
            runs = [({}, given) for _ in range(reps)] + [({"TYPESHARE_VERIF_THREADS": str(t)}, given) for t in threads]
            runs += [({"TYPESHARE_VERIF_ORDER": o}, given) for o in orders]
            runs += [({}, ["-c", sc.path("conf/other-order.toml")])]
            seen, first, rc0 = {}, None, None
            for k, (env, extra) in enumerate(runs):
                r, outs = run_once(sc, lang, multi, env, extra=extra)
                check.saw(("remapped-imports", w, k), nontrivial=True)
                check.count("remapped-imports-%s-%s" % (lang, "folder" if multi else "single"))
                how = "run %d: %s" % (k, "the same tables, their keys and sections written in another order" if "other-order" in "".join(extra) else
                                      " ".join("%s=%s" % kv for kv in env.items()) or "fresh process, nothing set")
                if first is None:
                    first, rc0 = outs, r
                seen.setdefault(digest(outs) + "|%s" % r["rc"], (how, outs, r))
        check.count("remapped-imports: %d keys in the table of the language" % len(tables[lang]))
        check.count("remapped-imports: %d of the keys imported from another crate" % len(mapped_imported))
        check.count("remapped-imports: config %s" % ("found from the working directory" if by_search else "given with -c"))
        for st in set(meta["styles"].values()):
            check.count("remapped-imports style " + st)
        srcs = {f["rel"]: render_file(f["file"]) for f in files}
        case = {"lang": lang, "mode": "-d <folder>" if multi else "-o <file>", "files": srcs, "typeshare.toml": toml,
                "config": "typeshare.toml in the working directory" if by_search else "-c <that file>",
                "args": ["--lang", lang] + lang_args(lang) + ["-d out" if multi else "-o out." + EXT[lang], "ws"],
                "type_mappings_of_the_language": tables[lang], "keys_imported_from_another_crate": mapped_imported,
                "workspace": {k_: meta[k_] for k_ in ("providers", "consumers", "defined", "imported", "own", "foreign_used", "styles")}}
        if len(seen) > 1:
            (e1, o1, r1), (e2, o2, r2) = list(seen.values())[:2]
            fn = next((fn for fn in sorted(set(o1) | set(o2)) if o1.get(fn) != o2.get(fn)), None)
            check.violation("%s %s output differs between two runs of the same binary over the same %d source files and the same typeshare.toml, "
                            "whose [%s.type_mappings] has the %d keys %s, of which %s imported by one crate from another (%s vs %s; %s)" % (
                                lang, "folder (-d)" if multi else "single-file (-o)", n, lang, len(tables[lang]), ", ".join(tables[lang]),
                                (", ".join(mapped_imported) + (" is" if len(mapped_imported) == 1 else " are")) if mapped_imported else "none is",
                                e1, e2, ("file %s: %s" % (fn, run_diff(o1.get(fn, ""), o2.get(fn, "")))) if fn else
                                "exit status %s vs %s" % (r1["rc"], r2["rc"])),
                            case=dict(case, run_a=e1, run_b=e2, **({"typeshare.toml of the re-ordered run": toml_other_order}
                                                                   if "another order" in e1 + e2 else {})),
                            impl={"a": o1, "b": o2}, failing_input=True)
            return
        if rc0["rc"] != 0:
            check.count("remapped-imports: generation error")
            continue
        # the tie: the model's pipeline under the table of the language
        cfg = {"package": "proto" if lang == "go" else "com.example", "version_header": True, "type_mappings": dict(tables[lang])}
        jobs = [{"crate": f["crate"] if multi else "", "file_name": file_name(lang, f["crate"]) if multi else "x", "path": sc.path("ws/" + f["rel"]),
                 "file": f["file"]}
                for f in sorted(files, key=lambda f: f["rel"])]
        names = set().union(*[l2.names_of(f["file"]) for f in files])
        mreq, _, _ = l2.requests(lang, cfg, jobs, g, multi_file=multi)
        ma = model([mreq], names=names if lang == "python" else None)[0]
        if multi:
            mtexts = dict(ma.get("ok") or {})
            itexts = {f["crate"]: first[file_name(lang, f["crate"])] for f in files if file_name(lang, f["crate"]) in first}
            if "Codable.swift" in first:
                itexts["<post>/Codable.swift"] = first["Codable.swift"]
        else:
            mtexts = dict(enumerate(sorted((ma.get("ok") or {}).values())))
            itexts = dict(enumerate(sorted(first.values())))
        if "ok" not in ma or mtexts != itexts:
            if l2.norm(ma) == {"err": "format"}:
                continue
            key = next((c for c in sorted(set(mtexts) | set(itexts), key=str) if mtexts.get(c) != itexts.get(c)), None)
            check.violation("the binary's %s %s output under a typeshare.toml whose [%s.type_mappings] has the keys %s (%s imported from another "
                            "crate) differs from the model's%s" % (
                                lang, "folder" if multi else "single-file", lang, ", ".join(tables[lang]), ", ".join(mapped_imported) or "none",
                                ": module %s: %s" % (key, l2.text_diff(mtexts.get(key, ""), itexts.get(key, ""))) if key is not None else
                                ": the model answers %s" % json.dumps(ma)[:200]),
                            case=case, impl=itexts, model=ma, failing_input=False,
                            broken="correspondence L3 pipeline under type_mappings: ignored_reference_types (Generate.ignoredTypes; theorems TsV.C06.C06_multi*)")
            return
        if len(check.samples) < 7:
            check.sample({"lang": lang, "mode": case["mode"], "type_mappings": tables[lang], "keys_imported_from_another_crate": mapped_imported,
                          "files": sorted(srcs), "runs": len(runs), "distinct_outputs": len(seen)})


def duplicate_names_part(check):
    """the class the theorems still exclude (`Known_duplicate_names`, witness of TsV.C06.C06_multi_not_full): two types of the same
    name in one crate (legal Rust: different modules; typeshare flattens modules).  The stable sort keeps them in arrival order, so the
    bytes depend on the schedule.  Replayed with the collector hook; recorded as an open finding."""
    srcs = {"app/src/one.rs": "#[typeshare]\npub struct Account { pub a: u8 }\n",
            "app/src/two.rs": "pub mod inner {\n    #[typeshare]\n    pub struct Account { pub b: String }\n}\n"}
    for lang, multi in (("typescript", True), ("kotlin", False)):
        with Scratch() as sc:
            for rel, text in srcs.items():
                sc.write("ws/" + rel, text)
            runs = [(o, run_once(sc, lang, multi, {"TYPESHARE_VERIF_ORDER": o})) for o in ("0,1", "1,0")]
        check.saw(("duplicate-names", lang), nontrivial=True)
        check.count("duplicate-type-names-%s" % lang)
        (oa, (ra, outa)), (ob, (rb, outb)) = runs
        if outa != outb:
            fn = next(fn for fn in sorted(set(outa) | set(outb)) if outa.get(fn) != outb.get(fn))
            witness = {"lang": lang, "multi_file": multi, "files": srcs, "orders": [oa, ob], "file": fn,
                       "difference": run_diff(outa.get(fn, ""), outb.get(fn, ""))}
            if check.known("duplicate-type-names-arrival-order", witness):
                continue
            check.violation("%s output differs between the two arrival orders of two files of one crate that both define a type called "
                            "Account (%s: %s)" % (lang, fn, witness["difference"]),
                            case=witness, impl={"a": outa, "b": outb}, failing_input=True)
            return


def repeated_name_split_part(check):
    """single-file mode: how the same items are split over source files does not matter - also when a name is declared more than
    once (one definition per `cfg` branch, the same name in two modules: legal Rust, typeshare reads the text and sees both).  The
    items written into one file, in order, and the same items written into one file each and delivered in that order give the same
    definitions (the relative order of equally named definitions in the split layout is the arrival order - the recorded finding
    duplicate-type-names-arrival-order -, so the outputs are compared as multisets of lines)"""
    variants = [
        ("cfg-branches", ["#[cfg(feature = \"fast\")]\n#[typeshare]\npub struct Handle { pub fd: u32 }\n",
                          "#[cfg(not(feature = \"fast\"))]\n#[typeshare]\npub struct Handle { pub name: String }\n",
                          "#[typeshare]\npub struct Other { pub h: Handle }\n"]),
        ("two-modules", ["pub mod v1 {\n    #[typeshare]\n    pub struct Handle { pub fd: u32 }\n}\n",
                         "pub mod v2 {\n    #[typeshare]\n    pub enum Handle { Open, Closed }\n}\n",
                         "#[typeshare]\npub type Handles = Vec<Handle>;\n"]),
        ("same-item-twice", ["#[typeshare]\npub struct Handle { pub fd: u32 }\n", "#[typeshare]\npub struct Handle { pub fd: u32 }\n"]),
    ]
    for k, (label, parts) in enumerate(variants):
        for lang in (LANGS if check.thorough else [LANGS[(2 * k + j) % 6] for j in range(3)]):
            outs = {}
            for layout in ("one", "split"):
                with Scratch() as sc:
                    if layout == "one":
                        sc.write("ws/app/src/lib.rs", "\n".join(parts))
                        env = {}
                    else:
                        for j, ptxt in enumerate(parts):
                            sc.write("ws/app/src/f%d.rs" % j, ptxt)
                        env = {"TYPESHARE_VERIF_ORDER": ",".join(str(j) for j in range(len(parts)))}
                    r, files = run_once(sc, lang, False, env)
                    outs[layout] = (r["rc"], files)
            check.saw(("repeated-name-split", label, lang), nontrivial=True)
            check.count("repeated-name-split-" + label)
            # the relative order of the equally named definitions in the split layout is the arrival order (recorded finding):
            # what is compared is the multiset of output lines
            lines = lambda o: (o[0], {f: sorted(t.splitlines()) for f, t in o[1].items()})
            if lines(outs["one"]) != lines(outs["split"]):
                (rc1, o1), (rc2, o2) = outs["one"], outs["split"]
                fn = next((f for f in sorted(set(o1) | set(o2)) if o1.get(f) != o2.get(f)), None)
                check.violation("%s, single-file mode: the same items (%s: a name declared more than once) written into one source file and "
                                "into one file each give different definitions (exit %s / %s%s)"
                                % (lang, label, rc1, rc2, ": " + run_diff(o1.get(fn, ""), o2.get(fn, "")) if fn else ""),
                                case={"lang": lang, "items": parts, "layouts": ["one file", "one file per item"]},
                                impl={"one": o1, "split": o2}, failing_input=True)
                return


def overlap_part(check):
    """source directories that overlap on the command line (a sub-directory named again, the same directory twice): files are
    delivered more than once; whatever typeshare makes of that, it must make the same of it for every walker thread count and
    in every run"""
    rng = check.rng
    for t in range(6 if check.thorough else 3):
        lang = LANGS[(2 * t) % 6]
        multi = t % 2 == 1
        files, g = make_tree(rng, rng.randint(4, 8), multi, with_consts=False)
        with Scratch() as sc:
            for f in files:
                sc.write("ws/" + f["rel"], render_file(f["file"]))
            subdirs = sorted({os.path.dirname(f["rel"]) for f in files})
            again = [sc.path("ws/" + d) for d in rng.sample(subdirs, min(2, len(subdirs)))]
            dirs = [sc.path("ws")] + again + ([sc.path("ws")] if t % 3 == 0 else [])
            seen = {}
            for k, env in enumerate([{"TYPESHARE_VERIF_THREADS": str(n)} for n in (1, 2, 3, 4, 8, 16)] + [{} for _ in range(4)]):
                out = sc.path("out")
                shutil.rmtree(out, ignore_errors=True)
                os.makedirs(out)
                tgt = ["-d", out] if multi else ["-o", os.path.join(out, "out." + EXT[lang])]
                r = run_cli(["--lang", lang] + tgt + lang_args(lang) + dirs, cwd=sc.dir, env=env)
                outs = {fn: open(os.path.join(out, fn), encoding="utf-8", errors="replace").read() for fn in sorted(os.listdir(out))}
                check.saw(("overlap", t, k), nontrivial=True)
                check.count("overlapping-directories-%s" % lang)
                seen.setdefault(digest(outs) + "|%s" % r["rc"], (env, outs))
        if len(seen) > 1:
            (e1, o1), (e2, o2) = list(seen.values())[:2]
            check.violation("%s output over overlapping source directories differs between two runs (%s vs %s)" % (lang, e1, e2),
                            case={"lang": lang, "multi_file": multi, "files": {f["rel"]: render_file(f["file"]) for f in files},
                                  "directories": [os.path.relpath(d, sc.dir) for d in dirs], "env_a": e1, "env_b": e2},
                            impl={"a": o1, "b": o2}, failing_input=True)
            return


LAYOUT_DIRS = ["target", "build", "out", "dist", "tests", "examples", "benches", "vendor", "node_modules", "tools", "typeshare", "gen",
               "generated", "tmp", "bin", "debug", "release", "src", "core", "Target", "target_os"]


def layout_part(check):
    """the same items, differently spread over files and directories: in single-file mode the output depends only on the items.
    Every source file is once a flat `src/<k>.rs` and once `src/<dir>/mod.rs` (resp. `src/<dir>/<k>.rs`) under directory names
    that build tools like to treat specially (`target`, `build`, `vendor`, `node_modules`, `tools`, ...; only `tools/typeshare` is a
    documented exclusion of the walker and is not used)"""
    rng = check.rng
    for t in range(6 if check.thorough else 3):
        lang = LANGS[(t * 5 + 1) % 6]
        files, g = make_tree(rng, rng.randint(3, 6), False, with_consts=False)
        texts = [render_file(f["file"]) for f in files]
        first = ["target", "build", "node_modules", "vendor", "out", "dist"][t % 6]
        dirs = [first] + rng.sample([d for d in LAYOUT_DIRS if d != first], len(texts) - 1)
        outs = {}
        with Scratch() as sc:
            for layout in ("flat", "dirs-mod", "dirs-file"):
                root = "ws_" + layout
                for k, (text, d) in enumerate(zip(texts, dirs)):
                    rel = {"flat": "src/m%d.rs" % k, "dirs-mod": "src/%s/mod.rs" % d, "dirs-file": "src/%s/inner/m%d.rs" % (d, k)}[layout]
                    sc.write("%s/crate_a/%s" % (root, rel), text)
                out = sc.path("out_%s.%s" % (layout, EXT[lang]))
                r = run_cli(["--lang", lang, "-o", out] + lang_args(lang) + [sc.path(root)], cwd=sc.dir)
                outs[layout] = (r["rc"], open(out, encoding="utf-8").read() if os.path.exists(out) else None)
                check.saw(("layout", t, layout, lang), nontrivial=True)
                check.count("layout-" + layout)
        if len({v for v in outs.values()}) > 1:
            a, b = [k for k in outs if outs[k] != outs["flat"]][:1] + ["flat"]
            check.violation("%s single-file output changes when the same source files are placed in the directories %s instead of flat "
                            "(%s: exit %s; flat: exit %s)" % (lang, dirs, a, outs[a][0], outs[b][0]),
                            case={"lang": lang, "sources": texts, "directories": dirs, "layout": a},
                            impl={a: outs[a][1], "flat": outs["flat"][1]}, failing_input=True)
            return


# ------------------------------------------------------------------ the size in bytes of the source files
PAD_KINDS = ["line-comments", "blank-lines", "block-comment", "plain-items", "doc-comments", "string-const", "non-ascii-comments"]
PAD_PLACEMENTS = ["after", "before", "between", "spread"]
PAD_WORDS = "generated by the build do not edit lorem ipsum dolor sit amet field record table column offset length checksum".split()


def pad_chunk(prng, kind, want, ctr):
    """at most `want` (>= 200) bytes of Rust text that declares nothing typeshare looks at: comments, blank lines, items without
    the annotation, doc comments on such items, a long string literal.  `ctr` numbers the items so that no name repeats in a file"""
    def lines_upto(make, budget):
        out, used = [], 0
        while True:
            ln = make()
            b = len(ln.encode("utf-8"))
            if used + b > budget:
                return "".join(out)
            out.append(ln)
            used += b
    words = lambda k: " ".join(prng.choice(PAD_WORDS) for _ in range(k))
    ctr[0] += 1
    n = ctr[0]
    if kind == "line-comments":
        return lines_upto(lambda: "// pad %s\n" % words(prng.randint(1, 14)), want)
    if kind == "blank-lines":
        return lines_upto(lambda: prng.choice(["\n", "\n", "    \n", "\t\n", "\r\n"]), want)
    if kind == "block-comment":
        return "/*\n" + lines_upto(lambda: " * %s\n" % words(prng.randint(1, 14)), want - 8) + " */\n"
    if kind == "non-ascii-comments":
        return lines_upto(lambda: "// Größe %s — 表 %s\n" % (words(2), "é" * prng.randint(0, 30)), want)
    if kind == "doc-comments":
        if n % 2:
            return lines_upto(lambda: "/// %s\n" % words(prng.randint(1, 14)), want - 40) + "pub struct PadDoc%d;\n" % n
        return "/**\n" + lines_upto(lambda: " * %s\n" % words(prng.randint(1, 14)), want - 48) + " */\npub struct PadDoc%d;\n" % n
    if kind == "string-const":
        head, tail = "pub const PAD_TEXT_%d: &str = \"" % n, "\";\n"
        return head + "a" * (want - len(head) - len(tail)) + tail
    if kind == "plain-items":
        k = [0]

        def item():
            k[0] += 1
            i = "%d_%d" % (n, k[0])
            return prng.choice(["#[derive(Debug, Clone)]\npub struct Pad%s { pub a: u32, pub b: Vec<String>, pub c: Option<bool> }\n" % i,
                                "pub fn pad_%s(x: u32) -> u32 { x.wrapping_mul(%d) + 1 }\n" % (i, k[0]),
                                "pub enum PadE%s { First, Second(u8), Third { x: i64 } }\n" % i,
                                "pub type PadT%s = std::collections::HashMap<String, Vec<u8>>;\n" % i,
                                "pub static PAD_S%s: [u8; 4] = [1, 2, 3, %d];\n" % (i, k[0] % 200)])
        return lines_upto(item, want)
    raise ValueError(kind)


def pad_exact(prng, nbytes, kinds, ctr):
    """exactly `nbytes` bytes (UTF-8) of padding drawn from `kinds`"""
    out, left = [], nbytes
    while left > 400:
        kind = prng.choice(kinds)
        want = min(left - 200, prng.choice([300, 3000, 40000, 400000]))
        if kind == "plain-items":
            want = min(want, 40000)          # the only kind that costs parse time
        s = pad_chunk(prng, kind, want, ctr)
        b = len(s.encode("utf-8"))
        assert b <= want, (kind, want, b)
        if b == 0:
            break
        out.append(s)
        left -= b
    out.append("//" + "." * (left - 3) + "\n" if left >= 3 else "\n" * left)
    return "".join(out)


def sized_source(item_texts, size, pad_seed, kinds, placement):
    """the items `item_texts` (in this order) in one source file of exactly `size` bytes: padding of the given kinds (a function of
    `pad_seed` alone) before / after / in one gap between / spread over all gaps around the items"""
    import random
    prng = random.Random(pad_seed)
    total = size - sum(len(t.encode("utf-8")) for t in item_texts)
    assert total >= 0, "the items alone are larger than the file asked for"
    k = len(item_texts) + 1
    slots = [0] * k
    if placement == "after":
        slots[-1] = total
    elif placement == "before":
        slots[0] = total
    elif placement == "between":
        slots[prng.randrange(1, k - 1) if k > 2 else 0] = total
    else:
        cuts = sorted(prng.randint(0, total) for _ in range(k - 1))
        slots = [b - a for a, b in zip([0] + cuts, cuts + [total])]
    ctr = [0]
    parts = []
    for j, n in enumerate(slots):
        parts.append(pad_exact(prng, n, kinds, ctr))
        if j < len(item_texts):
            parts.append(item_texts[j])
    text = "".join(parts)
    assert len(text.encode("utf-8")) == size
    return text


def file_size_split_part(check):
    """the size in bytes of the source files as a dimension of "how the same items are split across ordinary source files" (single-file
    mode).  The same annotated items are laid out twice: in 2-4 small files (a few hundred bytes each), and in files brought to an exact
    size just below / at / just above 64 KiB, 1 MiB and 4 MiB (thorough: four to six sizes around each, one around 16 MiB) by text that declares nothing -
    line / block / non-ASCII comments, blank lines, items without the annotation, long doc comments on such items, a long string
    literal - before, after, between or spread around the items.  Two big layouts: `joined` (all items in one file of that size, one
    file possibly left apart) and `in-place` (the same files, one of them padded to that size).  Two or three languages per size.
    Demanded: the big layout gives the same exit status and byte-identical output as the small one (type names are disjoint and there
    are no consts, so the order is fixed by the sort after the merge); the common output equals the Lean pipeline model's text."""
    rng = check.rng
    KiB, MiB = 1 << 10, 1 << 20
    marks = [64 * KiB, MiB, 4 * MiB] + ([16 * MiB] if check.thorough else [])
    pool = TYPE_WORDS + [w + "Two" for w in TYPE_WORDS]
    case_no = 0
    for mark in marks:
        near = lambda: rng.randint(2, 4096)
        if check.thorough:
            sizes = ([mark - near(), mark - 1, mark, mark + 1, mark + near(), mark + mark // 4] if mark < 4 * MiB else
                     [mark - 1, mark, mark + 1, mark + near()] if mark < 16 * MiB else [rng.choice([mark, mark + 1, mark + near()])])
        else:
            sizes = [rng.choice([mark - near(), mark - 1, mark]), rng.choice([mark + 1, mark + near(), mark + mark // 4])]
        for size in sizes:
            case_no += 1
            nlangs = 3 if check.thorough and mark < 16 * MiB else 2
            langs = [LANGS[(case_no * 2 + j * 3) % 6] for j in range(2)] if nlangs == 2 else [LANGS[(case_no + 2 * j) % 6] for j in range(3)]
            nfiles = rng.randint(2, 4)
            words = rng.sample(pool, 3 * nfiles)
            g = Gen(rng, p_serialized_as=0.0, p_decorators=0.05, p_cfg=0.0, p_const=0.0, p_mod=0.0, p_noise=0.0)
            files = []
            for i in range(nfiles):
                mine = words[3 * i:3 * i + 3]
                others = [w for w in words if w not in mine]
                f = g.file(names=rng.sample(mine, rng.randint(1, 3)), extern_types=rng.sample(others, 2))
                files.append(dict(rel="src/%sf%d.rs" % (rng.choice(["", "sub/", "a/b/"]), i), crate="", file=f))
            item_texts = lambda fs: [render_item(it) + "\n" for f in fs for it in f["file"]["items"]]
            layout = ["joined", "in-place"][case_no % 2] if check.thorough or mark < 4 * MiB else rng.choice(["joined", "in-place"])
            kinds = rng.sample(PAD_KINDS, rng.randint(1, 4))
            placement = rng.choice(PAD_PLACEMENTS)
            pad_seed = rng.randint(0, 10**6)
            if layout == "joined":
                apart = files[-1:] if rng.random() < 0.5 else []
                inside = [f for f in files if f not in apart]
                big_name = rng.choice(["src/all.rs", "src/generated.rs", "src/aaa.rs", "src/zz/mod.rs"])
                big_files = [(big_name, inside)] + [(f["rel"], [f]) for f in apart]
            else:
                j = rng.randrange(nfiles)
                big_name = files[j]["rel"]
                big_files = [(f["rel"], [f]) for f in files]
            recipe = {"size_in_bytes": size, "file": big_name, "pad_seed": pad_seed, "kinds": kinds, "placement": placement,
                      "items_in_it": None, "rebuild": "tools/c06.py: sized_source(items_in_it, size_in_bytes, pad_seed, kinds, placement)"}

            def big_text(rel, fs, plain=False):
                if rel != big_name:
                    return render_file(fs[0]["file"])
                its = item_texts(fs)
                recipe["items_in_it"] = its
                if plain:
                    return "".join(its) + "\n" * (size - sum(len(t.encode("utf-8")) for t in its))
                return sized_source(its, size, pad_seed, kinds, placement)
            with Scratch() as sc:
                for f in files:
                    sc.write("small/" + f["rel"], render_file(f["file"]))
                for rel, fs in big_files:
                    sc.write("big/" + rel, big_text(rel, fs))
                assert os.path.getsize(sc.path("big/" + big_name)) == size
                assert all(os.path.getsize(sc.path("small/" + f["rel"])) < 32 * KiB for f in files)

                def gen_of(root, lang):
                    out = sc.path("out_%s.%s" % (root, EXT[lang]))
                    if os.path.exists(out):
                        os.remove(out)
                    r = run_cli(["--lang", lang, "-o", out] + lang_args(lang) + [sc.path(root)], cwd=sc.dir, timeout=600)
                    return (r["rc"], open(out, encoding="utf-8", errors="replace").read() if os.path.exists(out) else None), r
                for lang in langs:
                    small, rs = gen_of("small", lang)
                    big, rb = gen_of("big", lang)
                    ok_run = small[0] == 0
                    check.saw(("file-size-split", case_no, lang), nontrivial=ok_run)
                    check.count("file-size-split: %s 2^%d bytes" % (
                        "at" if size == mark else "just below" if size < mark else "just above" if size - mark <= 4096 else "a quarter above",
                        mark.bit_length() - 1))
                    check.count("file-size-split-%s" % lang)
                    check.count("file-size-split layout " + layout)
                    check.count("file-size-split placement " + placement)
                    for kd in kinds:
                        check.count("file-size-split padding " + kd)
                    if not ok_run:
                        check.count("file-size-split: the small layout is rejected")
                    if small != big:
                        # the same with the plainest padding there is: the items, then newline characters up to the size
                        for rel, fs in big_files:
                            sc.write("plain/" + rel, big_text(rel, fs, plain=True))
                        plain, _ = gen_of("plain", lang)
                        nrec = lambda o: "no output file" if o[1] is None else "%d lines" % len(o[1].splitlines())
                        check.violation(
                            "%s, single-file mode: the same %d annotated items give different output when they are %s a source file of "
                            "%d bytes (%s 2^%d; padded with %s %s) than when they are spread over %d files of at most %d bytes: "
                            "exit %s and %s from the big layout, exit %s and %s from the small one (%s); %s" % (
                                lang, len(item_texts(files)), "joined in" if layout == "joined" else "left in their files, one of which is",
                                size, "exactly" if size == mark else "%d below" % (mark - size) if size < mark else "%d above" % (size - mark),
                                mark.bit_length() - 1, " + ".join(kinds),
                                {"after": "after the items", "before": "before the items", "between": "in one gap between the items",
                                 "spread": "spread around the items"}[placement], nfiles,
                                max(os.path.getsize(sc.path("small/" + f["rel"])) for f in files),
                                big[0], nrec(big), small[0], nrec(small),
                                run_diff(small[1] or "", big[1] or "") if small[1] != big[1] else "same bytes",
                                "the items followed by newline characters up to that size " +
                                ("show the same difference" if plain != small else "do not show it")),
                            case={"lang": lang, "args": ["--lang", lang, "-o", "out." + EXT[lang]] + lang_args(lang) + ["<layout directory>"],
                                  "small_layout": {f["rel"]: render_file(f["file"]) for f in files},
                                  "big_layout": {rel: (recipe if rel == big_name else render_file(fs[0]["file"])) for rel, fs in big_files},
                                  "plainest_form": "%s = the strings of items_in_it, then newline characters up to %d bytes: %s" % (
                                      big_name, size, "differs from the small layout too" if plain != small else "same output as the small layout"),
                                  "stderr_big": rb["err"][-600:]},
                            impl={"small": small[1], "big": big[1]}, failing_input=True)
                        return
                    # the tie: the model's pipeline on the same items
                    if lang in MODELLED and ok_run:
                        cfg = {"package": "proto" if lang == "go" else "com.example", "version_header": True, "type_mappings": {}}
                        jobs = [{"crate": "", "file_name": "x", "path": sc.path("small/" + f["rel"]), "file": f["file"]} for f in files]
                        names = set().union(*[l2.names_of(f["file"]) for f in files])
                        mreq, _, _ = l2.requests(lang, cfg, jobs, g, multi_file=False)
                        ma = model([mreq], names=names if lang == "python" else None)[0]
                        if "ok" in ma and sorted(ma["ok"].values()) != [big[1]] and l2.norm(ma) != {"err": "format"}:
                            check.violation("the binary's %s output for items in a source file of %d bytes differs from the pipeline model's" % (lang, size),
                                            case={"lang": lang, "small_layout": {f["rel"]: render_file(f["file"]) for f in files}, "big_file": recipe},
                                            impl=big[1], model=ma["ok"], failing_input=False,
                                            broken="correspondence L3 collect/reconcile/generate (theorems TsV.C06.*)")
                            return
            if len(check.samples) < 9:
                check.sample({"file_size_split": {"size": size, "layout": layout, "kinds": kinds, "placement": placement, "langs": langs,
                                                  "small_files": [f["rel"] for f in files], "big_file": big_name}})


def generic_names_part(check):
    """several generic items with *different* type-parameter names, spread over two files: back ends that collect the parameter
    names of a whole run in a hash set (Python: `X = TypeVar("X")` lines) must still write them in a fixed order; repeated
    processes realise different hash seeds"""
    rng = check.rng
    ts = [m_path("typeshare")]
    pool = ["A", "B", "K", "V", "W", "Item", "Meta", "Elem", "Lhs", "Rhs"]
    for t in range(6 if check.thorough else 3):
        lang = ["python", "python", "typescript", "swift", "kotlin", "go"][t % 6]
        names = rng.sample(pool, 7)
        shapes = [names[:2], names[2:3], names[3:6], names[6:7]]
        files = []
        for k, ps in enumerate(shapes):
            item = {"kind": "struct", "attrs": list(ts), "ident": "Gen%d" % k, "generics": [("ty", p) for p in ps],
                    "fields": ("named", [field([], "f%d" % i, t_path(p) if i % 2 == 0 else t_path("Vec", [t_path(p)])) for i, p in enumerate(ps)])}
            files.append(dict(rel="src/g%d.rs" % (k % 2), file={"attrs": [], "items": [item]}))
        merged = {}
        for f in files:
            merged.setdefault(f["rel"], {"attrs": [], "items": []})["items"] += f["file"]["items"]
        with Scratch() as sc:
            for rel, f in merged.items():
                sc.write("ws/" + rel, render_file(f))
            seen = {}
            for k in range(16 if check.thorough else 10):
                r, outs = run_once(sc, lang, False, {})
                check.saw(("generic-names", t, k), nontrivial=True)
                check.count("generic-parameter-names-%s" % lang)
                seen.setdefault(digest(outs) + "|%s" % r["rc"], (k, outs))
        if len(seen) > 1:
            (k1, o1), (k2, o2) = list(seen.values())[:2]
            fn = next(iter(o1))
            check.violation("%s output differs between two runs of the same binary over the same files (process %d vs %d): %s" % (
                lang, k1, k2, l2.text_diff(o1.get(fn, ""), o2.get(fn, ""))),
                case={"lang": lang, "files": {rel: render_file(f) for rel, f in merged.items()}}, impl={"a": o1, "b": o2}, failing_input=True)
            return


# ------------------------------------------------------------------ folder mode: what the output folder held before the run
FOLDER_CRATES = ["alpha", "beta-x", "core_types", "zeta", "mid-tier", "b2"]
FOLDER_SEQ = ["swift", "typescript", "swift", "kotlin", "swift", "scala", "swift", "go", "swift", "python"]
FOLDER_MAPPED = {"typescript": ["string", "number", "Date"], "kotlin": ["java.time.Instant", "Long", "String"],
                 "swift": ["Date", "Int64", "String"], "scala": ["java.time.Instant", "Long", "String"],
                 "go": ["time.Time", "int64", "string"], "python": ["datetime", "int", "str"]}
FOLDER_UNITS = [("tuple", []), t_path("Option", [("tuple", [])]), t_path("Vec", [("tuple", [])]),
                t_path("HashMap", [t_path("String"), ("tuple", [])])]


def folder_setting(rng, lang):
    """one setting of the [<lang>] section of typeshare.toml: the keys that show in the output of `lang`"""
    s = {}
    tm = {}
    if rng.random() < 0.7:
        tm["Stamp"] = rng.choice(FOLDER_MAPPED[lang])
    if rng.random() < 0.3:
        tm["Url"] = rng.choice(FOLDER_MAPPED[lang][1:])
    s["type_mappings"] = tm
    if lang == "swift":
        s["default_decorators"] = rng.choice([[], ["Sendable"], ["Sendable", "Identifiable"], ["Equatable", "Hashable"], ["Equatable"]])
        s["codablevoid_constraints"] = rng.choice([[], ["Equatable"], ["Equatable", "Hashable"], ["Sendable"], ["Hashable", "Sendable", "Equatable"]])
        s["default_generic_constraints"] = rng.choice([[], [], ["Sendable"]])
        s["prefix"] = rng.choice(["", "", "Core"])
    elif lang == "kotlin":
        s["prefix"] = rng.choice(["", "Kt", "Core"])
    elif lang == "go":
        s["uppercase_acronyms"] = rng.choice([[], ["id"], ["id", "url"]])
        s["no_pointer_slice"] = rng.choice([False, True])
    return s


def folder_settings(rng, lang, m):
    """m pairwise different settings.  For Swift the second differs from the first in what the helper module Codable.swift is made
    from (default_decorators or codablevoid_constraints) and in nothing else: the per-crate modules may well be the same"""
    out = [folder_setting(rng, lang)]
    key = lambda s: json.dumps(s, sort_keys=True)
    if lang == "swift":
        s = json.loads(key(out[0]))
        which = rng.choice(["default_decorators", "codablevoid_constraints", "both"])
        for k in ("default_decorators", "codablevoid_constraints"):
            if which in (k, "both"):
                while s[k] == out[0][k]:
                    s[k] = folder_setting(rng, lang)[k]
        out.append(s)
    while len(out) < m:
        s = folder_setting(rng, lang)
        if key(s) not in [key(x) for x in out]:
            out.append(s)
    return out


def folder_toml(lang, s, noise_lang=None):
    lines = ["[%s]" % lang]
    lines += ["%s = %s" % (k, json.dumps(v)) for k, v in s.items() if k != "type_mappings"]
    if s.get("type_mappings"):
        lines += ["", "[%s.type_mappings]" % lang] + ["%s = %s" % (k, json.dumps(v)) for k, v in s["type_mappings"].items()]
    if noise_lang:
        lines += ["", "[%s.type_mappings]" % noise_lang, 'Stamp = "NotThisLanguage"']
    return "\n".join(lines) + "\n"


def folder_workspace(rng, k, with_unit):
    """2-3 crates of 1-2 files each (random structs, enums, aliases; disjoint type names) plus one probe struct whose fields show the
    settings (a remappable foreign type, acronym words) and - `with_unit` - mention Rust's unit type in 1-3 shapes, which makes the
    Swift back end write its helper module Codable.swift next to the per-crate modules"""
    ts = [m_path("typeshare")]
    crates = rng.sample(FOLDER_CRATES, rng.randint(2, 3))
    slots = [(c, i) for c in crates for i in range(rng.choice([1, 1, 2]))]
    pool = TYPE_WORDS + [w + "Two" for w in TYPE_WORDS]
    words = rng.sample(pool, 2 * len(slots))
    g = Gen(rng, p_serialized_as=0.0, p_decorators=0.05, p_cfg=0.0, p_const=0.0, p_mod=0.1, p_noise=0.1)
    files = []
    for j, (c, i) in enumerate(slots):
        mine = words[2 * j:2 * j + 2]
        f = g.file(names=mine[:rng.randint(1, 2)], extern_types=rng.sample([w for w in words if w not in mine], 1))
        files.append(dict(rel="%s/src/%s" % (c, ["lib.rs", "more.rs"][i]), crate=c.replace("-", "_"), file=f))
    fields = [field([], "at", t_path("Stamp")), field([], "user_id", t_path("u32")), field([], "home_url", t_path("Option", [t_path("Url")]))]
    units = rng.sample(FOLDER_UNITS, rng.randint(1, 3)) if with_unit else []
    fields += [field([], "nothing%d" % n, u) for n, u in enumerate(units)]
    rng.shuffle(fields)
    probe = {"kind": "struct", "attrs": list(ts), "ident": "FolderProbe%d" % k, "generics": [], "fields": ("named", fields)}
    rng.choice(files)["file"]["items"].append(probe)
    return files, g, [render_type(u) for u in units]


def read_folder(d):
    out = {}
    for root, _, fns in os.walk(d):
        for fn in fns:
            p = os.path.join(root, fn)
            out[os.path.relpath(p, d)] = open(p, "rb").read()
    return out


def write_folder(d, content):
    os.makedirs(d, exist_ok=True)
    for rel, b in content.items():
        p = os.path.join(d, rel)
        os.makedirs(os.path.dirname(p), exist_ok=True)
        with open(p, "wb") as f:
            f.write(b)


def dirty_folder_part(check):
    """Dimension: *what the output folder of a multi-file run (-d) held before the run*.  Workspaces of 2-3 crates, all six languages
    (Swift every other case, always with a type that mentions `()`, so that the helper module Codable.swift is part of the output),
    each under 2-3 different settings of the language's section of typeshare.toml (Swift: default_decorators / codablevoid_constraints
    / default_generic_constraints / prefix / type_mappings; the others: type_mappings, prefix, uppercase_acronyms, no_pointer_slice).
    Reference = the run into an empty folder.  The same command is then run into folders that already hold: the output of the same
    run; the output of the run under each *other* setting (every ordered pair) and of two other runs in a row; empty files of the
    same names; the reference files followed by more text, cut in the middle, with one byte changed; a random mix of those per file;
    only files of other names (sub-directory, hidden file, a stale module of another crate); the output of an earlier version of the
    sources.  Demanded (the property itself, on the files the binary left): the run succeeds and *every file the reference run wrote*
    has exactly the reference's bytes - for fixed sources, configuration and options the bytes do not depend on the folder's history.
    (Files the run is not responsible for - stale modules - are C17's business and are not looked at.)  The reference of every
    setting is also compared byte for byte with the Lean pipeline + back-end models under that setting."""
    from c14 import file_name
    rng = check.rng
    ncases = 30 if check.thorough else 10
    for w in range(ncases):
        lang = FOLDER_SEQ[w % len(FOLDER_SEQ)]
        with_unit = lang == "swift" or w % 4 == 1
        # the random items may hold something the back end rejects (`OffsetDateTime` outside TypeScript, ...): such a workspace says
        # nothing about folders and is drawn again
        for attempt in range(12):
            files, g, units = folder_workspace(rng, w, with_unit)
            with Scratch() as sc:
                for f in files:
                    sc.write("ws/" + f["rel"], render_file(f["file"]))
                os.makedirs(sc.path("probe"))
                if run_cli(["--lang", lang, "-d", sc.path("probe")] + lang_args(lang) + [sc.path("ws")], cwd=sc.dir)["rc"] == 0:
                    break
            check.count("dirty-folder: workspace rejected by the back end, drawn again")
        m = 3 if (check.thorough or w % 2 == 0) else 2
        settings = folder_settings(rng, lang, m)
        noise = rng.choice([None, None] + [L for L in LANGS if L != lang])
        tomls = [folder_toml(lang, s, noise) for s in settings]
        srcs = {f["rel"]: render_file(f["file"]) for f in files}
        # an earlier version of the program: one more type in one module, one more crate, (sometimes) no unit type yet
        earlier = dict(srcs)
        rel0 = rng.choice(sorted(srcs))
        earlier[rel0] += "\n#[typeshare]\npub struct LegacyRecord%d { pub old_field_one: String, pub old_field_two: Vec<u32>, pub old_field_three: Option<bool> }\n" % w
        earlier["legacy-zz/src/lib.rs"] = "#[typeshare]\npub enum LegacyMode%d { Fast, Slow }\n" % w
        if w % 3 == 0:
            earlier = {rel: re.sub(r"(?m)^\s*(pub )?nothing\d+: .*?,?\n", "", t) if "FolderProbe" in t else t for rel, t in earlier.items()}
        args = lambda j: ["--lang", lang, "-d", "<folder>", "-c", "typeshare.toml"] + lang_args(lang) + ["ws"]
        with Scratch() as sc:
            for rel, text in srcs.items():
                sc.write("ws/" + rel, text)
            for rel, text in earlier.items():
                sc.write("ws_earlier/" + rel, text)
            for j, t in enumerate(tomls):
                sc.write("conf%d/typeshare.toml" % j, t)
            ndest = [0]

            def go(j, dest=None, ws="ws"):
                """the run under setting j into `dest` (a fresh, empty folder when None); (exit status, stderr, files in the folder)"""
                if dest is None:
                    ndest[0] += 1
                    dest = sc.path("dest%d" % ndest[0])
                    os.makedirs(dest)
                r = run_cli(["--lang", lang, "-d", dest, "-c", sc.path("conf%d/typeshare.toml" % j)] + lang_args(lang) + [sc.path(ws)], cwd=sc.dir)
                return r, read_folder(dest)

            def fresh(content=None):
                ndest[0] += 1
                dest = sc.path("dest%d" % ndest[0])
                os.makedirs(dest)
                write_folder(dest, content or {})
                return dest

            refs = [go(j) for j in range(m)]
            check.count("dirty-folder-%s" % lang)
            if any(r["rc"] != 0 or not o for r, o in refs):
                check.count("dirty-folder: generation error in an empty folder (case skipped)")
                continue
            ref = [o for _, o in refs]
            helper = "Codable.swift" if lang == "swift" else None
            if helper:
                check.count("dirty-folder: swift helper module %s" % ("written" if helper in ref[0] else "absent"))
                if len({o.get(helper) for o in ref}) > 1:
                    check.count("dirty-folder: swift helper module differs between the settings of the case")
            if len({digest({k_: v.decode("utf-8", "replace") for k_, v in o.items()}) for o in ref}) == m:
                check.count("dirty-folder: all settings of the case give different folders")
            for u in units:
                check.count("dirty-folder: unit type as %s" % u)

            # ---- the folder states: (name, target setting, files the folder holds before the run)
            def states_for(j):
                R = ref[j]
                mid = lambda b: len(b) // 2
                others = [i for i in range(m) if i != j]
                out = []
                for i in others:
                    out.append(("the output of the run under another setting (#%d)" % i, lambda i=i: fresh(ref[i]), {"other typeshare.toml": tomls[i]}))
                if full_for == "all" or full_for == j:
                    def twice():
                        d = fresh()
                        go(j, d)
                        return d
                    out.append(("the output of the same run", twice, {}))
                    out.append(("empty files of the same names", lambda: fresh({fn: b"" for fn in R}), {}))
                    out.append(("the same files followed by more text", lambda: fresh({fn: b + b"\n// left over from an earlier, longer output\nstale stale stale\n" for fn, b in R.items()}), {}))
                    out.append(("the same files cut in the middle", lambda: fresh({fn: b[:mid(b)] for fn, b in R.items()}), {}))
                    out.append(("the same files with one byte changed", lambda: fresh(
                        {fn: b[:mid(b)] + (b"#" if b[mid(b):mid(b) + 1] != b"#" else b"%") + b[mid(b) + 1:] for fn, b in R.items()}), {}))
                    extras = {"Legacy_old.%s" % EXT[lang]: b"stale module of a crate that is gone\n", "notes.txt": b"hand-written\n", ".hidden": b"",
                              "sub/Old.%s" % EXT[lang]: b"old\n"}
                    if "Codable.swift" not in R:
                        extras["Codable.swift"] = b"public struct CodableVoid: Codable {}\n"
                    out.append(("only files of other names", lambda: fresh(extras), {}))

                    def mixed():
                        o = ref[rng.choice(others)]
                        pick = {}
                        for fn, b in sorted(R.items()):
                            c = rng.choice(["absent", "empty", "other", "longer", "same", "prefix"])
                            if c == "other" and fn not in o:
                                c = "empty"
                            if c != "absent":
                                pick[fn] = {"empty": b"", "other": o.get(fn), "longer": b + b"// more\n", "same": b, "prefix": b[:mid(b)]}[c]
                        pick.update(extras)
                        return fresh(pick)
                    out.append(("a mix per file of: nothing, an empty file, another setting's output, a longer, a shorter, the same file; plus files of other names", mixed, {}))

                    def after_earlier():
                        d = fresh()
                        go(j, d, ws="ws_earlier")
                        return d
                    out.append(("the output of the same command over an earlier version of the sources", after_earlier, {"earlier sources": earlier}))

                    def history():
                        d = fresh()
                        seq = [rng.choice(others), rng.choice(others + [j])]
                        for i in seq:
                            go(i, d)
                        return d
                    out.append(("the output of two earlier runs in a row under other settings", history, {}))
                return out

            full_for = "all" if check.thorough else rng.randrange(m)
            for j in range(m):
                for name, build, more in states_for(j):
                    dest = build()
                    before = read_folder(dest)
                    r, after = go(j, dest)
                    check.saw(("dirty-folder", w, j, name), nontrivial=True)
                    check.count("dirty-folder state: " + re.sub(r" \(#\d+\)", "", name))
                    bad = None
                    if r["rc"] != 0:
                        bad = ("<exit status>", "the run fails (exit %s: %s), although the same command succeeds in an empty folder" % (r["rc"], (r["err"] or "").strip()[-300:]))
                    else:
                        for fn in sorted(ref[j]):
                            if after.get(fn) != ref[j][fn]:
                                got = after.get(fn)
                                bad = (fn, "the file %s %s" % (fn, "is missing after the run" if got is None else
                                       "is not the file the run into an empty folder writes (%s)" % run_diff(got.decode("utf-8", "replace"), ref[j][fn].decode("utf-8", "replace"))))
                                break
                    if bad:
                        fn, text = bad
                        dec = lambda b: None if b is None else b.decode("utf-8", "replace")[-2500:]
                        check.violation("%s folder mode (-d): for the same sources, the same typeshare.toml and the same options the bytes the run "
                                        "leaves depend on what the output folder held before: %s.  The folder held %s" % (lang, text, name),
                                        case=dict({"lang": lang, "args": args(j), "files": srcs, "typeshare.toml": tomls[j],
                                                   "setting": settings[j], "folder_held": name,
                                                   "folder_before_the_run": {f: dec(b) for f, b in sorted(before.items())},
                                                   "differing_file": fn,
                                                   "replay": "write `files` under ws/ and typeshare.toml, fill <folder> with `folder_before_the_run`, run typeshare "
                                                             "with `args`; run the same command with an empty <folder>; compare the files the second run wrote"},
                                                  **more),
                                        impl={"after_the_run": dec(after.get(fn)), "folder_after_the_run": sorted(after)},
                                        model={"run_into_an_empty_folder": dec(ref[j].get(fn))}, failing_input=True)
                        return

            # ---- the tie: the models' text for every setting of the case
            if lang in MODELLED:
                jobs = [{"crate": f["crate"], "file_name": file_name(lang, f["crate"]), "path": sc.path("ws/" + f["rel"]), "file": f["file"]}
                        for f in sorted(files, key=lambda f: f["rel"])]
                names = set().union(*[l2.names_of(f["file"]) for f in files])
                reqs = []
                for s in settings:
                    cfg = dict(s, package="proto" if lang == "go" else "com.example", version_header=True)
                    reqs.append(l2.requests(lang, cfg, jobs, g, multi_file=True)[0])
                for j, ma in enumerate(model(reqs, names=names if lang == "python" else None)):
                    first = {fn: b.decode("utf-8", "replace") for fn, b in ref[j].items()}
                    mtexts = dict(ma.get("ok") or {})
                    itexts = {f["crate"]: first[file_name(lang, f["crate"])] for f in files if file_name(lang, f["crate"]) in first}
                    if "Codable.swift" in first:
                        itexts["<post>/Codable.swift"] = first["Codable.swift"]
                    if "ok" in ma and mtexts == itexts:
                        check.count("dirty-folder: the reference folder equals the models' text")
                    else:
                        if l2.norm(ma) == {"err": "format"}:
                            continue
                        key = next((c for c in sorted(set(mtexts) | set(itexts)) if mtexts.get(c) != itexts.get(c)), None)
                        check.violation("the binary's %s folder output (into an empty folder) under the setting %s differs from the model's%s" % (
                                            lang, json.dumps(settings[j], sort_keys=True),
                                            ": module %s: %s" % (key, l2.text_diff(mtexts.get(key, ""), itexts.get(key, ""))) if key else
                                            ": the model answers %s" % json.dumps(ma)[:200]),
                                        case={"lang": lang, "files": srcs, "typeshare.toml": tomls[j], "args": args(j)}, impl=itexts, model=ma,
                                        failing_input=False, broken="correspondence L3 multi-file pipeline under the settings of typeshare.toml (theorems TsV.C06.C06_multi*)")
                        return
        if len(check.samples) < 9:
            check.sample({"lang": lang, "dirty_folder_settings": settings, "files": sorted(srcs), "unit_type_as": units})
