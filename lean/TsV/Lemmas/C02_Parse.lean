import TsV.Lemmas.C02_Base
/-!
# C02, parse half: `parse_enum` gives every variant serde's name
-/
namespace TsV.C02
open TsV TsV.Str TsV.Syn TsV.Parser TsV.Serde TsV.Outcome

/-- serde's `apply_to_variant` never fails on an UpperCamelCase identifier -/
theorem applyVariant_ok (U : UnicodeOps) (rule : Rule) (s : Str) (h : C16.UpperCamel s) :
    ∃ w, applyVariant U rule s = .ok w := by
  obtain ⟨c, rest, rfl, hc⟩ := upperCamel_head s h
  cases rule <;> simp only [applyVariant] <;> first
    | exact ⟨_, rfl⟩
    | (simp only [Serde.lowerFirst, RenameLemmas.upper_ascii c hc, if_true]; exact ⟨_, rfl⟩)

/-- typeshare's `rename_all` on an UpperCamelCase variant identifier is serde's -/
theorem renameAll_variant (U : UnicodeOps) (hU : U.AsciiCorrect) (s : Str) (hs : C16.UpperCamel s)
    (ra : Option Str) (x : Str) (h : Rename.renameAllToCase U s ra = .ok x) :
    (match ra.bind Rule.ofStr with
     | some rule => okVal? (applyVariant U rule s)
     | none => some s) = some x := by
  cases ra with
  | none =>
    rw [C16.no_rule] at h
    simp only [Option.bind_none]
    cases h; rfl
  | some r =>
    simp only [Option.bind_some]
    cases hr : Rule.ofStr r with
    | none =>
      rw [C16.unknown_rule U s r hr] at h
      cases h; rfl
    | some rule =>
      obtain ⟨w, hw⟩ := applyVariant_ok U rule s hs
      have := C16.C16_variant U hU r rule hr s hs w hw
      rw [this] at h
      cases h
      simp [hw, okVal?]

/-- `get_ident` on a variant: the renamed name is serde's -/
theorem getIdent_variant (E : Ext) (hU : E.U.AsciiCorrect) (v : Variant) (hs : C16.UpperCamel v.ident)
    (ra : Option Str) (id : Id) (h : getIdent E (some v.ident) v.attrs ra = .ok id) :
    some id.renamed = variantName? E ra v ∧ id.original = v.ident := by
  unfold getIdent at h
  obtain ⟨r, hr, h⟩ := (bind_eq_ok _ _ _).1 h
  simp only [unraw_upperCamel v.ident hs] at hr h
  have hspec := renameAll_variant E.U hU v.ident hs ra r hr
  unfold variantName?
  cases hsr : serdeRename E v.attrs with
  | some k =>
    simp only [hsr] at h
    simp at h; subst h
    exact ⟨rfl, rfl⟩
  | none =>
    simp only [hsr] at h
    simp at h; subst h
    exact ⟨hspec.symm, rfl⟩

theorem parseVariant_id (E : Ext) (T : List Str) (ra : Option Str) (v : Variant) (rv : RustEnumVariant)
    (h : parseEnumVariant E T ra v = .ok rv) : getIdent E (some v.ident) v.attrs ra = .ok rv.id := by
  unfold parseEnumVariant at h
  obtain ⟨id, hid, h⟩ := (bind_eq_ok _ _ _).1 h
  rw [hid]
  congr 1
  split at h
  · simp at h; subst h; rfl
  · split at h
    · simp at h
    · split at h
      · simp at h
      · obtain ⟨ty, _, h⟩ := (bind_eq_ok _ _ _).1 h
        simp at h; subst h; rfl
  · obtain ⟨rfs, _, h⟩ := (bind_eq_ok _ _ _).1 h
    simp at h; subst h; rfl

/-- a parsed enum did not go through the `serialized_as` route -/
theorem parseEnum_enum_noSerializedAs (E : Ext) (T : List Str) (attrs : List Attr) (ident : Str)
    (gens : List GenericParam) (vs : List Variant) (e : RustEnum)
    (h : parseEnum E T attrs ident gens vs = .ok (.enum e)) : getSerializedAsType E attrs = none := by
  cases hsa : getSerializedAsType E attrs with
  | none => rfl
  | some s =>
    unfold parseEnum at h
    simp only [hsa] at h
    unfold serializedAlias mkAlias at h
    obtain ⟨ty, _, h⟩ := (bind_eq_ok _ _ _).1 h
    obtain ⟨id, _, h⟩ := (bind_eq_ok _ _ _).1 h
    simp at h

/-- the variants of a parsed enum are the per-variant parses of the non-skipped source variants -/
theorem parseEnum_variants (E : Ext) (T : List Str) (attrs : List Attr) (ident : Str)
    (gens : List GenericParam) (vs : List Variant) (e : RustEnum)
    (h : parseEnum E T attrs ident gens vs = .ok (.enum e)) :
    mapM' (parseEnumVariant E T (serdeRenameAll E attrs)) (vs.filter fun v => !isSkipped v.attrs T) =
      .ok e.variants := by
  have hsa := parseEnum_enum_noSerializedAs E T attrs ident gens vs e h
  unfold parseEnum at h
  simp only [hsa] at h
  obtain ⟨rvs, hm, h⟩ := (bind_eq_ok _ _ _).1 h
  obtain ⟨id, _, h⟩ := (bind_eq_ok _ _ _).1 h
  have hv := (C08.enumShape_keys E attrs _ e h).1
  simp only at hv
  rw [hm, hv]

/-- **wire names**: the parsed variants carry, in source order, serde's names of the non-skipped
source variants -/
theorem parseEnum_names (E : Ext) (hU : E.U.AsciiCorrect) (T : List Str) (attrs : List Attr) (ident : Str)
    (gens : List GenericParam) (vs : List Variant) (e : RustEnum)
    (hs : ∀ v ∈ vs, C16.UpperCamel v.ident)
    (h : parseEnum E T attrs ident gens vs = .ok (.enum e)) :
    (e.variants.map fun v => some v.id.renamed) =
      (vs.filter fun v => !isSkipped v.attrs T).map (variantName? E (serdeRenameAll E attrs)) := by
  refine mapM'_map_mem _ _ _ _ _ ?_ (parseEnum_variants E T attrs ident gens vs e h)
  intro v hv rv hrv
  have hv' : v ∈ vs := (List.mem_filter.1 hv).1
  exact (getIdent_variant E hU v (hs v hv') _ rv.id (parseVariant_id E T _ v rv hrv)).1

/-- the identifiers of the parsed variants are the source identifiers (no `r#` to strip) -/
theorem parseEnum_originals (E : Ext) (hU : E.U.AsciiCorrect) (T : List Str) (attrs : List Attr) (ident : Str)
    (gens : List GenericParam) (vs : List Variant) (e : RustEnum)
    (hs : ∀ v ∈ vs, C16.UpperCamel v.ident)
    (h : parseEnum E T attrs ident gens vs = .ok (.enum e)) :
    e.variants.map (·.id.original) = (vs.filter fun v => !isSkipped v.attrs T).map (·.ident) := by
  refine mapM'_map_mem _ _ _ _ _ ?_ (parseEnum_variants E T attrs ident gens vs e h)
  intro v hv rv hrv
  have hv' : v ∈ vs := (List.mem_filter.1 hv).1
  exact (getIdent_variant E hU v (hs v hv') _ rv.id (parseVariant_id E T _ v rv hrv)).2

/-- a parsed in-scope source enum is in the scope of the back-end half -/
theorem parseEnum_inScope (E : Ext) (hU : E.U.AsciiCorrect) (T : List Str) (attrs : List Attr) (ident : Str)
    (gens : List GenericParam) (vs : List Variant) (e : RustEnum)
    (hs : ∀ v ∈ vs, C16.UpperCamel v.ident) (hd : (vs.map (·.ident)).Nodup)
    (h : parseEnum E T attrs ident gens vs = .ok (.enum e)) : InScopeEnum e := by
  have ho := parseEnum_originals E hU T attrs ident gens vs e hs h
  constructor
  · intro rv hrv
    have : rv.id.original ∈ e.variants.map (·.id.original) := List.mem_map.2 ⟨rv, hrv, rfl⟩
    rw [ho] at this
    obtain ⟨v, hv, hveq⟩ := List.mem_map.1 this
    rw [← hveq]
    exact hs v (List.mem_filter.1 hv).1
  · rw [ho]
    exact List.Pairwise.sublist (List.Sublist.map _ List.filter_sublist) hd

end TsV.C02
