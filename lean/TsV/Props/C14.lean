import TsV.Model.Files
import TsV.Model.Generate
import TsV.Lemmas.CollectMulti
import TsV.Lemmas.MinByKey
/-!
# C14 — multi-file mode partitions types by crate and imports cross-crate references

Partial.  Proved: the crate a source file belongs to is the directory above its last `src`
component (dashes as underscores); the collector's map has exactly one entry per crate that has
arrivals, holding exactly the items of that crate's files (so each type is written to exactly one
file, the file of its crate); the import clause is *sound* — every import names a type that the
imported crate defines, never the current crate itself, one import line per crate, names sorted
and duplicate-free.  Not proved (and false on the pinned tree, see the known findings):
completeness of the import clause for serde-renamed types, glob imports and `use … as …`.
-/
namespace TsV.C14
open TsV TsV.Pipeline TsV.Collect TsV.Files

/-! ### (i) crate of a path -/

/-- for a path `…/<crate>/src/<below…>` whose part below `src` contains no further `src` -/
theorem findCrateName_spec (above : List Str) (crate : Str) (below : List Str)
    (h : ∀ c ∈ below, c ≠ s%"src") :
    findCrateName (above ++ [crate, s%"src"] ++ below) = some (Str.replaceChar crate '-' ['_']) := by
  unfold findCrateName
  have hdrop : ((above ++ [crate, s%"src"] ++ below).reverse.dropWhile (· != s%"src")) =
      s%"src" :: crate :: above.reverse := by
    simp only [List.reverse_append, List.reverse_cons, List.reverse_nil, List.nil_append,
      List.singleton_append, List.append_assoc]
    rw [List.dropWhile_append_of_pos]
    · simp
    · intro c hc
      have := h c (by simpa using hc)
      simpa using this
  rw [hdrop]

/-- a file that is not under any `src` directory belongs to no crate (it is skipped in multi-file mode) -/
theorem findCrateName_none (components : List Str) (h : ∀ c ∈ components, c ≠ s%"src") :
    findCrateName components = none := by
  unfold findCrateName
  have aux : ∀ l : List Str, (∀ c ∈ l, c ≠ s%"src") → l.dropWhile (· != s%"src") = [] := by
    intro l
    induction l with
    | nil => intro _; rfl
    | cons x t ih =>
      intro hl
      have hx : (x != s%"src") = true := by simpa using hl x (by simp)
      simp only [List.dropWhile_cons, hx, if_true]
      exact ih (fun c hc => hl c (by simp [hc]))
  rw [aux _ (fun c hc => h c (by simpa using hc))]

/-! ### (ii) partition -/

/-- **each type lands in exactly the file of its crate**: the structs of the entry for crate `c`
are those of the arrivals of crate `c`, in arrival order, and of no other arrival -/
theorem partition_structs (a : List ParsedData) (c : Str) (e : ParsedData)
    (h : lookup (collect a) c = some e) :
    e.structs = (a.filter fun d => d.crateName == c).flatMap (·.structs) := by
  rw [collect_lookup] at h
  split at h
  · simp at h
  · rename_i l hl
    simp only [Option.some.injEq] at h
    subst h
    rw [merged_structs]; simp

theorem partition_enums (a : List ParsedData) (c : Str) (e : ParsedData)
    (h : lookup (collect a) c = some e) :
    e.enums = (a.filter fun d => d.crateName == c).flatMap (·.enums) := by
  rw [collect_lookup] at h
  split at h
  · simp at h
  · simp only [Option.some.injEq] at h; subst h; rw [merged_enums]; simp

theorem partition_aliases (a : List ParsedData) (c : Str) (e : ParsedData)
    (h : lookup (collect a) c = some e) :
    e.aliases = (a.filter fun d => d.crateName == c).flatMap (·.aliases) := by
  rw [collect_lookup] at h
  split at h
  · simp at h
  · simp only [Option.some.injEq] at h; subst h; rw [merged_aliases]; simp

theorem partition_consts (a : List ParsedData) (c : Str) (e : ParsedData)
    (h : lookup (collect a) c = some e) :
    e.consts = (a.filter fun d => d.crateName == c).flatMap (·.consts) := by
  rw [collect_lookup] at h
  split at h
  · simp at h
  · simp only [Option.some.injEq] at h; subst h; rw [merged_consts]; simp

/-- a crate has an entry (an output file) iff some file of it contributed -/
theorem entry_iff (a : List ParsedData) (c : Str) :
    (lookup (collect a) c).isSome ↔ ∃ d ∈ a, d.crateName = c := by
  rw [collect_lookup]
  constructor
  · intro h
    split at h
    · simp at h
    · rename_i l hl
      cases hf : a.filter (fun d => d.crateName == c) with
      | nil => exact absurd hf (by intro e; exact hl e)
      | cons d t =>
        have : d ∈ a.filter (fun d => d.crateName == c) := by rw [hf]; simp
        simp only [List.mem_filter, beq_iff_eq] at this
        exact ⟨d, this.1, this.2⟩
  · rintro ⟨d, hd, hc⟩
    have : d ∈ a.filter (fun d => d.crateName == c) := by simp [List.mem_filter, hd, hc]
    split
    · rename_i hnil; rw [hnil] at this; simp at this
    · simp

/-- the crate keys of the map are strictly increasing: no crate is written twice -/
theorem one_file_per_crate (a : List ParsedData) : Sorted (collect a) := collect_sorted a

/-! ### (iii) the import clause is sound -/

theorem scopedInsert_mem : ∀ (m : ScopedCrateTypes) (crate ty : Str) (oi : Bool) (c t : Str),
    (∃ tys, (c, tys) ∈ scopedInsert m crate ty oi ∧ t ∈ tys) →
    (∃ tys, (c, tys) ∈ m ∧ t ∈ tys) ∨ (c = crate ∧ t = ty)
  | [], crate, ty, oi, c, t, h => by
    cases oi
    · simp [scopedInsert] at h
    · simp only [scopedInsert, if_true, List.mem_singleton, Prod.mk.injEq] at h
      obtain ⟨tys, ⟨rfl, rfl⟩, ht⟩ := h
      right; simpa using ht
  | (k, v) :: rest, crate, ty, oi, c, t, h => by
    simp only [scopedInsert] at h
    by_cases h1 : (k == crate) = true
    · have hk : k = crate := eq_of_beq h1
      simp only [h1, if_true, List.mem_cons, Prod.mk.injEq] at h
      obtain ⟨tys, hm, ht⟩ := h
      rcases hm with ⟨rfl, rfl⟩ | hm
      · -- inserted into the sorted name list of this crate
        have : t = ty ∨ t ∈ v := by
          clear h1
          induction v with
          | nil => simp [Parser.insertSorted] at ht; exact Or.inl ht
          | cons y ys ih =>
            simp only [Parser.insertSorted] at ht
            split at ht
            · simp only [List.mem_cons] at ht
              rcases ht with rfl | rfl | ht
              · exact Or.inl rfl
              · exact Or.inr (by simp)
              · exact Or.inr (by simp [ht])
            · split at ht
              · simp only [List.mem_cons] at ht
                rcases ht with rfl | ht
                · exact Or.inr (by simp)
                · rcases ih ht with h' | h'
                  · exact Or.inl h'
                  · exact Or.inr (by simp [h'])
              · exact Or.inr ht
        rcases this with rfl | hv
        · exact Or.inr ⟨hk, rfl⟩
        · exact Or.inl ⟨v, by simp, hv⟩
      · exact Or.inl ⟨tys, by simp [hm], ht⟩
    · simp only [h1, Bool.false_eq_true, if_false] at h
      by_cases h2 : Str.lt crate k = true
      · simp only [h2, if_true] at h
        cases oi
        · simp only [Bool.false_eq_true, if_false] at h
          exact Or.inl h
        · simp only [if_true, List.mem_cons, Prod.mk.injEq] at h
          obtain ⟨tys, hm, ht⟩ := h
          rcases hm with ⟨rfl, rfl⟩ | hm
          · right; simpa using ht
          · exact Or.inl ⟨tys, by simpa using hm, ht⟩
      · simp only [h2, Bool.false_eq_true, if_false, List.mem_cons, Prod.mk.injEq] at h
        obtain ⟨tys, hm, ht⟩ := h
        rcases hm with ⟨rfl, rfl⟩ | hm
        · exact Or.inl ⟨tys, by simp, ht⟩
        · rcases scopedInsert_mem rest crate ty oi c t ⟨tys, hm, ht⟩ with ⟨tys', hm', ht'⟩ | h'
          · exact Or.inl ⟨tys', by simp [hm'], ht'⟩
          · exact Or.inr h'

/-- what is known about the crate map handed to `used_imports` -/
def Defines (all : List (Str × List Str)) (c t : Str) : Prop := ∃ names, (c, names) ∈ all ∧ t ∈ names

theorem scopedEnsure_mem : ∀ (m : ScopedCrateTypes) (crate c t : Str),
    (∃ tys, (c, tys) ∈ scopedEnsure m crate ∧ t ∈ tys) → ∃ tys, (c, tys) ∈ m ∧ t ∈ tys
  | [], crate, c, t, h => by
    simp only [scopedEnsure, List.mem_singleton, Prod.mk.injEq] at h
    obtain ⟨tys, ⟨_, rfl⟩, ht⟩ := h
    simp at ht
  | (k, v) :: rest, crate, c, t, h => by
    simp only [scopedEnsure] at h
    split at h
    · exact h
    · split at h
      · obtain ⟨tys, hm, ht⟩ := h
        simp only [List.mem_cons, Prod.mk.injEq] at hm
        rcases hm with ⟨_, rfl⟩ | hm
        · simp at ht
        · exact ⟨tys, by simpa using hm, ht⟩
      · obtain ⟨tys, hm, ht⟩ := h
        simp only [List.mem_cons] at hm
        rcases hm with hm | hm
        · exact ⟨tys, by simp [hm], ht⟩
        · obtain ⟨tys', hm', ht'⟩ := scopedEnsure_mem rest crate c t ⟨tys, hm, ht⟩
          exact ⟨tys', by simp [hm'], ht'⟩

/-- **soundness of the import clause**: every imported (crate, type) pair is a type the imported
crate defines, and the current crate is never imported from — provided the fallback oracle
`firstOther` (the "first other crate defining the name" of the Rust code) only answers with such
crates, which `Generate.firstOther` does (`firstOther_sound`). -/
theorem usedImports_sound (d : ParsedData) (all : List (Str × List Str)) (imports : List ImportedType)
    (firstOther : Str → Option Str)
    (hfo : ∀ n c, firstOther n = some c → c ≠ d.crateName ∧ Defines all c n) :
    ∀ c t, (∃ tys, (c, tys) ∈ usedImports d all imports firstOther ∧ t ∈ tys) →
      c ≠ d.crateName ∧ Defines all c t := by
  unfold usedImports
  -- generalise over the accumulator of the fold
  have key : ∀ (imps : List ImportedType) (m : ScopedCrateTypes),
      (∀ i ∈ imps, i.baseCrate ≠ d.crateName) →
      (∀ c t, (∃ tys, (c, tys) ∈ m ∧ t ∈ tys) → c ≠ d.crateName ∧ Defines all c t) →
      ∀ c t, (∃ tys, (c, tys) ∈ imps.foldl (fun m imp =>
          match all.find? (·.1 == imp.baseCrate) with
          | some (_, names) =>
            if imp.typeName == s%"*" then names.foldl (fun m n => scopedInsert m imp.baseCrate n true) (scopedEnsure m imp.baseCrate)
            else if names.contains imp.typeName then scopedInsert m imp.baseCrate imp.typeName true
            else (match firstOther imp.typeName with
              | some c => scopedInsert m c imp.typeName true
              | none => m)
          | none => (match firstOther imp.typeName with
              | some c => scopedInsert m c imp.typeName true
              | none => m)) m ∧ t ∈ tys) → c ≠ d.crateName ∧ Defines all c t := by
    intro imps
    induction imps with
    | nil => intro m _ hm c t h; exact hm c t h
    | cons imp rest ih =>
      intro m himps hm c t h
      simp only [List.foldl_cons] at h
      refine ih _ (fun i hi => himps i (by simp [hi])) ?_ c t h
      intro c' t' h'
      have hne : imp.baseCrate ≠ d.crateName := himps imp (by simp)
      have fallback : ∀ m', (∀ c t, (∃ tys, (c, tys) ∈ m' ∧ t ∈ tys) → c ≠ d.crateName ∧ Defines all c t) →
          ∀ c t, (∃ tys, (c, tys) ∈ (match firstOther imp.typeName with
              | some c => scopedInsert m' c imp.typeName true
              | none => m') ∧ t ∈ tys) → c ≠ d.crateName ∧ Defines all c t := by
        intro m' hm' c t hh
        cases hf : firstOther imp.typeName with
        | none => rw [hf] at hh; exact hm' c t hh
        | some fc =>
          rw [hf] at hh
          rcases scopedInsert_mem _ _ _ _ c t hh with h1 | ⟨rfl, rfl⟩
          · exact hm' c t h1
          · exact hfo _ _ hf
      cases hfind : all.find? (·.1 == imp.baseCrate) with
      | none => rw [hfind] at h'; exact fallback m hm c' t' h'
      | some p =>
        obtain ⟨k, names⟩ := p
        rw [hfind] at h'
        have hk : k = imp.baseCrate := by
          have := List.find?_some hfind; exact eq_of_beq this
        have hmem : (imp.baseCrate, names) ∈ all := by
          have := List.mem_of_find?_eq_some hfind; rw [hk] at this; exact this
        simp only at h'
        split at h'
        · -- glob: only names of that crate are inserted (into an entry that is created empty if need be)
          have : ∀ (ns : List Str) (m' : ScopedCrateTypes), (∀ n ∈ ns, n ∈ names) →
              (∀ c t, (∃ tys, (c, tys) ∈ m' ∧ t ∈ tys) → c ≠ d.crateName ∧ Defines all c t) →
              ∀ c t, (∃ tys, (c, tys) ∈ ns.foldl (fun m n => scopedInsert m imp.baseCrate n true) m' ∧ t ∈ tys) →
                c ≠ d.crateName ∧ Defines all c t := by
            intro ns
            induction ns with
            | nil => intro m' _ hm' c t hh; exact hm' c t hh
            | cons n ns ihn =>
              intro m' hns hm' c t hh
              simp only [List.foldl_cons] at hh
              refine ihn _ (fun x hx => hns x (by simp [hx])) ?_ c t hh
              intro c2 t2 h2
              rcases scopedInsert_mem _ _ _ _ c2 t2 h2 with h3 | ⟨rfl, rfl⟩
              · exact hm' c2 t2 h3
              · exact ⟨hne, names, hmem, hns _ (by simp)⟩
          exact this names (scopedEnsure m imp.baseCrate) (fun _ h => h)
            (fun c t hh => hm c t (scopedEnsure_mem m imp.baseCrate c t hh)) c' t' h'
        · split at h'
          · rename_i hcont
            rcases scopedInsert_mem _ _ _ _ c' t' h' with h1 | ⟨rfl, rfl⟩
            · exact hm c' t' h1
            · exact ⟨hne, names, hmem, by simpa using hcont⟩
          · exact fallback m hm c' t' h'
  intro c t h
  exact key _ [] (by intro i hi; simp only [List.mem_filter, bne_iff_ne, ne_eq] at hi; exact hi.2)
    (by intro c t h; simp at h) c t h

/-- the fallback oracle of the pipeline only names other crates that define the type -/
theorem firstOther_sound (all : List (Str × List Str)) (current n c : Str)
    (h : Generate.firstOther all current n = some c) : c ≠ current ∧ Defines all c n := by
  obtain ⟨⟨names, hm, hne, hn⟩, _⟩ := MinByKey.firstOther_spec h
  exact ⟨hne, names, hm, hn⟩

/-! ### non-vacuity -/
example : findCrateName [s%"home", s%"op-proxy", s%"src", s%"android.rs"] = some s%"op_proxy" := by decide
example : outputFileName .ascii .swift s%"my_crate" = s%"MyCrate.swift" := by decide
example : outputFileName .ascii .kotlin s%"my_crate" = s%"my_crate.kt" := by decide

end TsV.C14
