//! Correspondence runner: answers JSON-line requests with the real typeshare code, in-process.
//! One request per input line, one JSON answer per output line. Every request runs inside
//! `catch_unwind`; a panic is reported as `{"panic": "<file>:<line>"}`.
mod ast;
#[allow(dead_code)]
mod serde_case;

use serde_json::{json, Value};
use std::cell::RefCell;
use std::collections::{BTreeMap, HashMap};
use std::io::{BufRead, Write};
use std::panic::{catch_unwind, AssertUnwindSafe};
use typeshare::{I54, U53};
use typeshare_core::context::{ParseContext, ParseFileContext};
use typeshare_core::language::{
    CrateName, CrateTypes, GenericConstraints, Go, Kotlin, Language, Python, Scala, Swift,
    TypeScript,
};
use typeshare_core::parser::{ParseError, ParsedData};
use typeshare_core::rust_types::*;
use typeshare_core::{verif_hooks, RenameExt};

thread_local! {
    static LAST_PANIC: RefCell<String> = RefCell::new(String::new());
}

fn s(v: &Value, k: &str) -> String {
    v.get(k).and_then(|x| x.as_str()).unwrap_or("").to_string()
}
fn strs(v: &Value, k: &str) -> Vec<String> {
    v.get(k)
        .and_then(|x| x.as_array())
        .map(|a| {
            a.iter()
                .map(|x| x.as_str().unwrap_or("").to_string())
                .collect()
        })
        .unwrap_or_default()
}
fn strmap(v: Option<&Value>) -> HashMap<String, String> {
    v.and_then(|x| x.as_object())
        .map(|o| {
            o.iter()
                .map(|(k, v)| (k.clone(), v.as_str().unwrap_or("").to_string()))
                .collect()
        })
        .unwrap_or_default()
}
fn int(v: &Value, k: &str) -> i128 {
    match v.get(k) {
        Some(Value::String(s)) => s.parse().unwrap(),
        Some(Value::Number(n)) => n.to_string().parse().unwrap(),
        _ => panic!("missing int {k}"),
    }
}
fn usizes(v: &Value) -> Vec<usize> {
    v.as_array()
        .map(|a| a.iter().map(|x| x.as_u64().unwrap() as usize).collect())
        .unwrap_or_default()
}

fn ok_int(r: Result<i128, ()>) -> Value {
    match r {
        Ok(n) => json!({"ok": n.to_string()}),
        Err(()) => json!({"err": "range"}),
    }
}

fn op_int(req: &Value) -> Value {
    let f = s(req, "f");
    let n = int(req, "n");
    match f.as_str() {
        "u53try" => ok_int(
            U53::try_from(n as u64)
                .map(|v| u64::from(v) as i128)
                .map_err(|_| ()),
        ),
        "i54try" => ok_int(
            I54::try_from(n as i64)
                .map(|v| i64::from(v) as i128)
                .map_err(|_| ()),
        ),
        "u53json" => ok_int(
            serde_json::from_str::<U53>(&n.to_string())
                .map(|v| {
                    // and back to JSON: must print the same integer
                    let back = serde_json::to_string(&v).unwrap();
                    back.parse::<i128>().unwrap()
                })
                .map_err(|_| ()),
        ),
        "i54json" => ok_int(
            serde_json::from_str::<I54>(&n.to_string())
                .map(|v| serde_json::to_string(&v).unwrap().parse::<i128>().unwrap())
                .map_err(|_| ()),
        ),
        "f64" => {
            // through an IEEE double and back (exact: every double in this range is an integer)
            let d = if n >= 0 { (n as u64) as f64 } else { (n as i64) as f64 };
            json!({"ok": (d as i128).to_string()})
        }
        "usizesat" => {
            let v = U53::try_from(n as u64).unwrap();
            json!({"ok": (typeshare::usize_from_u53_saturated(v) as u128).to_string()})
        }
        "u53narrow" => {
            let bits = int(req, "bits");
            let v = U53::try_from(n as u64).unwrap();
            ok_int(match bits {
                8 => u8::try_from(v).map(|x| x as i128).map_err(|_| ()),
                16 => u16::try_from(v).map(|x| x as i128).map_err(|_| ()),
                32 => u32::try_from(v).map(|x| x as i128).map_err(|_| ()),
                _ => panic!("bits"),
            })
        }
        "i54narrow" => {
            let bits = int(req, "bits");
            let v = I54::try_from(n as i64).unwrap();
            ok_int(match bits {
                8 => i8::try_from(v).map(|x| x as i128).map_err(|_| ()),
                16 => i16::try_from(v).map(|x| x as i128).map_err(|_| ()),
                32 => i32::try_from(v).map(|x| x as i128).map_err(|_| ()),
                _ => panic!("bits"),
            })
        }
        "u53widen" => {
            let bits = int(req, "bits");
            let v: U53 = match bits {
                8 => U53::from(n as u8),
                16 => U53::from(n as u16),
                32 => U53::from(n as u32),
                _ => panic!("bits"),
            };
            json!({"ok": (u64::from(v) as i128).to_string()})
        }
        "i54widen" => {
            let bits = int(req, "bits");
            let v: I54 = match bits {
                8 => I54::from(n as i8),
                16 => I54::from(n as i16),
                32 => I54::from(n as i32),
                _ => panic!("bits"),
            };
            json!({"ok": (i64::from(v) as i128).to_string()})
        }
        "u53cmp" => {
            let m = int(req, "m");
            let a = U53::try_from(n as u64).unwrap();
            let b = U53::try_from(m as u64).unwrap();
            json!({"ok": [a < b, a == b, a > b, a == (m as u64), a < (m as u64)]})
        }
        "i54cmp" => {
            let m = int(req, "m");
            let a = I54::try_from(n as i64).unwrap();
            let b = I54::try_from(m as i64).unwrap();
            json!({"ok": [a < b, a == b, a > b, a == (m as i64), a < (m as i64)]})
        }
        // mixed comparison of an in-range value with an arbitrary raw u64 / i64
        "u53cmpraw" => {
            let m = int(req, "m") as u64;
            let a = U53::try_from(n as u64).unwrap();
            json!({"ok": [a < m, a == m, a > m, a <= m, a >= m]})
        }
        "i54cmpraw" => {
            let m = int(req, "m") as i64;
            let a = I54::try_from(n as i64).unwrap();
            json!({"ok": [a < m, a == m, a > m, a <= m, a >= m]})
        }
        _ => json!({"bad-request": "int"}),
    }
}

fn op_unicode(req: &Value) -> Value {
    let chars = s(req, "chars");
    let rows: Vec<Value> = chars
        .chars()
        .map(|c| {
            json!([
                c.to_string(),
                c.is_uppercase(),
                c.is_lowercase(),
                c.to_string().to_lowercase(),
                c.to_string().to_uppercase(),
                c.is_whitespace()
            ])
        })
        .collect();
    json!({ "ok": rows })
}

fn serde_rule(name: &str) -> Option<serde_case::RenameRule> {
    serde_case::RenameRule::from_str(name).ok()
}

fn op_serde(req: &Value) -> Value {
    let Some(rule) = serde_rule(&s(req, "rule")) else {
        return json!({"err": "unknown-rule"});
    };
    let text = s(req, "s");
    let out = match s(req, "pos").as_str() {
        "field" => rule.apply_to_field(&text),
        _ => rule.apply_to_variant(&text),
    };
    json!({ "ok": out })
}

fn op_rename(req: &Value) -> Value {
    let rule = req.get("rule").and_then(|r| r.as_str()).map(String::from);
    json!({"ok": verif_hooks::rename_all_to_case(s(req, "s"), &rule)})
}

fn op_renameext(req: &Value) -> Value {
    let text = s(req, "s");
    let out = match s(req, "f").as_str() {
        "camel" => text.to_camel_case(),
        "pascal" => text.to_pascal_case(),
        "snake" => text.to_snake_case(),
        "screaming_snake" => text.to_screaming_snake_case(),
        "kebab" => text.to_kebab_case(),
        "screaming_kebab" => text.to_screaming_kebab_case(),
        _ => return json!({"bad-request": "renameext"}),
    };
    json!({ "ok": out })
}

// ---------------------------------------------------------------- ParsedData -> JSON

fn j_id(id: &Id) -> Value {
    json!({"o": id.original, "r": id.renamed, "s": id.serde_rename})
}

fn j_type(t: &RustType) -> Value {
    match t {
        RustType::Simple { id } => json!({ "S": id }),
        RustType::Generic { id, parameters } => {
            json!({"G": id, "p": parameters.iter().map(j_type).collect::<Vec<_>>()})
        }
        RustType::Special(sp) => match sp {
            SpecialRustType::Vec(a) => json!({"Sp": "Vec", "a": [j_type(a)]}),
            SpecialRustType::Array(a, n) => json!({"Sp": "Array", "a": [j_type(a)], "n": n}),
            SpecialRustType::Slice(a) => json!({"Sp": "Slice", "a": [j_type(a)]}),
            SpecialRustType::HashMap(k, v) => json!({"Sp": "HashMap", "a": [j_type(k), j_type(v)]}),
            SpecialRustType::Option(a) => json!({"Sp": "Option", "a": [j_type(a)]}),
            other => json!({"Sp": other.id()}),
        },
    }
}

fn j_decorators(d: &DecoratorMap) -> Value {
    let mut m = BTreeMap::new();
    for (k, v) in d {
        let name = format!("{k:?}");
        m.insert(name, v.iter().cloned().collect::<Vec<_>>());
    }
    json!(m)
}

fn j_field_decorators(
    d: &HashMap<typeshare_core::language::SupportedLanguage, std::collections::BTreeSet<FieldDecorator>>,
) -> Value {
    let mut m = BTreeMap::new();
    for (k, v) in d {
        let name = format!("{k:?}");
        let items: Vec<Value> = v
            .iter()
            .map(|fd| match fd {
                FieldDecorator::Word(w) => json!(["w", w]),
                FieldDecorator::NameValue(n, v) => json!(["nv", n, v]),
            })
            .collect();
        m.insert(name, items);
    }
    json!(m)
}

fn j_field(f: &RustField) -> Value {
    json!({"id": j_id(&f.id), "ty": j_type(&f.ty), "comments": f.comments,
           "has_default": f.has_default, "decorators": j_field_decorators(&f.decorators)})
}

fn j_struct(st: &RustStruct) -> Value {
    json!({"id": j_id(&st.id), "generic_types": st.generic_types,
           "fields": st.fields.iter().map(j_field).collect::<Vec<_>>(),
           "comments": st.comments, "decorators": j_decorators(&st.decorators),
           "is_redacted": st.is_redacted})
}

fn j_variant(v: &RustEnumVariant) -> Value {
    match v {
        RustEnumVariant::Unit(sh) => {
            json!({"kind": "unit", "id": j_id(&sh.id), "comments": sh.comments})
        }
        RustEnumVariant::Tuple { ty, shared } => {
            json!({"kind": "tuple", "id": j_id(&shared.id), "comments": shared.comments, "ty": j_type(ty)})
        }
        RustEnumVariant::AnonymousStruct { fields, shared } => {
            json!({"kind": "struct", "id": j_id(&shared.id), "comments": shared.comments,
                   "fields": fields.iter().map(j_field).collect::<Vec<_>>()})
        }
    }
}

fn j_enum(e: &RustEnum) -> Value {
    let sh = e.shared();
    let (kind, tag, content) = match e {
        RustEnum::Unit(_) => ("unit", Value::Null, Value::Null),
        RustEnum::Algebraic {
            tag_key,
            content_key,
            ..
        } => ("alg", json!(tag_key), json!(content_key)),
    };
    json!({"kind": kind, "tag": tag, "content": content, "id": j_id(&sh.id),
           "generic_types": sh.generic_types, "comments": sh.comments,
           "variants": sh.variants.iter().map(j_variant).collect::<Vec<_>>(),
           "decorators": j_decorators(&sh.decorators),
           "is_recursive": sh.is_recursive, "is_redacted": sh.is_redacted})
}

fn j_alias(a: &RustTypeAlias) -> Value {
    json!({"id": j_id(&a.id), "generic_types": a.generic_types, "ty": j_type(&a.r#type),
           "comments": a.comments, "decorators": j_decorators(&a.decorators),
           "is_redacted": a.is_redacted})
}

fn j_const(c: &RustConst) -> Value {
    let RustConstExpr::Int(n) = &c.expr;
    json!({"id": j_id(&c.id), "ty": j_type(&c.r#type), "expr": n.to_string()})
}

fn err_kind(e: &ParseError) -> String {
    match e {
        ParseError::SynError(_) => "SynError".into(),
        ParseError::RustTypeParseError(r) => match r {
            RustTypeParseError::UnsupportedType(_) => "UnsupportedType".into(),
            RustTypeParseError::UnexpectedToken(_) => "UnexpectedToken".into(),
            RustTypeParseError::UnexpectedParameterizedTuple => {
                "UnexpectedParameterizedTuple".into()
            }
            RustTypeParseError::NumericLiteral(_) => "NumericLiteral".into(),
        },
        ParseError::UnsupportedLanguage(_) => "UnsupportedLanguage".into(),
        ParseError::UnsupportedType(_) => "UnsupportedTypeP".into(),
        ParseError::ComplexTupleStruct => "ComplexTupleStruct".into(),
        ParseError::MultipleUnnamedAssociatedTypes => "MultipleUnnamedAssociatedTypes".into(),
        ParseError::SerdeTagNotAllowed { .. } => "SerdeTagNotAllowed".into(),
        ParseError::SerdeContentNotAllowed { .. } => "SerdeContentNotAllowed".into(),
        ParseError::SerdeTagRequired { .. } => "SerdeTagRequired".into(),
        ParseError::SerdeContentRequired { .. } => "SerdeContentRequired".into(),
        ParseError::RustConstExprInvalid => "RustConstExprInvalid".into(),
        ParseError::RustConstTypeInvalid => "RustConstTypeInvalid".into(),
        ParseError::SerdeFlattenNotAllowed => "SerdeFlattenNotAllowed".into(),
        ParseError::IOError(_) => "IOError".into(),
    }
}

fn j_parsed(d: &ParsedData) -> Value {
    let mut imports: Vec<(String, String)> = d
        .import_types
        .iter()
        .map(|i| (i.base_crate.to_string(), i.type_name.clone()))
        .collect();
    imports.sort();
    let mut names: Vec<String> = d.type_names.iter().cloned().collect();
    names.sort();
    json!({
        "structs": d.structs.iter().map(j_struct).collect::<Vec<_>>(),
        "enums": d.enums.iter().map(j_enum).collect::<Vec<_>>(),
        "aliases": d.aliases.iter().map(j_alias).collect::<Vec<_>>(),
        "consts": d.consts.iter().map(j_const).collect::<Vec<_>>(),
        "import_types": imports,
        "type_names": names,
        "errors": d.errors.iter().map(|e| json!([err_kind(&e.error), e.file_name])).collect::<Vec<_>>(),
        "crate_name": d.crate_name.to_string(),
        "file_name": d.file_name,
        "multi_file": d.multi_file,
    })
}

fn parse_one(req: &Value, file: &Value) -> Result<Option<ParsedData>, ParseError> {
    let ignored = strs(req, "ignored_types");
    let ctx = ParseContext {
        ignored_types: ignored.iter().map(|x| x.as_str()).collect(),
        multi_file: req.get("multi_file").and_then(|b| b.as_bool()).unwrap_or(false),
        target_os: strs(req, "target_os"),
    };
    let fctx = ParseFileContext {
        source_code: s(file, "src"),
        crate_name: CrateName::from(s(file, "crate")),
        file_name: s(file, "file_name"),
        file_path: s(file, "path").into(),
    };
    typeshare_core::parser::parse(&ctx, fctx)
}

fn op_parse(req: &Value) -> Value {
    match parse_one(req, req) {
        Ok(Some(d)) => json!({"ok": j_parsed(&d)}),
        Ok(None) => json!({"ok": null}),
        Err(e) => json!({"err": err_kind(&e)}),
    }
}

// ---------------------------------------------------------------- generation

fn make_language(req: &Value, multi_file: bool) -> Box<dyn Language> {
    let cfg = req.get("config").cloned().unwrap_or(json!({}));
    let tm = strmap(cfg.get("type_mappings"));
    let header = cfg
        .get("version_header")
        .and_then(|b| b.as_bool())
        .unwrap_or(false);
    match s(req, "lang").as_str() {
        "typescript" => Box::new(TypeScript {
            type_mappings: tm,
            no_version_header: !header,
            ..Default::default()
        }),
        "kotlin" => Box::new(Kotlin {
            package: s(&cfg, "package"),
            module_name: s(&cfg, "module_name"),
            prefix: s(&cfg, "prefix"),
            type_mappings: tm,
            no_version_header: !header,
            // further state a change of the back end may add keeps its default
            ..Default::default()
        }),
        "swift" => Box::new(Swift {
            prefix: s(&cfg, "prefix"),
            type_mappings: tm,
            default_decorators: strs(&cfg, "default_decorators"),
            default_generic_constraints: GenericConstraints::from_config(strs(
                &cfg,
                "default_generic_constraints",
            )),
            multi_file,
            codablevoid_constraints: strs(&cfg, "codablevoid_constraints"),
            no_version_header: !header,
            ..Default::default()
        }),
        "scala" => Box::new(Scala {
            package: s(&cfg, "package"),
            module_name: s(&cfg, "module_name"),
            type_mappings: tm,
            no_version_header: !header,
            ..Default::default()
        }),
        "go" => Box::new(Go {
            package: s(&cfg, "package"),
            type_mappings: tm,
            uppercase_acronyms: strs(&cfg, "uppercase_acronyms"),
            no_pointer_slice: cfg
                .get("no_pointer_slice")
                .and_then(|b| b.as_bool())
                .unwrap_or(false),
            no_version_header: !header,
            ..Default::default()
        }),
        "python" => Box::new(Python {
            type_mappings: tm,
            no_version_header: !header,
            ..Default::default()
        }),
        other => panic!("unknown language {other}"),
    }
}

/// What `cli/src/main.rs::generate_types` does between the walker and the file system:
/// parse every file, fold per crate in the given order, reconcile, stop on errors, generate.
fn op_generate(req: &Value) -> Value {
    let multi_file = req.get("multi_file").and_then(|b| b.as_bool()).unwrap_or(false);
    let mut lang = make_language(req, multi_file);
    let mut req2 = req.clone();
    req2["ignored_types"] = json!(lang.ignored_reference_types());
    let mut crates: BTreeMap<CrateName, ParsedData> = BTreeMap::new();
    let empty = vec![];
    for file in req.get("files").and_then(|f| f.as_array()).unwrap_or(&empty) {
        match parse_one(&req2, file) {
            Ok(Some(d)) => {
                let name = d.crate_name.clone();
                *crates.entry(name).or_default() += d;
            }
            Ok(None) => {}
            Err(e) => return json!({"err": err_kind(&e)}),
        }
    }
    typeshare_core::reconcile::reconcile_aliases(&mut crates);
    let import_candidates: CrateTypes = if multi_file {
        let mut m: CrateTypes = HashMap::new();
        for (k, v) in crates.iter_mut() {
            m.entry(k.clone())
                .or_default()
                .extend(std::mem::take(&mut v.type_names));
        }
        m
    } else {
        HashMap::new()
    };
    let errors: Vec<Value> = crates
        .values()
        .flat_map(|d| d.errors.iter())
        .map(|e| json!([err_kind(&e.error), e.file_name]))
        .collect();
    if !errors.is_empty() {
        return json!({ "errors": errors });
    }
    if req.get("reconciled").and_then(|b| b.as_bool()).unwrap_or(false) {
        let m: BTreeMap<String, Value> = crates
            .iter()
            .map(|(k, v)| (k.to_string(), j_parsed(v)))
            .collect();
        return json!({ "ok": m });
    }
    let mut out = BTreeMap::new();
    for (name, data) in crates {
        let mut buf = Vec::new();
        if let Err(e) = lang.generate_types(&mut buf, &import_candidates, data) {
            return json!({"io-err": e.to_string()});
        }
        out.insert(name.to_string(), String::from_utf8_lossy(&buf).to_string());
    }
    if multi_file {
        // `post_generation` writes into the output folder (Swift: Codable.swift); report what it wrote
        let dir = std::env::temp_dir().join(format!("tsv-runner-post-{}", std::process::id()));
        let _ = std::fs::remove_dir_all(&dir);
        std::fs::create_dir_all(&dir).unwrap();
        let res = lang.post_generation(&dir.to_string_lossy());
        if let Ok(rd) = std::fs::read_dir(&dir) {
            for e in rd.flatten() {
                let content = std::fs::read(e.path()).unwrap_or_default();
                out.insert(
                    format!("<post>/{}", e.file_name().to_string_lossy()),
                    String::from_utf8_lossy(&content).to_string(),
                );
            }
        }
        let _ = std::fs::remove_dir_all(&dir);
        if let Err(e) = res {
            return json!({"io-err": e.to_string()});
        }
    }
    json!({ "ok": out })
}

fn op_format_type(req: &Value) -> Value {
    let mut lang = make_language(req, false);
    let ty: RustType = match s(req, "ty").parse() {
        Ok(t) => t,
        Err(e) => return json!({"err": err_kind(&ParseError::RustTypeParseError(e))}),
    };
    let generics = strs(req, "generics");
    match lang.format_type(&ty, &generics) {
        Ok(text) => json!({"ok": text, "ty": j_type(&ty)}),
        Err(e) => json!({"err": format!("{e:?}").split('(').next().unwrap_or("").to_string(), "ty": j_type(&ty)}),
    }
}

fn handle(req: &Value) -> Value {
    match s(req, "op").as_str() {
        "int" => op_int(req),
        "unicode" => op_unicode(req),
        "serde" => op_serde(req),
        "rename" => op_rename(req),
        "renameext" => op_renameext(req),
        "accept_os" => {
            match verif_hooks::accept_target_os(&s(req, "src"), &strs(req, "targets")) {
                Some(b) => json!({ "ok": b }),
                None => json!({"err": "syn"}),
            }
        }
        "toposort" => {
            let g: Vec<Vec<usize>> = req["graph"].as_array().unwrap().iter().map(usizes).collect();
            json!({"ok": verif_hooks::toposort_impl(&g)})
        }
        "sortidx" => {
            let mut data = usizes(&req["data"]);
            verif_hooks::sort_by_indices(&mut data, usizes(&req["idx"]));
            json!({ "ok": data })
        }
        "snake" => {
            use convert_case::{Case, Casing};
            let rows: Vec<Value> = strs(req, "strings")
                .iter()
                .map(|x| json!([x, x.to_case(Case::Snake)]))
                .collect();
            json!({ "ok": rows })
        }
        "crate_name" => {
            let p = req.get("path").and_then(|v| v.as_str()).unwrap_or("");
            match typeshare_core::language::CrateName::find_crate_name(std::path::Path::new(p)) {
                Some(c) => json!({ "ok": c.to_string() }),
                None => json!({ "ok": null }),
            }
        }
        "parse" => op_parse(req),
        "generate" => op_generate(req),
        "format_type" => op_format_type(req),
        "ast" => ast::op_ast(req),
        "ast_mutate" => ast::op_ast_mutate(req),
        "ast_items" => ast::op_ast_items(req),
        _ => json!({"bad-request": "op"}),
    }
}

fn main() {
    std::panic::set_hook(Box::new(|info| {
        let loc = info
            .location()
            .map(|l| {
                let f = l.file();
                let f = f.rsplit('/').next().unwrap_or(f);
                format!("{}:{}", f, l.line())
            })
            .unwrap_or_default();
        LAST_PANIC.with(|p| *p.borrow_mut() = loc);
    }));
    let stdin = std::io::stdin();
    let stdout = std::io::stdout();
    let mut out = std::io::BufWriter::new(stdout.lock());
    for line in stdin.lock().lines() {
        let Ok(line) = line else { break };
        if line.trim().is_empty() {
            continue;
        }
        let ans = match serde_json::from_str::<Value>(&line) {
            Ok(req) => match catch_unwind(AssertUnwindSafe(|| handle(&req))) {
                Ok(v) => v,
                Err(_) => json!({"panic": LAST_PANIC.with(|p| p.borrow().clone())}),
            },
            Err(_) => json!({"bad-request": "json"}),
        };
        writeln!(out, "{ans}").unwrap();
    }
    out.flush().unwrap();
}
