"""C11 — definitions are emitted exactly once each and after the definitions they use (topsort.rs)."""
import itertools
from common import *


def all_graphs(n):
    """every digraph on n nodes (self loops included), adjacency lists in ascending order"""
    pairs = [(i, j) for i in range(n) for j in range(n)]
    for mask in range(1 << len(pairs)):
        g = [[] for _ in range(n)]
        for b, (i, j) in enumerate(pairs):
            if mask >> b & 1:
                g[i].append(j)
        yield g


def acyclic(g):
    n = len(g)
    state = [0] * n

    def dfs(u):
        state[u] = 1
        for v in g[u]:
            if state[v] == 1 or (state[v] == 0 and not dfs(v)):
                return False
        state[u] = 2
        return True
    return all(state[u] == 2 or dfs(u) for u in range(n))


def rand_graph(rng, n, dag):
    g = [[] for _ in range(n)]
    order = list(range(n))
    rng.shuffle(order)
    pos = {v: i for i, v in enumerate(order)}
    p = rng.choice([0.1, 0.2, 0.4])
    for i in range(n):
        for j in range(n):
            if rng.random() < p and (not dag or pos[j] < pos[i]):
                g[i].append(j)
        rng.shuffle(g[i])
        if rng.random() < 0.2 and g[i]:
            g[i].append(rng.choice(g[i]))       # duplicate edge
    return g


def run(check):
    rng = check.rng
    nmax = 4 if check.thorough else 3
    graphs = [g for n in range(0, nmax + 1) for g in all_graphs(n)]
    n_ex = len(graphs)
    if not check.thorough:
        allg4 = list(itertools.islice(all_graphs(4), 0, None, 13))   # every 13th 4-node graph
        graphs += allg4
    for _ in range(20000 if check.thorough else 3000):
        graphs.append(rand_graph(rng, rng.randint(2, 12), dag=rng.random() < 0.5))
    perms = []
    for n in range(0, 7 if check.thorough else 6):
        perms += [list(p) for p in itertools.permutations(range(n))]
    for _ in range(5000 if check.thorough else 1000):
        n = rng.randint(7, 14)
        p = list(range(n))
        rng.shuffle(p)
        perms.append(p)
    check.rule = ("toposort_impl on every digraph with <= %d nodes (self loops, cycles; %d graphs)%s and random graphs "
                  "(DAGs and cyclic, duplicate edges, shuffled adjacency) to 12 nodes; sort_by_indices on every "
                  "permutation of <= %d elements and random ones to 14; non-trivial = the graph has an edge / the "
                  "permutation is not the identity" % (nmax, n_ex, "" if check.thorough else " plus every 13th 4-node graph", 6 if check.thorough else 5))
    mreq = [[S("toposort"), g] for g in graphs] + [[S("sortidx"), [100 + i for i in range(len(p))], p] for p in perms]
    rreq = [{"op": "toposort", "graph": g} for g in graphs] + \
           [{"op": "sortidx", "data": [100 + i for i in range(len(p))], "idx": p} for p in perms]
    mans, rans = model(mreq, with_unicode=False), runner(rreq)
    for i, (ma, ra, rq) in enumerate(zip(mans, rans, rreq)):
        if rq["op"] == "toposort":
            g = rq["graph"]
            check.saw(("g", json.dumps(g)), nontrivial=any(g))
            check.count("graph n=%d %s" % (len(g), "dag" if acyclic(g) else "cyclic"))
            if ma != ra:
                res = ra.get("ok")
                failing = None
                if res is None or sorted(res) != list(range(len(g))):
                    failing = "result is not a permutation of the nodes"
                elif acyclic(g):
                    posn = {v: k for k, v in enumerate(res)}
                    if any(posn[j] > posn[i] for i in range(len(g)) for j in g[i]):
                        failing = "a definition precedes one it depends on"
                check.violation("toposort_impl differs from the model" + (": " + failing if failing else ""),
                                case=rq, impl=ra, model=ma, failing_input=bool(failing),
                                broken=None if failing else "correspondence toposort_impl (theorems TsV.C11.toposort_*)")
        else:
            p, data = rq["idx"], rq["data"]
            check.saw(("p", tuple(p)), nontrivial=p != sorted(p))
            check.count("perm n=%d" % len(p))
            if ma != ra:
                want = [data[k] for k in p]
                failing = ra.get("ok") != want
                check.violation("sort_by_indices differs from the model", case=rq, impl=ra, model=ma,
                                failing_input=failing,
                                broken=None if failing else "correspondence sort_by_indices (theorems TsV.C11.sortByIndices_*)")
        if rng.random() < 0.0005:
            check.sample({"request": rq, "model": ma, "impl": ra})
    if not check.samples:
        check.sample({"request": rreq[5], "model": mans[5], "impl": rans[5]})
    check.exhaustive = True
    check.extra["exhaustive_scope"] = "digraphs with <= %d nodes; permutations of <= %d elements" % (nmax, 6 if check.thorough else 5)
