import TsV.Lemmas.C05
/-!
# C05 — unique readability of bracketed type expressions

A small term language (`Tm`): names, applications `name⟨a, b, …⟩`, tuples `[a, b, …]`, each carrying a
number of postfix marks (`?` in Kotlin, `[]` in TypeScript).  Its rendering is uniquely readable
(`ur`): equal texts come from equal terms.  TypeScript, Kotlin, Scala and Python type expressions
are renderings of such terms (`TsV.Lemmas.C05_Lossless`).
-/
namespace TsV.C05L.Inj
open TsV

/-- the characters that delimit names -/
def special (ch : Char) : Bool :=
  ch == '<' || ch == '>' || ch == '[' || ch == ']' || ch == ',' || ch == '?' || ch == ' ' || ch == ':' || ch == '*'

/-- a grammar: the application brackets and the postfix mark -/
structure Gr where
  o : Char
  c : Char
  p : Char          -- first character of the postfix mark
  ps : Str          -- its remaining characters

def Gr.post (g : Gr) : Str := g.p :: g.ps

structure Gr.OK (g : Gr) : Prop where
  o_sp : special g.o = true
  c_sp : special g.c = true
  p_sp : special g.p = true
  o_ne_comma : g.o ≠ ','
  o_ne_c : g.o ≠ g.c
  o_ne_rb : g.o ≠ ']'
  o_ne_p : g.o ≠ g.p
  c_ne_comma : g.c ≠ ','
  p_ne_comma : g.p ≠ ','
  p_ne_c : g.p ≠ g.c
  p_ne_rb : g.p ≠ ']'
  o_ne_colon : g.o ≠ ':'
  p_ne_colon : g.p ≠ ':'

inductive Tm where
  | leaf (n : Str) (k : Nat)
  | app (n : Str) (a : Tm) (as : List Tm) (k : Nat)
  | tup (a : Tm) (as : List Tm) (k : Nat)
  | dict (key val : Tm) (k : Nat)
deriving Inhabited

def posts (g : Gr) : Nat → Str
  | 0 => []
  | k + 1 => g.post ++ posts g k

mutual
  def render (g : Gr) : Tm → Str
    | .leaf n k => n ++ posts g k
    | .app n a as k => n ++ g.o :: (render g a ++ (renderTail g as ++ g.c :: posts g k))
    | .tup a as k => '[' :: (render g a ++ (renderTail g as ++ ']' :: posts g k))
    | .dict a b k => '[' :: (render g a ++ (':' :: ' ' :: (render g b ++ ']' :: posts g k)))
  def renderTail (g : Gr) : List Tm → Str
    | [] => []
    | t :: ts => ',' :: ' ' :: (render g t ++ renderTail g ts)
end

def NameOK (n : Str) : Prop := n ≠ [] ∧ ∀ ch ∈ n, special ch = false

mutual
  def WFt : Tm → Prop
    | .leaf n _ => NameOK n
    | .app n a as _ => NameOK n ∧ WFt a ∧ WFts as
    | .tup a as _ => WFt a ∧ WFts as
    | .dict a b _ => WFt a ∧ WFt b
  def WFts : List Tm → Prop
    | [] => True
    | t :: ts => WFt t ∧ WFts ts
end

/-- a rest that starts with a special character (or is empty) -/
def SpHead (X : Str) : Prop := ∀ ch rest, X = ch :: rest → special ch = true

/-- a rest that follows a complete term: empty, or a separator / closing bracket -/
def Stop (g : Gr) (r : Str) : Prop := ∀ ch rest, r = ch :: rest → ch = ',' ∨ ch = g.c ∨ ch = ']' ∨ ch = ':'

theorem name_split : ∀ (n n' X X' : Str), (∀ ch ∈ n, special ch = false) → (∀ ch ∈ n', special ch = false) →
    SpHead X → SpHead X' → n ++ X = n' ++ X' → n = n' ∧ X = X'
  | [], [], X, X', _, _, _, _, h => ⟨rfl, by simpa using h⟩
  | [], c' :: n', X, X', _, hn', hX, _, h => by
    simp only [List.nil_append, List.cons_append] at h
    have := hX c' _ h
    have := hn' c' (by simp)
    simp_all
  | c :: n, [], X, X', hn, _, _, hX', h => by
    simp only [List.nil_append, List.cons_append] at h
    have := hX' c _ h.symm
    have := hn c (by simp)
    simp_all
  | c :: n, c' :: n', X, X', hn, hn', hX, hX', h => by
    simp only [List.cons_append, List.cons.injEq] at h
    obtain ⟨rfl, h⟩ := h
    obtain ⟨rfl, rfl⟩ := name_split n n' X X' (fun ch hc => hn ch (by simp [hc]))
      (fun ch hc => hn' ch (by simp [hc])) hX hX' h
    exact ⟨rfl, rfl⟩

theorem posts_cancel (g : Gr) : ∀ (k k' : Nat) (r1 r2 : Str),
    (∀ rest, r1 ≠ g.p :: rest) → (∀ rest, r2 ≠ g.p :: rest) →
    posts g k ++ r1 = posts g k' ++ r2 → k = k' ∧ r1 = r2
  | 0, 0, r1, r2, _, _, h => ⟨rfl, by simpa [posts] using h⟩
  | 0, k' + 1, r1, r2, h1, _, h => by
    simp only [posts, Gr.post, List.nil_append, List.cons_append] at h
    exact absurd h (h1 _)
  | k + 1, 0, r1, r2, _, h2, h => by
    simp only [posts, Gr.post, List.nil_append, List.cons_append] at h
    exact absurd h.symm (h2 _)
  | k + 1, k' + 1, r1, r2, h1, h2, h => by
    simp only [posts, List.append_assoc] at h
    have := posts_cancel g k k' r1 r2 h1 h2 (List.append_cancel_left h)
    exact ⟨by omega, this.2⟩

theorem stop_not_p (g : Gr) (hg : g.OK) (r : Str) (hr : Stop g r) : ∀ rest, r ≠ g.p :: rest := by
  intro rest h
  rcases hr _ _ h with h | h | h | h
  · exact hg.p_ne_comma h
  · exact hg.p_ne_c h
  · exact hg.p_ne_rb h
  · exact hg.p_ne_colon h

/-- after a name: postfix marks, then a stop — never the opening bracket -/
theorem spHead_posts (g : Gr) (hg : g.OK) (k : Nat) (r : Str) (hr : Stop g r) :
    SpHead (posts g k ++ r) ∧ ∀ rest, posts g k ++ r ≠ g.o :: rest := by
  cases k with
  | zero =>
    simp only [posts, List.nil_append]
    constructor
    · intro ch rest h
      rcases hr ch rest h with rfl | rfl | rfl | rfl
      · rfl
      · exact hg.c_sp
      · rfl
      · rfl
    · intro rest h
      rcases hr _ _ h with h | h | h | h
      · exact hg.o_ne_comma h
      · exact hg.o_ne_c h
      · exact hg.o_ne_rb h
      · exact hg.o_ne_colon h
  | succ k =>
    simp only [posts, Gr.post, List.cons_append]
    constructor
    · intro ch rest h
      simp only [List.cons.injEq] at h
      rw [← h.1]; exact hg.p_sp
    · intro rest h
      simp only [List.cons.injEq] at h
      exact hg.o_ne_p h.1.symm

theorem spHead_cons (ch : Char) (h : special ch = true) (X : Str) : SpHead (ch :: X) := by
  intro c rest e
  simp only [List.cons.injEq] at e
  rw [← e.1]; exact h

theorem stop_cons_comma (g : Gr) (X : Str) : Stop g (',' :: X) := by
  intro c rest e
  simp only [List.cons.injEq] at e
  exact .inl e.1.symm

theorem stop_cons_c (g : Gr) (X : Str) : Stop g (g.c :: X) := by
  intro c rest e
  simp only [List.cons.injEq] at e
  exact .inr (.inl e.1.symm)

theorem stop_cons_rb (g : Gr) (X : Str) : Stop g (']' :: X) := by
  intro c rest e
  simp only [List.cons.injEq] at e
  exact .inr (.inr (.inl e.1.symm))

theorem stop_cons_colon (g : Gr) (X : Str) : Stop g (':' :: X) := by
  intro c rest e
  simp only [List.cons.injEq] at e
  exact .inr (.inr (.inr e.1.symm))

/-- what follows the first argument: the remaining arguments and the closing bracket -/
theorem stop_tail (g : Gr) (as : List Tm) (cl : Char) (hcl : cl = g.c ∨ cl = ']') (X : Str) :
    Stop g (renderTail g as ++ cl :: X) := by
  cases as with
  | nil =>
    simp only [renderTail, List.nil_append]
    rcases hcl with rfl | rfl
    · exact stop_cons_c g X
    · exact stop_cons_rb g X
  | cons t ts => simp only [renderTail, List.cons_append]; exact stop_cons_comma g _

mutual
/-- **unique readability** -/
theorem ur (g : Gr) (hg : g.OK) : ∀ (a b : Tm) (r1 r2 : Str), WFt a → WFt b → Stop g r1 → Stop g r2 →
    render g a ++ r1 = render g b ++ r2 → a = b ∧ r1 = r2
  | .leaf n k, b, r1, r2, ha, hb, h1, h2, h => by
    have hn : NameOK n := by simpa [WFt] using ha
    cases b with
    | leaf n' k' =>
      have hn' : NameOK n' := by simpa [WFt] using hb
      simp only [render, List.append_assoc] at h
      obtain ⟨rfl, e⟩ := name_split n n' _ _ hn.2 hn'.2 (spHead_posts g hg k r1 h1).1 (spHead_posts g hg k' r2 h2).1 h
      obtain ⟨rfl, rfl⟩ := posts_cancel g k k' r1 r2 (stop_not_p g hg r1 h1) (stop_not_p g hg r2 h2) e
      exact ⟨rfl, rfl⟩
    | app n' a' as' k' =>
      have hn' : NameOK n' := by simp only [WFt] at hb; exact hb.1
      simp only [render, List.append_assoc, List.cons_append] at h
      obtain ⟨_, e⟩ := name_split n n' _ _ hn.2 hn'.2 (spHead_posts g hg k r1 h1).1 (spHead_cons g.o hg.o_sp _) h
      exact absurd e ((spHead_posts g hg k r1 h1).2 _)
    | tup a' as' k' =>
      simp only [render, List.append_assoc, List.cons_append] at h
      obtain ⟨hne, hsp⟩ := hn
      cases n with
      | nil => exact absurd rfl hne
      | cons c n =>
        simp only [List.cons_append, List.cons.injEq] at h
        have := hsp c (by simp)
        rw [h.1] at this
        simp [special] at this
    | dict a' b' k' =>
      simp only [render, List.append_assoc, List.cons_append] at h
      obtain ⟨hne, hsp⟩ := hn
      cases n with
      | nil => exact absurd rfl hne
      | cons c n =>
        simp only [List.cons_append, List.cons.injEq] at h
        have := hsp c (by simp)
        rw [h.1] at this
        simp [special] at this
  | .app n a as k, b, r1, r2, ha, hb, h1, h2, h => by
    simp only [WFt] at ha
    obtain ⟨hn, hwa, hwas⟩ := ha
    cases b with
    | leaf n' k' =>
      have hn' : NameOK n' := by simpa [WFt] using hb
      simp only [render, List.append_assoc, List.cons_append] at h
      obtain ⟨_, e⟩ := name_split n n' _ _ hn.2 hn'.2 (spHead_cons g.o hg.o_sp _) (spHead_posts g hg k' r2 h2).1 h
      exact absurd e.symm ((spHead_posts g hg k' r2 h2).2 _)
    | app n' a' as' k' =>
      simp only [WFt] at hb
      obtain ⟨hn', hwa', hwas'⟩ := hb
      simp only [render, List.append_assoc, List.cons_append] at h
      obtain ⟨rfl, e⟩ := name_split n n' _ _ hn.2 hn'.2 (spHead_cons g.o hg.o_sp _) (spHead_cons g.o hg.o_sp _) h
      simp only [List.cons.injEq, true_and] at e
      obtain ⟨rfl, e2⟩ := ur g hg a a' _ _ hwa hwa' (stop_tail g as g.c (.inl rfl) _) (stop_tail g as' g.c (.inl rfl) _) e
      obtain ⟨rfl, e3⟩ := urTail g hg g.c hg.c_ne_comma as as' _ _ hwas hwas' (.inl rfl) e2
      obtain ⟨rfl, rfl⟩ := posts_cancel g k k' r1 r2 (stop_not_p g hg r1 h1) (stop_not_p g hg r2 h2) e3
      exact ⟨rfl, rfl⟩
    | tup a' as' k' =>
      simp only [render, List.append_assoc, List.cons_append] at h
      obtain ⟨hne, hsp⟩ := hn
      cases n with
      | nil => exact absurd rfl hne
      | cons c n =>
        simp only [List.cons_append, List.cons.injEq] at h
        have := hsp c (by simp)
        rw [h.1] at this
        simp [special] at this
    | dict a' b' k' =>
      simp only [render, List.append_assoc, List.cons_append] at h
      obtain ⟨hne, hsp⟩ := hn
      cases n with
      | nil => exact absurd rfl hne
      | cons c n =>
        simp only [List.cons_append, List.cons.injEq] at h
        have := hsp c (by simp)
        rw [h.1] at this
        simp [special] at this
  | .tup a as k, b, r1, r2, ha, hb, h1, h2, h => by
    simp only [WFt] at ha
    obtain ⟨hwa, hwas⟩ := ha
    cases b with
    | leaf n' k' =>
      have hn' : NameOK n' := by simpa [WFt] using hb
      simp only [render, List.append_assoc, List.cons_append] at h
      obtain ⟨hne, hsp⟩ := hn'
      cases n' with
      | nil => exact absurd rfl hne
      | cons c n =>
        simp only [List.cons_append, List.cons.injEq] at h
        have := hsp c (by simp)
        rw [← h.1] at this
        simp [special] at this
    | app n' a' as' k' =>
      simp only [WFt] at hb
      simp only [render, List.append_assoc, List.cons_append] at h
      obtain ⟨hne, hsp⟩ := hb.1
      cases n' with
      | nil => exact absurd rfl hne
      | cons c n =>
        simp only [List.cons_append, List.cons.injEq] at h
        have := hsp c (by simp)
        rw [← h.1] at this
        simp [special] at this
    | tup a' as' k' =>
      simp only [WFt] at hb
      obtain ⟨hwa', hwas'⟩ := hb
      simp only [render, List.append_assoc, List.cons_append, List.cons.injEq, true_and] at h
      obtain ⟨rfl, e2⟩ := ur g hg a a' _ _ hwa hwa' (stop_tail g as ']' (.inr rfl) _) (stop_tail g as' ']' (.inr rfl) _) h
      obtain ⟨rfl, e3⟩ := urTail g hg ']' (by decide) as as' _ _ hwas hwas' (.inr rfl) e2
      obtain ⟨rfl, rfl⟩ := posts_cancel g k k' r1 r2 (stop_not_p g hg r1 h1) (stop_not_p g hg r2 h2) e3
      exact ⟨rfl, rfl⟩
    | dict a' b' k' =>
      simp only [WFt] at hb
      simp only [render, List.append_assoc, List.cons_append, List.cons.injEq, true_and] at h
      obtain ⟨_, e2⟩ := ur g hg a a' _ _ hwa hb.1 (stop_tail g as ']' (.inr rfl) _) (stop_cons_colon g _) h
      cases as with
      | nil => simp [renderTail] at e2
      | cons t ts => simp [renderTail] at e2
  | .dict a b' k, b, r1, r2, ha, hb, h1, h2, h => by
    simp only [WFt] at ha
    obtain ⟨hwa, hwb⟩ := ha
    cases b with
    | leaf n' k' =>
      have hn' : NameOK n' := by simpa [WFt] using hb
      simp only [render, List.append_assoc, List.cons_append] at h
      obtain ⟨hne, hsp⟩ := hn'
      cases n' with
      | nil => exact absurd rfl hne
      | cons c n =>
        simp only [List.cons_append, List.cons.injEq] at h
        have := hsp c (by simp)
        rw [← h.1] at this
        simp [special] at this
    | app n' a' as' k' =>
      simp only [WFt] at hb
      simp only [render, List.append_assoc, List.cons_append] at h
      obtain ⟨hne, hsp⟩ := hb.1
      cases n' with
      | nil => exact absurd rfl hne
      | cons c n =>
        simp only [List.cons_append, List.cons.injEq] at h
        have := hsp c (by simp)
        rw [← h.1] at this
        simp [special] at this
    | tup a' as' k' =>
      simp only [WFt] at hb
      simp only [render, List.append_assoc, List.cons_append, List.cons.injEq, true_and] at h
      obtain ⟨_, e2⟩ := ur g hg a a' _ _ hwa hb.1 (stop_cons_colon g _) (stop_tail g as' ']' (.inr rfl) _) h
      cases as' with
      | nil => simp [renderTail] at e2
      | cons t ts => simp [renderTail] at e2
    | dict a' b'' k' =>
      simp only [WFt] at hb
      simp only [render, List.append_assoc, List.cons_append, List.cons.injEq, true_and] at h
      obtain ⟨rfl, e2⟩ := ur g hg a a' _ _ hwa hb.1 (stop_cons_colon g _) (stop_cons_colon g _) h
      simp only [List.cons.injEq, true_and] at e2
      obtain ⟨rfl, e3⟩ := ur g hg b' b'' _ _ hwb hb.2 (stop_cons_rb g _) (stop_cons_rb g _) e2
      simp only [List.cons.injEq, true_and] at e3
      obtain ⟨rfl, rfl⟩ := posts_cancel g k k' r1 r2 (stop_not_p g hg r1 h1) (stop_not_p g hg r2 h2) e3
      exact ⟨rfl, rfl⟩
theorem urTail (g : Gr) (hg : g.OK) (cl : Char) (hcl : cl ≠ ',') : ∀ (as bs : List Tm) (X1 X2 : Str),
    WFts as → WFts bs → (cl = g.c ∨ cl = ']') →
    renderTail g as ++ cl :: X1 = renderTail g bs ++ cl :: X2 → as = bs ∧ X1 = X2
  | [], [], X1, X2, _, _, _, h => by simpa [renderTail] using h
  | [], b :: bs, X1, X2, _, _, _, h => by
    simp only [renderTail, List.nil_append, List.cons_append, List.cons.injEq] at h
    exact absurd h.1 hcl
  | a :: as, [], X1, X2, _, _, _, h => by
    simp only [renderTail, List.nil_append, List.cons_append, List.cons.injEq] at h
    exact absurd h.1.symm hcl
  | a :: as, b :: bs, X1, X2, ha, hb, hc, h => by
    simp only [WFts] at ha hb
    simp only [renderTail, List.cons_append, List.append_assoc, List.cons.injEq, true_and] at h
    obtain ⟨rfl, e⟩ := ur g hg a b _ _ ha.1 hb.1 (stop_tail g as cl hc _) (stop_tail g bs cl hc _) h
    obtain ⟨rfl, rfl⟩ := urTail g hg cl hcl as bs X1 X2 ha.2 hb.2 hc e
    exact ⟨rfl, rfl⟩
end

/-- rendering is injective on well-formed terms -/
theorem render_inj (g : Gr) (hg : g.OK) (a b : Tm) (ha : WFt a) (hb : WFt b)
    (h : render g a = render g b) : a = b := by
  have := ur g hg a b [] [] ha hb (by intro _ _ e; cases e) (by intro _ _ e; cases e) (by simpa using h)
  exact this.1

end TsV.C05L.Inj
